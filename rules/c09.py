"""C09 — k-means: one arg-min routine; all reported quantities of a fit describe one and the same state."""
import re
from . import layout
from . import c07
from .core import RuleResult
from .facts import fn_file, fn_key, fn_loc, walk, strip, peel_refs, pat_bindings, Render
from .sym import Tracer, Term, Cmp, k, as_term, walk_terms

LEVEL = ("Static analysis of linfa-clustering k-means: (argmin) fit, fit_with, both predict forms and transform all obtain "
         "(index, distance) from one scan function, which replaces the incumbent only when the candidate's rdistance is "
         "smaller, updates index and distance together, covers every centroid row and returns the pair; (best) every field of "
         "the returned model is a function of state saved under the same acceptance guard as the returned centroids (or of "
         "loop-invariant inputs), never of per-restart scratch state; (fresh) the distances behind the reported inertia were "
         "computed from the centroid matrix that is returned, with no reassignment in between on any path; every call of the scan and of the update helpers passes the model's own "
         "metric. Necessary conditions of "
         "'assigns to a centroid at minimal distance' and 'reported inertia and counts describe the returned centroids'; "
         "cost monotonicity and numeric values are not decided.")
ASSUME = ["rustc resolution/typeck; HIR faithfully dumped", "Distance::rdistance is the reduced distance of the configured metric"]


def locals_in(n):
    return set(x["local"] for x in walk(n) if x.get("k") == "Path" and "local" in x)


def kmeans_fns(F):
    return [f for f in F.all_fns() if f["d"]["krate"] == "linfa_clustering" and "k_means" in f["d"]["path"]]


def callees(fn):
    c = fn["crate"]
    out = set()
    for n in walk(fn["body"]):
        d = None
        if n.get("k") == "MethodCall":
            d = c.dfn(n.get("def"))
        elif n.get("k") == "Path" and "def" in n:
            d = c.dfn(n["def"])
        if d is not None:
            out.add((d["krate"], d.get("raw", d["path"])))
    return out


def fold_scan(fn):
    """the arg-min scan written as a fold: `rows().enumerate()[.skip(1)].fold(init, |acc, (i, row)| { let d = rdistance(row, x);
    if d < acc.1 { (i, d) } else { acc } })`.  Returns dict(cond, verdict, pair, coverage, chain, ln) or None."""
    c = fn["crate"]
    r = Render(c)
    for n in walk(fn["body"]):
        if n.get("k") != "MethodCall" or n["name"] != "fold" or len(n["args"]) != 2:
            continue
        clo = strip(n["args"][1])
        if clo.get("k") != "Closure" or len(clo["params"]) != 2:
            continue
        if not any(y.get("k") == "MethodCall" and y["name"] == "rdistance" for y in walk(clo["body"])):
            continue
        accs = set(b["local"] for b in pat_bindings(clo["params"][0]))
        items = set(b["local"] for b in pat_bindings(clo["params"][1]))
        dist_locals = set()
        for y in walk(clo["body"]):
            if y.get("k") == "LetStmt" and y.get("init") is not None and any(z.get("k") == "MethodCall" and z["name"] == "rdistance" for z in walk(y["init"])):
                for b in pat_bindings(y["pat"]):
                    dist_locals.add(b["local"])
        ifs = [y for y in walk(clo["body"]) if y.get("k") == "If" and y.get("else") is not None]
        if not ifs:
            continue
        iff = ifs[0]
        cond = strip(iff["c"])
        if cond.get("k") != "Binary" or cond["op"] not in ("<", "<=", ">", ">="):
            continue

        def is_cand(e):
            e = peel_refs(e)
            return (e.get("k") == "Path" and e.get("local") in dist_locals) or (e.get("k") == "MethodCall" and e["name"] == "rdistance")

        def is_inc(e):
            e = peel_refs(e)
            while e.get("k") == "Field":
                e = peel_refs(e["e"])
            return e.get("k") == "Path" and e.get("local") in accs
        l, rr = cond["l"], cond["r"]
        verdict = None
        if is_cand(l) and is_inc(rr):
            verdict = {"<": "strict", "<=": "weak", ">": "reversed", ">=": "reversed"}[cond["op"]]
        elif is_inc(l) and is_cand(rr):
            verdict = {">": "strict", ">=": "weak", "<": "reversed", "<=": "reversed"}[cond["op"]]
        then = strip(iff["then"])
        if then.get("k") == "Block" and then.get("e") is not None:
            then = strip(then["e"])
        pair = then.get("k") == "Tup" and len(then["es"]) == 2 and any(y.get("k") == "Path" and y.get("local") in items for y in walk(then["es"][0])) and is_cand(then["es"][1])
        # coverage of the centroid rows
        names = []
        e = strip(n["recv"])
        while e.get("k") == "MethodCall":
            names.append(e["name"])
            e = strip(e["recv"])
        chain = r.e(n["recv"])
        bad = [x for x in names if x in ("take", "step_by", "filter", "rev", "skip_while", "take_while")]
        coverage = "ok" if any(x in names for x in ("rows", "outer_iter", "axis_iter", "genrows")) and not bad else ("bad" if bad else "unknown")
        if "skip" in names and coverage == "ok":
            # skipping the first row is sound only if the fold starts from row 0 as the incumbent
            init = n["args"][0]
            inits = {}
            for y in walk(fn["body"]):
                if y.get("k") == "LetStmt" and y.get("init") is not None and y["pat"].get("k") == "Bind":
                    inits[y["pat"]["local"]] = y["init"]
            i0 = peel_refs(init)
            if i0.get("k") == "Path" and i0.get("local") in inits:
                i0 = peel_refs(inits[i0["local"]])
            txt = r.e(i0)
            # `let first = centroids.row(0); let start = (0, rdistance(first, x));`: follow the locals the start pair mentions
            for y in walk(i0):
                if y.get("k") == "Path" and y.get("local") in inits:
                    txt += " " + r.e(inits[y["local"]])
            skip_arg = [y for y in walk(n["recv"]) if y.get("k") == "MethodCall" and y["name"] == "skip"]
            one = skip_arg and peel_refs(skip_arg[0]["args"][0]).get("v") == "1"
            row0 = i0.get("k") == "Tup" and len(i0["es"]) == 2 and peel_refs(i0["es"][0]).get("v") == "0" and ".row(0)" in txt.replace(" ", "") and "rdistance" in txt
            coverage = "ok" if (one and row0) else "bad"
        return {"cond": r.e(cond), "verdict": verdict, "pair": bool(pair), "coverage": coverage, "chain": chain, "ln": n.get("ln")}
    return None


def rule_argmin(ctx):
    res = RuleResult("R-C09-argmin", "one scan function serves fit/fit_with/predict/transform; it keeps the smaller rdistance, index and distance together, over all centroid rows")
    F = ctx.facts()
    fns = kmeans_fns(F)
    # scan functions: call Distance::rdistance and compare two values derived from it
    scans = []
    for fn in fns:
        c = fn["crate"]
        calls_rd = any(n.get("k") == "MethodCall" and n["name"] == "rdistance" and "Distance" in ((c.dfn(n.get("def")) or {}).get("trait") or "") for n in walk(fn["body"]))
        if not calls_rd:
            continue
        tr = Tracer(fn).run()
        cmps = []
        for e in tr.events:
            for g in e.guards:
                for t in walk_terms(g[3]):
                    if isinstance(t, Cmp) and sum(1 for a in t.poly.atoms() if "call:rdistance" in a) >= 2:
                        cmps.append((e, g, t))
        if cmps:
            scans.append((fn, tr, cmps))
    fold_info = None
    if not scans:
        for fn in fns:
            info = fold_scan(fn)
            if info is not None:
                fold_info = (fn, info)
                break
    if fold_info is None and len(scans) != 1:
        res.undecided("linfa_clustering::k_means : scan-functions", "expected exactly one function comparing two rdistance values (the arg-min scan), found %s" % [fn_key(s[0]) for s in scans])
        return res.finish(6)
    if fold_info is not None:
        scan, info = fold_info
        skey = fn_key(scan)
        res.instance("scan function: %s (fold form)" % skey)
        res.ok()
        res.instance("%s : incumbent replaced under %s" % (skey, info["cond"][:90]))
        if info["verdict"] in ("strict", "weak") and info["pair"]:
            res.ok()
            res.sample({"scan": skey, "replace_when": "candidate rdistance %s incumbent" % ("<" if info["verdict"] == "strict" else "<="), "form": "fold"})
        elif info["verdict"] == "reversed":
            res.violate("%s : direction" % skey, "the incumbent is replaced when the candidate is LARGER: %s" % info["cond"][:120], fn_loc(scan, info["ln"]))
        elif not info["pair"]:
            res.violate("%s : partial-update" % skey, "index and distance are not replaced together under the comparison", fn_loc(scan, info["ln"]))
        else:
            res.undecided("%s : no-replacement" % skey, "the fold's replacement rule was not understood", fn_loc(scan, info["ln"]))
        res.instance("%s : scan iterator %s" % (skey, info["chain"][:90]))
        if info["coverage"] == "ok":
            res.ok()
        elif info["coverage"] == "bad":
            res.violate("%s : coverage" % skey, "the scan does not iterate over all rows of the centroid matrix: %s" % info["chain"][:120], fn_loc(scan, info["ln"]))
        else:
            res.undecided("%s : coverage-form" % skey, "coverage of the centroid rows not established: %s" % info["chain"][:120], fn_loc(scan, info["ln"]))
    else:
        scan, tr, cmps = scans[0]
        skey = fn_key(scan)
        res.instance("scan function: %s" % skey)
        res.ok()
        # (b) inside the scan
        upd = [e for e in tr.events if e.kind == "assign" and e.guards and e.loops]
        by_guard = {}
        for e in upd:
            by_guard.setdefault(e.guards[-1][1], []).append(e)
        good = False
        for gk, evs in by_guard.items():
            g = evs[0].guards[-1]
            cm = [t for t in walk_terms(g[3]) if isinstance(t, Cmp)]
            if not cm:
                continue
            verdict = cm[0].asserts_less(lambda a: "loopvar:" in a and "call:rdistance" in a, lambda b: "call:rdistance" in b and "loopvar:" not in b)
            if g[0] == "-" and verdict in ("strict", "weak"):
                verdict = "reversed"
            res.instance("%s : incumbent replaced under %s" % (skey, gk[:90]))
            if verdict in ("strict", "weak"):
                vals = [k(e.val) for e in evs]
                has_idx = any(v.startswith("loopvar:") for v in vals)
                has_dist = any("call:rdistance" in v and "loopvar:" in v for v in vals)
                if has_idx and has_dist and len(evs) == 2:
                    res.ok()
                    good = True
                    res.sample({"scan": skey, "replace_when": "candidate rdistance %s incumbent" % ("<" if verdict == "strict" else "<="), "updates": [e.lhs for e in evs]})
                else:
                    res.violate("%s : partial-update" % skey, "index and distance are not replaced together under the comparison (writes: %s)" % [e.lhs for e in evs], fn_loc(scan, evs[0].node["ln"]))
            elif verdict == "reversed":
                res.violate("%s : direction" % skey, "the incumbent is replaced when the candidate is LARGER: %s" % gk[:120], fn_loc(scan, evs[0].node["ln"]))
        if not good and not res.violations:
            res.undecided("%s : no-replacement" % skey, "no guarded replacement of (index, distance) found in the scan", fn_loc(scan))
        # covers every centroid row: loop iterator derives from rows()/outer_iter()/axis_iter of the centroids parameter without skip/take/step_by
        loops = [e.loops[-1] for e in upd if e.loops]
        if loops:
            it = loops[0][2]
            ik = k(it)
            res.instance("%s : scan iterator %s" % (skey, ik[:90]))
            # `rows().enumerate().skip(1)` (indices assigned before the skip) leaves out row 0 only: sound when the incumbent
            # the scan starts from is (0, rdistance(row 0, x))
            starts_from_row0 = False
            while ik.startswith("call:into_iter(call:skip(") and ik.endswith(")"):
                ik = ik[len("call:into_iter("):-1]      # the for loop's own IntoIterator::into_iter
            if ik.startswith("call:skip(call:enumerate(") and re.search(r",\s*1$", ik.rstrip(")")):
                row0 = set()
                for y in walk(scan["body"]):
                    if y.get("k") == "LetStmt" and y.get("init") is not None and y["pat"].get("k") == "Bind":
                        i0 = peel_refs(y["init"])
                        while i0.get("k") == "MethodCall" and i0["name"] in ("view", "to_owned", "clone"):
                            i0 = peel_refs(i0["recv"])
                        if i0.get("k") == "MethodCall" and i0["name"] == "row" and peel_refs(i0["recv"]).get("name") == "centroids" and str(peel_refs(i0["args"][0]).get("v")) == "0":
                            row0.add(y["pat"]["local"])
                for y in walk(scan["body"]):
                    if y.get("k") == "LetStmt" and y.get("init") is not None and peel_refs(y["init"]).get("k") == "Tup" and len(peel_refs(y["init"])["es"]) == 2:
                        a, b = peel_refs(y["init"])["es"]
                        if str(peel_refs(a).get("v")) == "0" and any(z.get("k") == "MethodCall" and z["name"] == "rdistance" and any((w.get("k") == "Path" and w.get("local") in row0) or (w.get("k") == "MethodCall" and w["name"] == "row" and str(peel_refs(w["args"][0]).get("v")) == "0") for a_ in [z["recv"]] + z["args"] for w in walk(a_)) for z in walk(b)):
                            starts_from_row0 = True
            ik_rest = ik.replace("call:skip(call:enumerate(", "call:enumerate(", 1) if starts_from_row0 else ik
            if "param:centroids" in ik and not any(x in ik_rest for x in ("call:skip", "call:take", "call:step_by", "call:rev(", "call:filter")) and any(x in ik for x in ("call:rows", "call:outer_iter", "call:axis_iter", "call:genrows")):
                res.ok()
            elif "param:centroids" in ik and any(x in ik_rest for x in ("call:skip", "call:take", "call:step_by", "call:rev(", "call:filter")) and any(x in ik for x in ("call:rows", "call:outer_iter", "call:axis_iter", "call:genrows")):
                res.violate("%s : coverage" % skey, "the scan does not iterate over all rows of the centroid matrix: %s" % ik[:120], fn_loc(scan))
            else:
                # another way of walking the rows (the chunks of `as_slice()` with a fallback for the other layouts): what it
                # covers is not read here - the layout discipline of such a walk is R-C09-memorder's business
                res.undecided("%s : coverage-form" % skey, "coverage of the centroid rows not established: %s" % ik[:120], fn_loc(scan))
        # every distance the scan compares and hands back is one that the configured metric computed: a local that is
        # compared with `<` and stored as the running minimum has an initialiser that calls Distance::rdistance (or is the
        # identity element of the minimum)
        c_ = scan["crate"]
        inits_ = {}
        for y in walk(scan["body"]):
            if y.get("k") == "LetStmt" and y.get("init") is not None and y["pat"].get("k") == "Bind":
                inits_[y["pat"]["local"]] = y["init"]
        for y in walk(scan["body"]):
            if y.get("k") == "Assign" and peel_refs(y["r"]).get("k") == "Path" and peel_refs(y["r"]).get("local") in inits_ and (c_.ty(peel_refs(y["r"]).get("t")) or "").strip() in ("F", "f32", "f64"):
                init = inits_[peel_refs(y["r"])["local"]]
                by_metric = any(z.get("k") == "MethodCall" and z["name"] in ("rdistance", "distance") and "Distance" in ((c_.dfn(z.get("def")) or {}).get("trait") or "") for z in walk(init))
                arith = any(z.get("k") in ("Binary",) and z["op"] in ("-", "+", "*") for z in walk(init)) or any(z.get("k") == "MethodCall" and z["name"] in ("abs", "powi", "sqrt", "dot") for z in walk(init))
                if not by_metric and arith:
                    res.instance("%s : running minimum taken from `%s`" % (skey, Render(c_).e(init)[:40]))
                    res.violate("%s : distance-without-the-metric" % skey, "the running minimum is replaced by `%s`, a distance computed by hand and not by the configured metric's rdistance: for a metric whose reduced distance is not that expression (the squared distance of L2) the returned value, the inertia and the sampling weights are in another unit" % Render(c_).e(init)[:60], fn_loc(scan, y.get("ln")))
        # returns the pair
        rk = k(tr.result)
        res.instance("%s : returns %s" % (skey, rk[:80]))
    # (a) every public entry reaches the scan through workspace calls
    by_raw = {(f["d"]["krate"], f["d"].get("raw")): f for f in fns}
    target = (scan["d"]["krate"], scan["d"].get("raw"))
    entries = []
    for f in fns:
        d = f["d"]
        tn = (d.get("trait") or "").split("::")[-1]
        st = (d.get("self_adt") or "").split("::")[-1]
        if (tn in ("Fit", "FitWith") and st == "KMeansValidParams") or (tn in ("PredictInplace", "Transformer") and st == "KMeans" and d["name"] in ("predict_inplace", "transform")):
            entries.append(f)
    for f in entries:
        seen, frontier, depth = set(), [f], 0
        found = False
        while frontier and depth <= 4 and not found:
            nxt = []
            for g in frontier:
                for cal in callees(g):
                    if cal == target:
                        found = True
                    if cal in by_raw and cal not in seen:
                        seen.add(cal)
                        nxt.append(by_raw[cal])
            frontier = nxt
            depth += 1
        res.instance("%s reaches %s" % (fn_key(f), skey))
        if found:
            res.ok()
        else:
            res.violate("%s : bypasses-scan" % fn_key(f), "entry point does not obtain its assignment from the common scan function %s" % skey, fn_loc(f))
    if len(entries) < 5:
        res.missing_anchor("k-means entry points (expected 5, found %d)" % len(entries))
    # (c) every call that hands a metric to the scan (directly or through the update_* helpers) hands the
    #     model's / parameter set's own metric on, never a freshly named one
    helpers = set([target])
    for f in fns:
        if target in callees(f) and f["d"]["name"].startswith("update_"):
            helpers.add((f["d"]["krate"], f["d"].get("raw")))
    n_calls = 0
    for f in fns:
        c = f["crate"]
        r = Render(c)
        for n in walk(f["body"]):
            if n.get("k") != "Call":
                continue
            fd = c.dfn(strip(n["f"]).get("def")) if strip(n["f"]).get("k") == "Path" else None
            if fd is None or (fd["krate"], fd.get("raw")) not in helpers or not n["args"]:
                continue
            n_calls += 1
            arg = r.e(n["args"][0])
            inst = "%s : %s(%s, ..)" % (fn_key(f), fd["name"], arg[:30])
            res.instance(inst)
            if "dist_fn" in arg:
                res.ok()
            else:
                res.violate("%s : foreign-metric:%s" % (fn_key(f), fd["name"]), "`%s` is called with the metric `%s` instead of the model's own dist_fn: assignments then minimise a different distance than training did" % (fd["name"], arg[:60]), fn_loc(f, n["ln"]))
    return res.finish(12)


def rule_scanexit(ctx):
    """The arg-min over the centroids has to look at every centroid unless the current one is at distance exactly zero.
    A scan that stops early when the (reduced) distance is merely below some threshold - a tolerance, F::epsilon() - hands
    the observation to the first centroid under the threshold, not to the closest one; for data whose distances are all
    below the threshold that is always the first centroid scanned."""
    res = RuleResult("R-C09-scanexit", "a scan over the centroids that compares reduced distances is left early only when a distance is exactly zero")
    F = ctx.facts()
    fns = kmeans_fns(F)
    from .layout import with_parents
    n_scans = 0
    for fn in fns:
        c = fn["crate"]
        dist_locals = set()
        has_rd = False
        for n in walk(fn["body"]):
            if n.get("k") == "LetStmt" and n.get("init") is not None and any(y.get("k") == "MethodCall" and y["name"] in ("rdistance", "distance") and "Distance" in ((c.dfn(y.get("def")) or {}).get("trait") or "") for y in walk(n["init"])):
                has_rd = True
                if n["pat"].get("k") == "Bind":
                    dist_locals.add(n["pat"]["local"])
                else:
                    # `let (mut closest_index, mut minimum_distance) = (0, dist_fn.rdistance(..))`: the float components
                    for b in pat_bindings(n["pat"]):
                        if (c.ty(b.get("t")) or "").strip().lstrip("&") not in ("usize", "u32", "u64", "i32", "i64", "bool"):
                            dist_locals.add(b["local"])
        if not has_rd:
            continue
        n_scans += 1
        key = fn_key(fn)
        exits = 0
        for n, anc in with_parents(fn["body"]):
            if n.get("k") != "If":
                continue
            if not any(a.get("k") in ("Loop", "Closure") for a in anc):
                continue
            cond = strip(n["c"])
            if cond.get("k") != "Binary" or cond["op"] not in ("<", "<=", "==", ">", ">="):
                continue
            sides = [peel_refs(cond["l"]), peel_refs(cond["r"])]
            di = [i for i, x in enumerate(sides) if x.get("k") == "Path" and x.get("local") in dist_locals]
            if len(di) != 1:
                continue
            other = sides[1 - di[0]]
            # does the taken branch leave the scan?
            leaves = False
            for y in walk(n["then"]):
                if y.get("k") in ("Break", "Ret"):
                    leaves = True
            tail = strip(n["then"])
            if tail.get("k") == "Block":
                tail = strip(tail.get("e") or {})
            if tail.get("k") == "Call" and strip(tail["f"]).get("k") == "Path" and (c.dfn(strip(tail["f"]).get("def")) or {}).get("name") in ("Err", "Break") and any(a.get("k") == "Closure" for a in anc):
                # the closure of a try_fold / try_for_each: Err(..) / ControlFlow::Break(..) ends the scan
                leaves = True
            if not leaves:
                continue
            exits += 1
            zero = (other.get("k") == "Lit" and other.get("v", "").strip("0._f3264") == "") or (other.get("k") == "Call" and not other["args"] and (c.dfn(strip(other["f"]).get("def")) or {}).get("name") == "zero")
            op = cond["op"] if di[0] == 0 else {"<": ">", ">": "<", "<=": ">=", ">=": "<=", "==": "=="}[cond["op"]]
            res.instance("%s : scan left when distance %s %s" % (key, op, Render(c).e(other)[:30]))
            if zero and op in ("==", "<="):
                res.ok()
            else:
                res.violate("%s : scan-exits-on-threshold" % key, "the scan over the centroids stops as soon as a distance is %s `%s`: the observation goes to the first centroid under that threshold, not to the closest one (for small-scale data every distance is under it)" % (op, Render(c).e(other)[:40]), fn_loc(fn, n["ln"]))
        res.instance("%s : %d early exits in a distance scan" % (key, exits))
        res.ok()
    if n_scans == 0:
        res.missing_anchor("k-means functions computing distances to centroids")
    return res.finish(1)


def rule_counts(ctx):
    """every model a fit path returns reports counts and inertia computed from an assignment: a model literal whose
    cluster_count is a constant array (ones / zeros / from_elem) does not describe the centroids it carries"""
    res = RuleResult("R-C09-counts", "every KMeans literal built by fit / fit_with takes cluster_count from a computed assignment, never from a constant array")
    F = ctx.facts()
    n_lits = 0
    for fn in kmeans_fns(F):
        if fn["d"]["name"] not in ("fit", "fit_with"):
            continue
        c = fn["crate"]
        inits = {}
        for n in walk(fn["body"]):
            if n.get("k") == "LetStmt" and n.get("init") is not None and n["pat"].get("k") == "Bind":
                inits[n["pat"]["local"]] = n["init"]
        from .layout import with_parents
        for n, anc_ in with_parents(fn["body"]):
            if n.get("k") != "Struct" or not (c.dfn(n.get("def")) or {}).get("path", "").endswith("KMeans"):
                continue
            n_lits += 1
            if any(a_.get("k") in ("LetStmt", "Assign") for a_ in anc_):
                # bound to a local first (the incremental model that fit_with goes on to update): not a returned model yet
                res.instance("%s : KMeans literal #%d is bound to a local and updated afterwards" % (fn_key(fn), n_lits))
                res.ok()
                continue
            key = fn_key(fn)
            for f in n["fields"]:
                if f["name"] != "cluster_count":
                    continue
                res.instance("%s : KMeans literal #%d cluster_count" % (key, n_lits))
                v = peel_refs(f["e"])
                hops = 0
                while v.get("k") == "Path" and v.get("local") in inits and hops < 4:
                    v = peel_refs(inits[v["local"]])
                    hops += 1
                const = False
                if v.get("k") == "Call":
                    d = c.dfn(strip(v["f"]).get("def")) if strip(v["f"]).get("k") == "Path" else None
                    if d and d["krate"] == "ndarray" and d["name"] in ("ones", "zeros", "from_elem", "default") and not any(y.get("k") == "Path" and "local" in y and y["local"] in inits and any(z.get("k") == "MethodCall" for z in walk(inits[y["local"]])) and False for y in walk(v)):
                        # a constant array is fine as the *start* of an accumulation; as the field value itself it is not
                        const = f["e"] is not None and peel_refs(f["e"]) is v or True
                        # was the local mutated (counts accumulated into it) before the literal?
                        root = peel_refs(f["e"])
                        if root.get("k") == "Path" and "local" in root:
                            for y in walk(fn["body"]):
                                if y.get("k") in ("AssignOp", "Assign") and any(z.get("k") == "Path" and z.get("local") == root["local"] for z in walk(y["l"])):
                                    const = False
                                if y.get("k") == "Ref" and y.get("mut") and peel_refs(y["e"]).get("local") == root["local"]:
                                    const = False
                                # `counts.get_mut(c)`, `counts.iter_mut()`, `counts.mapv_inplace(..)`: a method taking the local by `&mut`
                                if y.get("k") == "MethodCall" and peel_refs(y["recv"]).get("local") == root["local"] and ((c.ty(y["recv"].get("at")) or "").startswith("&mut") or y["name"].endswith("_mut") or y["name"].endswith("_inplace") or y["name"] in ("assign", "fill", "scaled_add", "zip_mut_with")):
                                    # `counts.slice_mut(..).fill(F::one())` / `counts.fill(1.)`: writing a constant leaves a constant
                                    filler = y if y["name"] == "fill" else next((z for z in walk(fn["body"]) if z.get("k") == "MethodCall" and z["name"] == "fill" and peel_refs(z["recv"]) is y), None)
                                    if filler is not None and filler.get("args") and not any(z.get("k") == "Path" and "local" in z for z in walk(filler["args"][0])):
                                        continue
                                    const = False
                if const:
                    res.violate("%s : constant-cluster-count" % key, "a model is returned whose cluster_count is the constant array `%s`: it is not the number of observations the returned centroids attract (duplicated observations all go to the first of identical centroids)" % Render(c).e(v)[:40], fn_loc(fn, n["ln"]))
                else:
                    res.ok()
    if n_lits < 2:
        res.missing_anchor("KMeans literals in fit / fit_with (found %d)" % n_lits)
    return res.finish(2)


def fit_fn(res, F):
    fns = [f for f in kmeans_fns(F) if f["d"]["name"] == "fit" and (f["d"].get("trait") or "").endswith("Fit") and (f["d"].get("self_adt") or "").endswith("KMeansValidParams")]
    if not fns:
        res.missing_anchor("<KMeansValidParams as Fit>::fit")
    return fns


def rule_best(ctx):
    res = RuleResult("R-C09-best", "every field of the model returned by fit derives from state saved under the acceptance guard of the returned centroids, or from loop-invariant inputs")
    F = ctx.facts()
    for fn in fit_fn(res, F):
        c = fn["crate"]
        key = fn_key(fn)
        r = Render(c)
        body = fn["body"]
        # the result literal
        lits = [n for n in walk(body) if n.get("k") == "Struct" and (c.dfn(n.get("def")) or {}).get("path", "").endswith("KMeans")]
        if not lits:
            res.missing_anchor("KMeans { .. } literal in fit")
            continue
        lit = lits[-1]
        # restart loop = outermost for-loop of the body
        top = strip(body)
        loops = [s for s in top["stmts"] if strip(s).get("k") == "Match" and strip(s).get("src") == "ForLoopDesugar"]
        if not loops:
            res.undecided("%s : no-restart-loop" % key, "restart loop not found (fail closed)", fn_loc(fn))
            continue
        loop = strip(loops[0])
        declared_before = set()
        for s in top["stmts"]:
            if s is loops[0]:
                break
            if s.get("k") == "LetStmt":
                declared_before |= set(b["local"] for b in pat_bindings(s["pat"]))
        names = {}
        for n in walk(body):
            if n.get("k") == "Path" and "local" in n:
                names[n["local"]] = n["name"]
        # writes inside the loop to outer locals, with their enclosing If-guards (as rendered text of the condition)
        writes = {}

        def visit(n, guards):
            kk = n.get("k")
            if kk == "If":
                visit(n["c"], guards)
                g = r.e(n["c"])
                visit(n["then"], guards + [g])
                if n.get("else"):
                    visit(n["else"], guards + ["!" + g])
                return
            if kk in ("Assign", "AssignOp"):
                root = peel_refs(n["l"])
                while root.get("k") in ("Field", "Index"):
                    root = peel_refs(root["e"])
                if root.get("k") == "Path" and root.get("local") in declared_before:
                    writes.setdefault(root["local"], []).append((tuple(guards), n["ln"]))
            if kk == "Ref" and n.get("mut"):
                root = peel_refs(n["e"])
                if root.get("k") == "Path" and root.get("local") in declared_before:
                    writes.setdefault(root["local"], []).append((tuple(guards), n["ln"]))
            if kk == "MethodCall":
                rt = c.ty(n["recv"].get("at")) if "at" in n["recv"] else ""
                root = peel_refs(n["recv"])
                if (rt or "").startswith("&mut") and root.get("k") == "Path" and root.get("local") in declared_before and n["name"] not in ("clone",):
                    writes.setdefault(root["local"], []).append((tuple(guards), n["ln"]))
            from .facts import children
            for ch in children(n):
                visit(ch, guards)
            if kk == "Closure":
                visit(n["body"], guards)
        visit(loop, [])
        # acceptance guard = guard of the write to the local that feeds `centroids`
        post = []
        seen_loop = False
        for s in top["stmts"] + ([top["e"]] if top.get("e") else []):
            if s is loops[0]:
                seen_loop = True
                continue
            if seen_loop:
                post.append(s)
        # dependency closure over post-loop code
        deps = {}
        for s in post:
            for n in walk(s):
                if n.get("k") == "LetStmt" and n.get("init"):
                    for b in pat_bindings(n["pat"]):
                        deps.setdefault(b["local"], set()).update(locals_in(n["init"]))
                        names[b["local"]] = b["name"]
                if n.get("k") == "Match" and n.get("src") == "Normal":
                    sl = locals_in(n["scrut"])
                    for a in n["arms"]:
                        for b in pat_bindings(a["pat"]):
                            deps.setdefault(b["local"], set()).update(sl)
                            names[b["local"]] = b["name"]
                if n.get("k") in ("Semi",) or n.get("k") in ("MethodCall", "AssignOp", "Assign"):
                    x = strip(n)
                    muts = set()
                    for y in walk(x):
                        if y.get("k") in ("Assign", "AssignOp"):
                            root = peel_refs(y["l"])
                            while root.get("k") in ("Field", "Index"):
                                root = peel_refs(root["e"])
                            if root.get("k") == "Path" and "local" in root:
                                muts.add(root["local"])
                    for mloc in muts:
                        deps.setdefault(mloc, set()).update(locals_in(x) - {mloc})

        def closure_of(ids):
            out, todo = set(), list(ids)
            while todo:
                x = todo.pop()
                if x in out:
                    continue
                out.add(x)
                todo.extend(deps.get(x, ()))
            return out
        cent = [f for f in lit["fields"] if f["name"] == "centroids"]
        if not cent:
            res.missing_anchor("field `centroids` of the KMeans literal")
            continue
        cent_src = closure_of(locals_in(cent[0]["e"])) & set(writes)
        accept = None
        for v in cent_src:
            gs = set(g for g, _ in writes[v])
            if len(gs) == 1 and list(gs)[0]:
                accept = list(gs)[0]
        if accept is None:
            res.undecided("%s : no-acceptance-guard" % key, "the returned centroids are not saved under a single acceptance guard inside the restart loop (fail closed)", fn_loc(fn))
            continue
        res.instance("%s : acceptance guard `%s` saves %s" % (key, accept[-1], sorted(names[v] for v in cent_src)))
        res.ok()
        for f in lit["fields"]:
            srcs = closure_of(locals_in(f["e"])) & set(writes)
            res.instance("%s : field %s <- loop state %s" % (key, f["name"], sorted(names[v] for v in srcs)))
            stale = []
            for v in srcs:
                unguarded = [ln for g, ln in writes[v] if g[:len(accept)] != accept]
                if unguarded:
                    stale.append((names[v], unguarded[0]))
            if stale:
                res.violate("%s : field-%s-from-%s" % (key, f["name"], ",".join(sorted(s[0] for s in stale))),
                            "field `%s` of the returned model is computed from `%s`, which every restart overwrites outside the acceptance guard `%s`: with n_runs > 1 it describes the last restart, not the returned centroids" % (
                                f["name"], ", ".join(s[0] for s in stale), accept[-1]), fn_loc(fn, stale[0][1]))
            else:
                res.ok()
                res.sample({"field": f["name"], "depends_on_loop_state": sorted(names[v] for v in srcs)})
    return res.finish(5)


def rule_fresh(ctx):
    res = RuleResult("R-C09-fresh", "the distances behind the reported inertia were computed from the centroid matrix that is saved, with no reassignment in between")
    F = ctx.facts()
    for fn in fit_fn(res, F):
        key = fn_key(fn)
        tr = Tracer(fn).run()
        # calls that fill a distance buffer from a centroid matrix: (&centroids, .., &mut dists)
        fills = []
        for e in tr.events:
            if e.kind != "call" or e.recv is not None or not e.node.get("args"):
                continue
            args = e.node["args"]
            cent = [a for a in args if peel_refs(a).get("k") == "Path" and "centroid" in (peel_refs(a).get("name") or "")]
            muts = [a for a in args if strip(a).get("k") == "Ref" and strip(a).get("mut") and peel_refs(a).get("k") == "Path"]
            if cent and muts and e.loops:
                fills.append((e, peel_refs(cent[0]), [peel_refs(m) for m in muts]))
        if not fills:
            res.missing_anchor("call that fills the distance buffer from the centroids in fit")
            continue
        # every later use of a filled buffer (sum -> inertia, memberships -> counts) must see the fill made
        # from the centroid matrix as it is when the use happens: no reassignment between last fill and use
        all_mut_ids = set(m["local"] for _, _, ms in fills for m in ms)
        uses = [b for b in tr.events if b.kind in ("break", "ret", "assign", "let") and (locals_in(b.node["init"] if b.kind == "let" else b.node) & all_mut_ids)]
        # ... and calls that read a buffer directly (`best_memberships.assign(&memberships)`, `compute_centroids(.., &memberships)`)
        fill_nodes = set(id(e.node) for e, _, _ in fills)
        for b in tr.events:
            if b.kind != "call" or id(b.node) in fill_nodes:
                continue
            direct = [a for a in ([b.node.get("recv")] if b.node.get("recv") is not None else []) + list(b.node.get("args", []))]
            if any(peel_refs(a).get("k") == "Path" and peel_refs(a).get("local") in all_mut_ids for a in direct):
                uses.append(b)
        for e, cent, muts in fills:
            res.instance("%s : %s(&%s, .., &mut %s)" % (key, e.name, cent["name"], ",".join(m["name"] for m in muts)))
        n_stale = 0
        for u in uses:
            if u.kind == "call":
                used = set(peel_refs(a).get("local") for a in ([u.node.get("recv")] if u.node.get("recv") is not None else []) + list(u.node.get("args", [])) if peel_refs(a).get("k") == "Path") & all_mut_ids
            else:
                used = locals_in(u.node["init"] if u.kind == "let" else u.node) & all_mut_ids
            prior = [(e, cent, muts) for e, cent, muts in fills if e.order < u.order and used & set(m["local"] for m in muts)]
            if not prior:
                continue
            # walk the fills backwards: a fill that is only executed under a condition the use does not share
            # leaves the earlier fill in effect on the other path
            ugs = set((g[0], g[1]) for g in u.guards)
            reassigned, e, cent, muts = [], None, None, None
            for cand in sorted(prior, key=lambda x: -x[0].order):
                e, cent, muts = cand
                reassigned = [a for a in tr.events if a.kind == "assign" and a.lhs == "local:%s" % cent["name"] and e.order < a.order < u.order]
                conditional = not set((g[0], g[1]) for g in e.guards) <= ugs
                if reassigned or not conditional:
                    break
            inst = "%s : use of %s at `%s`" % (key, ",".join(sorted(m["name"] for m in muts if m["local"] in used)), u.kind)
            res.instance(inst)
            if reassigned:
                n_stale += 1
                a = reassigned[0]
                res.violate("%s : stale-distances" % key,
                            "`%s` is filled from `%s`, then `%s` is reassigned (line %d) before the buffer is used for the run's result (line %d): the reported quantity belongs to the previous centroids" % (
                                ",".join(m["name"] for m in muts), cent["name"], cent["name"], a.node["ln"], u.node["ln"]), fn_loc(fn, u.node["ln"]))
            else:
                res.ok()
                res.sample({"use": inst, "verdict": "no reassignment of the centroids between the fill and the use"})
        seen, uniq = set(), []
        for v in res.violations:
            if v.key not in seen:
                seen.add(v.key)
                uniq.append(v)
        res.violations = uniq
    return res.finish(1)


def for_bodies(fn):
    """(for-loop node, user body) of every `for` loop of a function"""
    for m in walk(fn["body"]):
        if m.get("k") == "Match" and m.get("src") == "ForLoopDesugar":
            loop = next((x for x in walk(m["arms"][0]["body"]) if x.get("k") == "Loop"), None)
            if loop is None:
                continue
            inner = next((x for x in walk(loop["body"]) if x.get("k") == "Match" and len(x.get("arms", [])) == 2 and any(strip(a["body"]).get("k") == "Break" for a in x["arms"])), None)
            if inner is None:
                continue
            body = next((a["body"] for a in inner["arms"] if strip(a["body"]).get("k") != "Break"), None)
            if body is not None:
                yield m, body


def rule_init(ctx):
    """'exactly k finite centroids ... each inside the bounding box of the training data when initialised from it': an
    initialiser that allocates its result with placeholder content (zeros) and returns it whole must overwrite every row;
    a loop that fills the rows and can be left early returns placeholder rows as centroids."""
    res = RuleResult("R-C09-init", "an initialiser that returns a zero-allocated centroid matrix fills its rows in loops that cannot be left early")
    F = ctx.facts()
    fns = [f for f in F.all_fns() if f["d"]["krate"] == "linfa_clustering" and fn_file(f).endswith("k_means/init.rs")]
    n = 0
    for fn in fns:
        c = fn["crate"]
        tail = fn["body"]
        while strip(tail).get("k") == "Block" and strip(tail).get("e") is not None:
            tail = strip(tail)["e"]
        tail = peel_refs(tail)
        if tail.get("k") != "Path" or "local" not in tail:
            continue
        alloc = None
        for x in walk(fn["body"]):
            if x.get("k") == "LetStmt" and x.get("init") is not None and x["pat"].get("k") == "Bind" and x["pat"]["local"] == tail["local"]:
                ini = strip(x["init"])
                if ini.get("k") == "Call":
                    d = c.dfn(strip(ini["f"]).get("def")) if strip(ini["f"]).get("k") == "Path" else None
                    if d and d["krate"] == "ndarray" and d["name"] in ("zeros", "default", "ones", "from_elem", "uninit"):
                        alloc = x
        if alloc is None:
            continue
        key = fn_key(fn)
        for loop, body in for_bodies(fn):
            writes = [x for x in walk(body) if x.get("k") == "MethodCall" and x["name"] in ("assign", "fill", "row_mut", "index_axis_mut", "slice_mut") and (root_local_of(x["recv"]) == tail["local"])]
            if not writes:
                continue
            n += 1
            inst = "%s : loop filling `%s` (line %d)" % (key, tail.get("name"), loop.get("ln", 0))
            res.instance("%s : loop filling `%s`" % (key, tail.get("name")))
            exits = [x for x in walk(body) if x.get("k") in ("Break", "Ret")]
            # breaks that belong to loops nested inside the body leave only those
            nested = []
            for l2, b2 in for_bodies({"body": body}):
                nested += [id(x) for x in walk(b2) if x.get("k") == "Break" and not x.get("label")]
            exits = [x for x in exits if id(x) not in nested]
            if exits:
                res.violate("%s : early-exit-from-fill" % key, "the loop that fills the rows of the zero-allocated `%s` can be left early (line %d): the remaining rows stay zero and are returned as centroids (not data points, possibly outside the data's bounding box)" % (tail.get("name"), exits[0].get("ln", 0)), fn_loc(fn, exits[0].get("ln")))
            else:
                res.ok()
                res.sample({"site": inst})
    if n < 1:
        res.missing_anchor("row-filling loop of weighted_k_means_plusplus")
    return res.finish(1)


def root_local_of(n):
    while isinstance(n, dict):
        n = peel_refs(n)
        if n.get("k") == "Path":
            return n.get("local")
        if n.get("k") == "MethodCall":
            n = n["recv"]
        elif n.get("k") in ("Index", "Field"):
            n = n["e"]
        else:
            return None
    return None


rule_memorder = layout.make_rule("R-C09-memorder", "raw memory-order buffers (as_slice_memory_order, into_raw_vec, as_ptr) of observations, memberships and centroids are used by position only behind an is_standard_layout() test", lambda f: f["d"]["krate"] == "linfa_clustering" and "k_means" in fn_file(f), "linfa-clustering k_means")

def rule_incumbent(ctx):
    """best-of-n selection (restarts, initialisation candidates): the incumbent cost is updated together with the state it belongs to"""
    from . import extrema
    res = RuleResult("R-C09-incumbent", "a best-of-n loop that saves state when a candidate beats the incumbent also updates the incumbent (k-means)")
    F = ctx.facts()
    fns = [f for f in F.all_fns() if f["d"]["krate"] == "linfa_clustering" and "k_means" in fn_file(f)]
    n = 0
    for fn in fns:
        for s_ in extrema.incumbents(fn):
            n += 1
            key = fn_key(fn)
            res.instance("%s : incumbent `%s` (%s) guards the saving of %s" % (key, s_["best_name"], s_["evidence"], s_["saved"]))
            if s_["updated"]:
                res.ok()
            else:
                res.violate("%s : incumbent-not-updated:%s" % (key, s_["best_name"]), "`%s` is compared with every candidate and %s is saved when the candidate wins, but `%s` itself is never assigned in the loop: every candidate is compared with the first one, so a later, worse candidate replaces a better one saved before it" % (s_["best_name"], ", ".join(s_["saved"]), s_["best_name"]), fn_loc(fn, s_["node"]["ln"]))
    res.instance("%d functions of k-means scanned, %d best-of-n tests" % (len(fns), n))
    if fns:
        res.ok()
    else:
        res.missing_anchor("functions of k-means")
    return res.finish(1)


def rule_prefix(ctx):
    """A zero-allocated buffer that is filled row by row under a running counter holds data only in its first `counter`
    rows.  Whoever reads it goes through the prefix `slice(s![0..counter, ..])`; the whole buffer also contains the
    unfilled all-zero rows, which then take part as if they were observations (an initial centroid at the origin)."""
    from .layout import with_parents
    res = RuleResult("R-C09-prefix", "buffers of the k-means initialisers that are filled under a running counter are read only through the filled prefix")
    F = ctx.facts()
    n = 0
    scanned = 0
    for fn in F.all_fns():
        d = fn["d"]
        if d["krate"] != "linfa_clustering" or "k_means" not in d["path"] and "KMeans" not in (d.get("self_adt") or "") or fn.get("exp"):
            continue
        scanned += 1
        c = fn["crate"]
        r = Render(c)
        inits = {}
        for y in walk(fn["body"]):
            if y.get("k") == "LetStmt" and y.get("init") is not None and y["pat"].get("k") == "Bind":
                inits[y["pat"]["local"]] = (y, y["pat"]["name"])
        # (buffer, counter) pairs: `buf.row_mut(cnt)` / `buf[[cnt, ..]]` written and `cnt += 1`
        counters = set(peel_refs(y["l"]).get("local") for y in walk(fn["body"]) if y.get("k") == "AssignOp" and y["op"] == "+" and peel_refs(y["l"]).get("k") == "Path")
        pairs = set()
        for y in walk(fn["body"]):
            if y.get("k") == "MethodCall" and y["name"] in ("row_mut", "index_axis_mut") and y["args"]:
                b = peel_refs(y["recv"])
                a = peel_refs(y["args"][-1])
                if b.get("k") == "Path" and b.get("local") in inits and a.get("k") == "Path" and a.get("local") in counters:
                    i0 = inits[b["local"]][0]["init"]
                    if any(z.get("k") == "Call" and (c.dfn(strip(z["f"]).get("def")) or {}).get("name") in ("zeros", "default", "from_elem", "uninit") for z in walk(i0) if strip(z.get("f") or {}).get("k") == "Path"):
                        pairs.add((b["local"], a["local"]))
        for buf, cnt in sorted(pairs):
            n += 1
            key = fn_key(fn)
            res.instance("%s : buffer `%s` filled under counter `%s`" % (key, inits[buf][1], inits.get(cnt, (None, "?"))[1]))
            bad = None
            for y, anc in with_parents(fn["body"]):
                if y.get("k") != "Path" or y.get("local") != buf:
                    continue
                # climb through refs to the using node
                i = len(anc) - 1
                while i >= 0 and anc[i].get("k") in ("Ref",):
                    i -= 1
                par = anc[i] if i >= 0 else None
                if par is None:
                    continue
                if par.get("k") == "LetStmt":
                    continue
                if par.get("k") == "MethodCall" and peel_refs(par["recv"]) is y or (par.get("k") == "MethodCall" and peel_refs(par["recv"]).get("local") == buf and any(z is y for z in walk(par["recv"]))):
                    nm = par["name"]
                    if nm in ("row_mut", "index_axis_mut", "nrows", "ncols", "dim", "len_of", "raw_dim", "shape"):
                        continue
                    if nm in ("slice", "slice_mut", "slice_axis", "slice_axis_mut", "slice_move") and any(z.get("k") == "Path" and z.get("local") == cnt for a_ in par["args"] for z in walk(a_)):
                        continue
                    bad = (par, "`.%s(..)`" % nm)
                    break
                bad = (par, "a use as `%s`" % par.get("k"))
                break
            if bad:
                res.violate("%s : unfilled-rows-read:%s" % (key, inits[buf][1]), "`%s` is filled row by row under the counter `%s`, but it is read through %s, not through the filled prefix: the rows that were never filled (all zeros) take part as if they were data" % (inits[buf][1], inits.get(cnt, (None, "?"))[1], bad[1]), fn_loc(fn, bad[0].get("ln")))
            else:
                res.ok()
    res.instance("k-means functions scanned: %d" % scanned)
    res.ok()
    if n < 1:
        res.missing_anchor("a counter-filled buffer in the k-means initialisers (k_means_para's candidates)")
    return res.finish(2)


def rule_countindex(ctx):
    """cluster_count[c] is the number of training points whose membership *is c*: what indexes the counter is a membership
    value, never the position of a run in the sorted memberships (an empty cluster shifts every later count down)."""
    res = RuleResult("R-C09-countindex", "the per-cluster counts of KMeans::fit are indexed by membership values, not by enumeration positions")
    F = ctx.facts()
    fns = [f for f in kmeans_fns(F) if f["d"]["name"] == "fit" and (f["d"].get("self_adt") or "").endswith("KMeansValidParams")]
    if not fns:
        res.missing_anchor("<KMeansValidParams as Fit>::fit")
    for fn in fns:
        c = fn["crate"]
        r = Render(c)
        key = fn_key(fn)
        res.instance(key)
        positions = set()
        for y in walk(fn["body"]):
            pats = []
            if y.get("k") == "Closure":
                pats = y["params"]
            for p_ in pats:
                q = p_
                while q.get("k") == "Ref":
                    q = q["pat"]
                if q.get("k") == "Tuple" and len(q["pats"]) == 2:
                    # is this pattern fed by an `.enumerate()`?  (checked at the use site below: cheap over-approximation by name of the adaptor in the function)
                    positions |= {b["local"] for b in pat_bindings(q["pats"][0])}
        from .c17 import for_loops as _fl
        for it_, pat_, body_, node_ in _fl(fn["body"]):
            q = pat_
            while q.get("k") == "Ref":
                q = q["pat"]
            if q.get("k") == "Tuple" and len(q["pats"]) == 2 and any(z.get("k") == "MethodCall" and z["name"] == "enumerate" for z in walk(it_)):
                positions |= {b["local"] for b in pat_bindings(q["pats"][0])}
        has_enum = any(y.get("k") == "MethodCall" and y["name"] == "enumerate" for y in walk(fn["body"]))
        bad = None
        for y in walk(fn["body"]):
            if y.get("k") in ("Assign", "AssignOp"):
                l0 = peel_refs(y["l"])
                if l0.get("k") == "Index" and peel_refs(l0["e"]).get("name") == "cluster_count":
                    ix = peel_refs(l0["i"])
                    if has_enum and ix.get("k") == "Path" and ix.get("local") in positions:
                        bad = y
        if bad is not None:
            res.violate("%s : count-indexed-by-position" % key, "`%s`: the counter is indexed by the position of an item in an enumeration, not by a membership value - with an empty cluster the counts of all later clusters move down by one and no longer describe the returned centroids" % r.e(bad)[:50], fn_loc(fn, bad.get("ln")))
        else:
            res.ok()
    return res.finish(1)


def rule_fillall(ctx):
    """The assignment helpers write one entry per observation into a buffer they are handed; what the buffer held before is
    the caller's business (`predict_inplace` passes a caller-owned array).  A return before the write loop - a "single centroid,
    nothing to compute" shortcut that relies on the buffer being zeroed - leaves stale labels behind."""
    from .c17 import explicit_exits
    res = RuleResult("R-C09-fillall", "update_cluster_memberships / update_min_dists / update_memberships_and_dists have no return before their write loop")
    F = ctx.facts()
    fns = [f for f in kmeans_fns(F) if f["d"]["name"] in ("update_cluster_memberships", "update_min_dists", "update_memberships_and_dists")]
    if len(fns) < 3:
        res.missing_anchor("the three assignment helpers (found %d)" % len(fns))
    for fn in fns:
        key = fn_key(fn)
        res.instance(key)
        exits = [y for y in explicit_exits(fn["body"], fn["crate"]) if y.get("k") == "Ret"]
        if exits:
            res.violate("%s : output-left-unwritten" % key, "the helper returns before its write loop on some path: the caller's buffer keeps what it held (stale labels of an earlier model, say)", fn_loc(fn, exits[0].get("ln")))
        else:
            res.ok()
    return res.finish(3)


def rule_restartstate(ctx):
    """Every restart of `fit` is a fresh run: what a restart's iteration loop tests is set up inside the restart.  A flag
    declared before the restart loop, assigned only inside the iteration loop and never reset at the top of a restart is
    still raised when the next restart begins - which then runs no iteration and lets its raw initial centroids compete."""
    from .c17 import for_loops
    res = RuleResult("R-C09-restartstate", "no local declared before the restart loop of KMeans::fit is assigned only inside the inner iteration loop (state that survives into the next restart)")
    F = ctx.facts()
    fns = [f for f in kmeans_fns(F) if f["d"]["name"] == "fit" and (f["d"].get("self_adt") or "").endswith("KMeansValidParams")]
    if not fns:
        res.missing_anchor("<KMeansValidParams as Fit>::fit")
    for fn in fns:
        c = fn["crate"]
        key = fn_key(fn)
        outer = [(it, pat, body, node) for it, pat, body, node in for_loops(fn["body"]) if any(y.get("k") == "Loop" for y in walk(body))]
        if not outer:
            res.instance("%s : restart loop" % key)
            res.undecided("%s : restart-loop" % key, "no `for` loop with an inner iteration loop (fail closed)", fn_loc(fn))
            continue
        it, pat, body, node = outer[0]
        res.instance("%s : restart loop at line %s" % (key, node.get("ln")))
        declared_in = set()
        for y in walk(body):
            if y.get("k") in ("LetStmt", "Let"):
                declared_in |= {b["local"] for b in pat_bindings(y["pat"])}
        inner_loops = [y for y in walk(body) if y.get("k") == "Loop"]
        inner_ids = set()
        for lp in inner_loops:
            for z in walk(lp):
                inner_ids.add(id(z))
        stale = None
        for y in walk(body):
            if y.get("k") == "Assign" and id(y) in inner_ids:
                l0 = peel_refs(y["l"])
                if l0.get("k") == "Path" and "local" in l0 and l0["local"] not in declared_in:
                    loc = l0["local"]
                    elsewhere = [z for z in walk(body) if z.get("k") in ("Assign", "AssignOp") and id(z) not in inner_ids and peel_refs(z["l"]).get("local") == loc]
                    read_inner = any(z.get("k") == "Path" and z.get("local") == loc and id(z) in inner_ids and z is not l0 for lp in inner_loops for z in walk(lp))
                    if not elsewhere and read_inner:
                        stale = (y, l0.get("name"))
        if stale:
            res.violate("%s : state-survives-restart:%s" % (key, stale[1]), "`%s` is declared before the restart loop, assigned only inside the iteration loop (`%s`) and tested there: once raised it stays raised for every later restart, whose iteration loop then never runs" % (stale[1], Render(c).e(stale[0])[:40]), fn_loc(fn, stale[0].get("ln")))
        else:
            res.ok()
    return res.finish(1)


def rule_initdispatch(ctx):
    """`KMeansInit::run` dispatches on the initialiser the caller chose: the arm of a variant calls that variant's routine.
    (K-means|| seeds one generator per rayon job and is exempt from the determinism claim - an arm of another variant that
    hands over to it under some condition carries the exemption into the default configuration.)"""
    res = RuleResult("R-C09-initdispatch", "every arm of KMeansInit::run calls the initialisation routine of its own variant")
    F = ctx.facts()
    fns = [f for f in F.all_fns() if f["d"]["krate"] == "linfa_clustering" and f["d"]["name"] == "run" and (f["d"].get("self_adt") or "").endswith("KMeansInit")]
    if not fns:
        res.missing_anchor("KMeansInit::run")
    norm = lambda s_: s_.replace("_", "").lower()
    for fn in fns:
        c = fn["crate"]
        key = fn_key(fn)
        m = next((y for y in walk(fn["body"]) if y.get("k") == "Match" and y.get("src", "Normal") == "Normal"), None)
        if m is None:
            res.instance("%s : dispatcher" % key)
            res.undecided("%s : dispatcher" % key, "no match over the initialiser (fail closed)", fn_loc(fn))
            continue
        variants = []
        for a in m["arms"]:
            p_ = a["pat"]
            while p_.get("k") == "Ref":
                p_ = p_["pat"]
            v = (c.dfn(p_.get("def")) or {}).get("name") if p_.get("k") in ("Path", "TupleStruct", "Struct") else None
            variants.append(v)
        names = [v for v in variants if v]
        for a, v in zip(m["arms"], variants):
            if not v:
                continue
            called = []
            for y in walk(a["body"]):
                if y.get("k") == "Call" and strip(y["f"]).get("k") == "Path":
                    d = c.dfn(strip(y["f"]).get("def")) or {}
                    if d.get("krate") == "linfa_clustering" and d.get("name"):
                        called.append(d["name"])
            if not called:
                continue
            res.instance("%s : arm %s calls %s" % (key, v, called))
            other = [g for g in called for w in names if w != v and norm(g).startswith(norm(w)) and not norm(g).startswith(norm(v))]
            if other:
                res.violate("%s : arm-calls-sibling-routine:%s" % (key, v), "the `%s` arm calls `%s`, the routine of another initialiser: choosing one initialiser silently runs another (and k-means||, which is not reproducible across thread pools, can reach the default configuration this way)" % (v, other[0]), fn_loc(fn, a["body"].get("ln")))
            else:
                res.ok()
    return res.finish(3)


def _blockmean_rule():
    from . import blockmean
    return blockmean.make_rule("R-C09-blockmean", lambda f: f["d"]["krate"] == "linfa_clustering" and "k_means" in f["d"]["path"], "the k-means centroid updates")


def rules(tier):
    from . import carry, c04
    from . import precision
    from . import intnarrow
    return [intnarrow.make_rule("R-C09-narrow", lambda f: f["d"]["krate"] == "linfa_clustering" and "k_means" in f["d"]["path"] + " " + fn_file(f), "linfa-clustering k_means"),
            rule_countindex, rule_fillall, rule_restartstate, rule_initdispatch, _blockmean_rule(), rule_argmin, rule_best, rule_fresh, rule_init, rule_memorder, rule_incumbent, c07.rule_degree, rule_scanexit, rule_counts,
            carry.make_clone_rule("R-C09-clone", {"linfa_clustering"}, 10), carry.make_setter_rule("R-C09-override", {"linfa_clustering"}, 10), c04.make_carry_rule("R-C09-carry", {"KMeansParams"}, 4),
            precision.make_rule("R-C09-precision", lambda f: f["d"]["krate"] == "linfa_clustering" and any(x in f["d"]["path"] + " " + (f["d"].get("self_adt") or "") for x in ("k_means", "KMeans")), 30, "linfa-clustering k_means"),
            carry.make_accessor_rule("R-C09-accessor", {"linfa_clustering"}, 10), carry.make_ctor_rule("R-C09-ctor", {"linfa_clustering"}, 4), rule_prefix]
