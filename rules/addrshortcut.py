"""Two views that start at the same address are not the same values.

`std::ptr::eq(a.as_ptr(), b.as_ptr())` compares where the first element lives.  A row and a column of one matrix, a
view and a strided or shorter view of it, all start at the same place: a shortcut that replaces a computed value
(`distance = 0`, `skip this point`) on address identity alone is right for the calls the tests make - a batch queried
with its own rows - and wrong for every other pair of views that happen to share their first element.

Positive evidence: an `if` (or match guard) whose condition compares `as_ptr()` / `as_mut_ptr()` results and does not
also compare strides and lengths (then: undecided, fail closed - whether those are the right ones is not decided here)."""
from .core import RuleResult
from .facts import fn_key, fn_loc, walk, strip, peel_refs, Render


def make_rule(rid, select, what):
    def rule(ctx):
        res = RuleResult(rid, "no value is replaced by a shortcut keyed on the address of a view alone in %s" % what)
        F = ctx.facts()
        n_fns = n_sites = 0
        for fn in F.all_fns():
            if not select(fn) or fn.get("exp") or "tests" in fn["d"]["path"]:
                continue
            n_fns += 1
            c = fn["crate"]
            r = Render(c)
            key = fn_key(fn)
            conds = []
            for y in walk(fn["body"]):
                if y.get("k") == "If":
                    conds.append(y["c"])
                if y.get("k") == "Match":
                    conds += [a["guard"] for a in y["arms"] if a.get("guard") is not None]
            for cnd in conds:
                ptrs = [z for z in walk(cnd) if z.get("k") == "MethodCall" and z["name"] in ("as_ptr", "as_mut_ptr")]
                if len(ptrs) < 2:
                    continue
                cmp_ = any((z.get("k") == "Binary" and z["op"] in ("==", "!=")) or (z.get("k") == "Call" and (c.dfn(strip(z["f"]).get("def")) or {}).get("name") in ("eq", "addr_eq")) for z in walk(cnd))
                if not cmp_:
                    continue
                n_sites += 1
                inst = "%s : address comparison (line %s)" % (key, cnd.get("ln"))
                res.instance(inst)
                names = {z["name"] for z in walk(cnd) if z.get("k") == "MethodCall"}
                if "strides" in names and (names & {"len", "shape", "dim", "raw_dim", "len_of"}):
                    res.undecided("%s : address-shortcut" % key, "`%s`: address, strides and extent are compared (fail closed: whether that makes the two views the same values is not decided here)" % r.e(cnd)[:60], fn_loc(fn, cnd.get("ln")))
                else:
                    res.violate("%s : shortcut-keyed-on-address" % key, "`%s`: two views that start at the same element need not hold the same values (a row and a column of one matrix, a view and a strided or shorter view of it): the shortcut replaces the computed value for all of them" % r.e(cnd)[:60], fn_loc(fn, cnd.get("ln")))
        res.instance("%d functions scanned, %d address comparisons" % (n_fns, n_sites))
        if n_fns:
            res.ok()
        else:
            res.missing_anchor("functions of %s" % what)
        return res.finish(1)
    rule.__name__ = "rule_" + rid.replace("-", "_")
    return rule
