"""E-I: path-enumerating influence (data-dependence) analysis over one typed-HIR function body.

For every path through the function (forking at if/else and match arms, loops merged) it computes the set of
*sources* the returned value is computed from: `param:<name>`, `self.<field>`, `call:<name>`. Mutation through
`&mut` receivers (`grad.slice_mut(..).assign(&v)`, `x += y`, `a[i] = v`) adds the sources of the arguments to the
mutated local. The analysis over-approximates dependence per path (no kill on partial writes), so
"source S does not influence the result on path P" is a sound report: nothing on that path mentions S.
"""
from .facts import children, pat_bindings, strip

MUTATORS = {"assign", "fill", "zip_mut_with", "scaled_add", "mapv_inplace", "map_inplace", "par_mapv_inplace", "add_assign", "sub_assign",
            "mul_assign", "div_assign", "push", "insert", "extend", "swap", "append", "clone_from", "copy_from_slice", "set", "sort_by", "sort_unstable_by"}
MAX_PATHS = 48


def root_local(n):
    """local at the root of a place / receiver chain"""
    while isinstance(n, dict):
        n = strip(n)
        kk = n.get("k")
        if kk == "Path":
            return n if "local" in n else None
        if kk in ("Ref", "Unary", "Cast", "Field"):
            n = n["e"]
        elif kk == "Index":
            n = n["e"]
        elif kk == "MethodCall":
            n = n["recv"]
        else:
            return None
    return None


class Influence:
    def __init__(self, fn, mutators=MUTATORS, control=False):
        self.fn = fn
        self.c = fn["crate"]
        self.mutators = mutators
        self.control = control
        self.returns = []      # (sources, node, path-description)
        self.self_local = None
        self.env0 = {}
        for i, p in enumerate(fn["params"]):
            for b in pat_bindings(p):
                self.env0[b["local"]] = frozenset(["param:" + b["name"]])
                if b["name"] == "self":
                    self.self_local = b["local"]

    # ---- driver
    def run(self):
        for env, d, path in self.ev(self.fn["body"], dict(self.env0), ()):
            self.returns.append((d, None, path))
        return self

    def cap(self, states):
        if len(states) <= MAX_PATHS:
            return states
        env = {}
        ds = frozenset()
        for e, d, p in states:
            for kk, v in e.items():
                env[kk] = env.get(kk, frozenset()) | v
            ds = ds | d
        return [(env, ds, states[0][2] + ("<merged>",))]

    def seq(self, nodes, env, path):
        """evaluate nodes in order; returns list of (env, [sources per node], path)"""
        results = [(env, [], path)]
        for ch in nodes:
            new = []
            for e, ds, p in results:
                for e2, d, p2 in self.ev(ch, e, p):
                    new.append((e2, ds + [d], p2))
            if len(new) > MAX_PATHS:
                merged_env, merged = {}, None
                for e, ds, p in new:
                    for kk, v in e.items():
                        merged_env[kk] = merged_env.get(kk, frozenset()) | v
                    merged = ds if merged is None else [a | b for a, b in zip(merged, ds)]
                new = [(merged_env, merged, new[0][2] + ("<merged>",))]
            results = new
        return results

    def union(self, ds):
        out = frozenset()
        for d in ds:
            out = out | d
        return out

    def bind(self, pat, d, env):
        for b in pat_bindings(pat):
            env[b["local"]] = d

    def taint_root(self, place, d, env, replace=False):
        r = root_local(place)
        if r is not None:
            env[r["local"]] = d if replace else (env.get(r["local"], frozenset()) | d)

    # ---- evaluation: returns list of (env, sources, path)
    def ev(self, n, env, path):
        if not isinstance(n, dict):
            return [(env, frozenset(), path)]
        kk = n.get("k")
        m = getattr(self, "ev_" + kk, None) if kk else None
        if m is not None:
            return m(n, env, path)
        out = []
        for e, ds, p in self.seq(list(children(n)), env, path):
            out.append((e, self.union(ds), p))
        return out

    def ev_Lit(self, n, env, path):
        return [(env, frozenset(), path)]

    def ev_Path(self, n, env, path):
        if "local" in n:
            return [(env, env.get(n["local"], frozenset(["local:" + (n.get("name") or "?")])), path)]
        return [(env, frozenset(), path)]

    def ev_Field(self, n, env, path):
        b = strip(n["e"])
        if b.get("k") == "Path" and b.get("local") == self.self_local and self.self_local is not None:
            return [(env, frozenset(["self." + n["name"]]), path)]
        return self.ev(n["e"], env, path)

    def ev_Block(self, n, env, path):
        nodes = list(n["stmts"]) + ([n["e"]] if n.get("e") else [])
        out = []
        for e, ds, p in self.seq(nodes, env, path):
            out.append((e, ds[-1] if (n.get("e") and ds) else frozenset(), p))
        return out

    def ev_Semi(self, n, env, path):
        return [(e, frozenset(), p) for e, d, p in self.ev(n["e"], env, path)]

    def ev_LetStmt(self, n, env, path):
        if n.get("init") is None:
            return [(env, frozenset(), path)]
        out = []
        for e, d, p in self.ev(n["init"], env, path):
            e = dict(e)
            self.bind(n["pat"], d, e)
            out.append((e, frozenset(), p))
        return out

    def ev_Let(self, n, env, path):
        out = []
        for e, d, p in self.ev(n["init"], env, path):
            e = dict(e)
            self.bind(n["pat"], d, e)
            out.append((e, d, p))
        return out

    def ev_Assign(self, n, env, path):
        out = []
        for e, d, p in self.ev(n["r"], env, path):
            e = dict(e)
            tgt = strip(n["l"])
            whole = tgt.get("k") == "Path"
            extra = frozenset()
            if not whole:
                # index expressions of the place also influence which cell is written; keep them out of the value
                pass
            self.taint_root(tgt, d | extra, e, replace=whole)
            out.append((e, frozenset(), p))
        return out

    def ev_AssignOp(self, n, env, path):
        out = []
        for e, d, p in self.ev(n["r"], env, path):
            e = dict(e)
            self.taint_root(n["l"], d, e)
            out.append((e, frozenset(), p))
        return out

    def ev_If(self, n, env, path):
        out = []
        for e, dc, p in self.ev(n["c"], env, path):
            ctl = dc if self.control else frozenset()
            ln = n.get("ln")
            for e2, d, p2 in self.ev(n["then"], dict(e), p + ("if@%s:then" % ln,)):
                out.append((e2, d | ctl, p2))
            if n.get("else"):
                for e2, d, p2 in self.ev(n["else"], dict(e), p + ("if@%s:else" % ln,)):
                    out.append((e2, d | ctl, p2))
            else:
                out.append((dict(e), frozenset(), p + ("if@%s:skip" % ln,)))
        return self.cap(out)

    def ev_Match(self, n, env, path):
        out = []
        if n.get("src") == "TryDesugar":
            return self.ev(n["scrut"], env, path)
        for e, ds, p in self.ev(n["scrut"], env, path):
            for i, a in enumerate(n["arms"]):
                e2 = dict(e)
                self.bind(a["pat"], ds, e2)
                sub = p if len(n["arms"]) == 1 else p + ("match@%s:arm%d" % (n.get("ln"), i),)
                for e3, d, p3 in self.ev(a["body"], e2, sub):
                    out.append((e3, d, p3))
        return self.cap(out)

    def ev_Loop(self, n, env, path):
        # two rounds, all paths merged: loop-carried dependences reach a fixpoint for the shapes met here
        e = dict(env)
        for _ in range(2):
            merged = dict(e)
            for e2, d, p in self.ev(n["body"], dict(e), path):
                for kk, v in e2.items():
                    merged[kk] = merged.get(kk, frozenset()) | v
            e = merged
        return [(e, frozenset(), path)]

    def ev_Closure(self, n, env, path):
        e = dict(env)
        for p_ in n["params"]:
            self.bind(p_, frozenset(), e)
        ds = frozenset()
        for e2, d, p in self.ev(n["body"], e, path):
            ds = ds | d
            # mutations of captured locals inside the closure are kept
            for kk, v in e2.items():
                if kk in env:
                    env[kk] = env.get(kk, frozenset()) | v
        return [(env, ds, path)]

    def ev_Ret(self, n, env, path):
        if n.get("e"):
            for e, d, p in self.ev(n["e"], env, path):
                self.returns.append((d, n, p + ("return@%s" % n.get("ln"),)))
        else:
            self.returns.append((frozenset(), n, path))
        return []

    def ev_Break(self, n, env, path):
        return [(env, frozenset(), path)]

    def ev_Continue(self, n, env, path):
        return [(env, frozenset(), path)]

    def _callname(self, n):
        f = strip(n["f"])
        d = self.c.dfn(f.get("def")) if f.get("k") == "Path" else None
        return d["name"] if d else None

    def ev_Call(self, n, env, path):
        out = []
        nm = self._callname(n)
        for e, ds, p in self.seq([n["f"]] + list(n["args"]), env, path):
            d = self.union(ds)
            if nm and nm not in ("Some", "Ok", "Err", "from", "into", "branch", "from_residual", "from_output", "new", "cast", "into_iter", "next"):
                d = d | frozenset(["call:" + nm])
            out.append((e, d, p))
        return out

    def _self_summary(self, n, depth=0):
        """`self.helper(..)` with a helper of the same crate: the fields of self that reach every value-carrying return of
        the helper (the intersection over its paths: a field is reported only if no path of the helper drops it)"""
        r = strip(n["recv"])
        while r.get("k") in ("Ref", "Unary"):
            r = strip(r["e"])
        if self.self_local is None or r.get("k") != "Path" or r.get("local") != self.self_local or getattr(self, "_depth", 0) >= 3:
            return frozenset()
        g = None
        for di in (n.get("inst"), n.get("def")):
            if di is None:
                continue
            d = self.c.dfn(di)
            if d is None or d.get("krate") != self.c.name:
                continue
            g = next((h for h in self.c.fns if h["def"] == di), None)
            if g is not None:
                break
        if g is None or g is self.fn or g.get("body") is None:
            return frozenset()
        sub = Influence(g, self.mutators, self.control)
        sub._depth = getattr(self, "_depth", 0) + 1
        sub.run()
        rets = [r_[0] for r_ in sub.returns if not (r_[0] and all(x.startswith("call:Err") for x in r_[0]))]
        if not rets:
            return frozenset()
        common = None
        for r_ in rets:
            fields = frozenset(x for x in r_ if x.startswith("self."))
            common = fields if common is None else (common & fields)
        return common or frozenset()

    def ev_MethodCall(self, n, env, path):
        out = []
        at = self.c.ty(n["recv"].get("at")) if n["recv"].get("at") is not None else ""
        mut = n["name"] in self.mutators or (at or "").startswith("&mut ")
        via_self = self._self_summary(n)
        for e, ds, p in self.seq([n["recv"]] + list(n["args"]), env, path):
            d = self.union(ds) | frozenset(["call:" + n["name"]]) | via_self
            if mut and n["args"]:
                e = dict(e)
                self.taint_root(n["recv"], self.union(ds[1:]), e)
            out.append((e, d, p))
        return out
