"""R-LSE (shared by C10 and C12): log-sum-exp / soft-max must be computed in shifted form.

A function that exponentiates and sums (`ln(sum(exp(v)))` or `exp(v)/sum(exp(v))`) must exponentiate
`v - max(v)`: otherwise every exponential underflows for inputs far from all components / with large
scores, the sum is 0 and the result is -inf / NaN / inf."""
from .facts import walk, strip, peel_refs, pat_bindings, fn_key, fn_loc, Render
from .taint import parent_map

SUMS = {"sum", "sum_axis", "fold_axis", "fold", "reduce", "product"}


ASSIGNED = {}    # id(fn body) -> {local: [right-hand sides assigned to it after its declaration]}


def let_inits(fn):
    m = {}
    later = {}
    for n in walk(fn["body"]):
        if n.get("k") == "LetStmt" and n.get("init") is not None:
            bs = list(pat_bindings(n["pat"]))
            for b in bs:
                m[b["local"]] = n["init"]
        elif n.get("k") == "Assign":
            t = peel_refs(n["l"])
            if t.get("k") == "Path" and "local" in t:
                later.setdefault(t["local"], []).append(n["r"])
    ASSIGNED[id(m)] = later
    return m


def _has_max_call(c, n):
    for y in walk(n):
        if y.get("k") == "MethodCall" and y["name"] == "max":
            return True
        if y.get("k") == "Path" and "def" in y and (c.dfn(y["def"]) or {}).get("name") == "max":
            return True
    return False


def is_max_derived(c, n, inits, depth=0):
    """expression (through let bindings) that is a max-reduction"""
    if depth > 4 or n is None:
        return False
    for x in walk(n):
        if x.get("k") == "MethodCall" and x["name"] in ("max", "fold_axis", "map_axis", "reduce", "fold") :
            if x["name"] == "max":
                return True
            # reduce(F::max) / fold(.., max) / fold_axis(.., |a, b| a.max(b))
            for a in x["args"]:
                for y in walk(a):
                    if (y.get("k") == "MethodCall" and y["name"] == "max") or (y.get("k") == "Path" and "def" in y and (c.dfn(y["def"]) or {}).get("name") == "max"):
                        return True
        if x.get("k") == "Path" and "local" in x and x["local"] in inits and x is not n:
            if is_max_derived(c, inits[x["local"]], inits, depth + 1):
                return True
    n0 = peel_refs(n)
    if n0.get("k") == "Path" and "local" in n0:
        # a running maximum kept in a local: `max = F::max(max, x)` / `if x > max { max = x }` inside a loop
        for rhs in ASSIGNED.get(id(inits), {}).get(n0["local"], []):
            if _has_max_call(c, rhs) and any(y.get("k") == "Path" and y.get("local") == n0["local"] for y in walk(rhs)):
                return True
    if n0.get("k") == "Path" and n0.get("local") in inits:
        return is_max_derived(c, inits[n0["local"]], inits, depth + 1)
    return False


def max_kind(c, n, inits, depth=0):
    """'axis' when the max is an axis reduction (one shift per row), 'global2d' when it runs over all elements of a
    two-dimensional array (one shift for the whole batch), 'vector' for the max of a one-dimensional value, else None"""
    if depth > 4 or n is None:
        return None
    for x in walk(n):
        if x.get("k") != "MethodCall":
            continue
        is_max = x["name"] == "max" and not x["args"]
        if x["name"] in ("fold_axis", "map_axis", "reduce", "fold", "max_axis"):
            for a in x["args"]:
                for y in walk(a):
                    if (y.get("k") == "MethodCall" and y["name"] == "max") or (y.get("k") == "Path" and "def" in y and (c.dfn(y["def"]) or {}).get("name") == "max"):
                        is_max = True
        if not is_max:
            continue
        if x["name"] in ("fold_axis", "map_axis", "max_axis"):
            return "axis"
        base = x["recv"]
        while True:
            b = peel_refs(base)
            if b.get("k") == "MethodCall" and b["name"] in ("iter", "copied", "cloned", "into_iter", "view", "to_owned", "iter_mut"):
                base = b["recv"]
                continue
            break
        b = peel_refs(base)
        if b.get("k") == "Path" and b.get("local") in inits and "Dim<" not in (c.ty(b.get("t")) or ""):
            return max_kind(c, inits[b["local"]], inits, depth + 1)
        ty = c.ty(b.get("at", b.get("t"))) or c.ty(b.get("t")) or ""
        if "Dim<[usize; 2]>" in ty:
            return "global2d"
        if "Dim<[usize; 1]>" in ty:
            return "vector"
        return None
    n0 = peel_refs(n)
    if n0.get("k") == "Path" and n0.get("local") in inits:
        return max_kind(c, inits[n0["local"]], inits, depth + 1)
    for x in walk(n):
        if x.get("k") == "Path" and x.get("local") in inits and x is not n:
            kd = max_kind(c, inits[x["local"]], inits, depth + 1)
            if kd:
                return kd
    return None


def shift_operand(c, arg, inits, pm, closure_ctx):
    """the `max` operand of the shifted argument (or None)"""
    a = peel_refs(arg) if arg is not None else None
    if a is None:
        return None
    if a.get("k") == "Binary" and a["op"] == "-":
        return a["r"]
    if a.get("k") == "Path" and "local" in a:
        if a["local"] in inits:
            return shift_operand(c, inits[a["local"]], inits, pm, closure_ctx)
        clo = closure_ctx.get(a["local"])
        if clo is not None:
            call = pm.get(id(clo))
            if call is not None and call.get("k") == "MethodCall":
                recv = peel_refs(call["recv"])
                if recv.get("k") == "Path" and recv.get("local") in inits:
                    recv = peel_refs(inits[recv["local"]])
                if recv.get("k") == "Binary" and recv["op"] == "-":
                    return recv["r"]
    return None


def is_shifted(c, arg, inits, pm, closure_ctx):
    """arg of exp is `e - max`, or a closure parameter of a map over an array that is `a - max`"""
    a = peel_refs(arg)
    if a.get("k") == "Binary" and a["op"] == "-":
        return is_max_derived(c, a["r"], inits)
    if a.get("k") == "Path" and "local" in a:
        if a["local"] in inits:
            return is_shifted(c, inits[a["local"]], inits, pm, closure_ctx)
        # closure parameter: look at the array the closure is mapped over
        clo = closure_ctx.get(a["local"])
        if clo is not None:
            call = pm.get(id(clo))
            if call is not None and call.get("k") == "MethodCall" and call["name"] in ("mapv", "map", "mapv_inplace", "mapv_into", "map_inplace", "fold_axis", "fold", "map_axis", "for_each"):
                recv = peel_refs(call["recv"])
                if recv.get("k") == "Path" and recv.get("local") in inits:
                    recv = peel_refs(inits[recv["local"]])
                if recv.get("k") == "Binary" and recv["op"] == "-":
                    return is_max_derived(c, recv["r"], inits)
                # the array was shifted in place beforehand: `row.mapv_inplace(|x| x - max); .. row.mapv(|x| x.exp())`
                if recv.get("k") == "Path" and "local" in recv and _shifted_in_place(c, recv["local"], call, inits, pm):
                    return True
    return False


def _shifted_in_place(c, local, before, inits, pm):
    """an earlier statement of an enclosing block subtracts a maximum from the array bound to `local`, in place"""
    node = before
    while node is not None:
        par = pm.get(id(node))
        if par is not None and par.get("k") == "Block":
            for st in par.get("stmts", []):
                if st is node or any(z is node for z in walk(st)):
                    break
                e = st.get("e") if st.get("k") in ("ExprStmt", "Semi") else st
                if not isinstance(e, dict):
                    continue
                e = peel_refs(e)
                if e.get("k") == "MethodCall" and e["name"] in ("mapv_inplace", "map_inplace") and e.get("args"):
                    r = peel_refs(e["recv"])
                    clo = peel_refs(e["args"][0])
                    if r.get("k") == "Path" and r.get("local") == local and clo.get("k") == "Closure":
                        body = clo["body"]
                        while body.get("k") == "Block" and not body.get("stmts") and body.get("e") is not None:
                            body = body["e"]
                        body = peel_refs(body)
                        if body.get("k") == "Binary" and body["op"] == "-" and is_max_derived(c, body["r"], inits):
                            return True
                if e.get("k") == "AssignOp" and e["op"] == "-":
                    l = peel_refs(e["l"])
                    if l.get("k") == "Path" and l.get("local") == local and is_max_derived(c, e["r"], inits):
                        return True
        node = par
    return False


def check_fn(fn):
    """Returns list of (node, shifted: bool) for exp sites in a function that also sums and takes ln / divides."""
    c = fn["crate"]
    exps, has_sum, has_ln_or_div = [], False, False
    axis_sum = False
    closure_ctx = {}
    for n in walk(fn["body"]):
        k = n.get("k")
        if k == "Closure":
            for p in n["params"]:
                for b in pat_bindings(p):
                    closure_ctx[b["local"]] = n
        if k == "MethodCall":
            if n["name"] == "exp":
                exps.append((n, n["recv"]))
            elif n["name"] in SUMS:
                has_sum = True
                if n["name"] in ("sum_axis", "fold_axis"):
                    axis_sum = True
            elif n["name"] in ("ln", "log", "ln_1p"):
                has_ln_or_div = True
        elif k == "Path" and "def" in n:
            d = c.dfn(n["def"])
            if d and d["name"] == "exp" and d["kind"] in ("AssocFn", "Fn"):
                exps.append((n, None))
            if d and d["name"] in ("ln", "log"):
                has_ln_or_div = True
        elif k in ("Binary", "AssignOp") and n["op"] == "/":
            has_ln_or_div = True
    if not (exps and has_sum and has_ln_or_div):
        return []
    inits = let_inits(fn)
    pm = parent_map(fn["body"])
    out = []
    for node, arg in exps:
        if arg is None:
            # `mapv(F::exp)`: shifted iff the mapped array is shifted
            par = pm.get(id(node))
            ok = False
            if par is not None and par.get("k") == "MethodCall":
                recv = peel_refs(par["recv"])
                if recv.get("k") == "Path" and recv.get("local") in inits:
                    recv = peel_refs(inits[recv["local"]])
                ok = recv.get("k") == "Binary" and recv["op"] == "-" and is_max_derived(c, recv["r"], inits)
            out.append((node, ok, None))
        else:
            ok = is_shifted(c, arg, inits, pm, closure_ctx)
            kind = None
            if ok and axis_sum:
                op = shift_operand(c, arg, inits, pm, closure_ctx)
                kind = max_kind(c, op, inits) if op is not None else None
            out.append((node, ok, kind))
    return out


def run(res, F, scope, floor_note=""):
    """scope: predicate on fn. Adds instances / violations to res."""
    for fn in F.all_fns():
        if not scope(fn):
            continue
        sites = check_fn(fn)
        key = fn_key(fn)
        for i, (node, ok, kind) in enumerate(sites):
            inst = "%s : exp #%d inside a sum with ln/division" % (key, i)
            res.instance(inst)
            if ok and kind == "global2d":
                res.violate("%s : global-shift" % key,
                            "the exponentials are summed per row but shifted by one maximum taken over the whole matrix: a row far below that maximum underflows entirely (its sum is 0 or a floor value), so its log-sum-exp is wrong or not finite and depends on the other rows", fn_loc(fn, node.get("ln")))
            elif ok:
                res.ok()
                res.sample({"site": inst, "form": "exp(v - max)"})
            else:
                res.violate("%s : unshifted-exp" % key,
                            "exp is applied to an unshifted argument inside a log-sum-exp / soft-max: for inputs far from every component (or large scores) all exponentials underflow, the sum is 0 and the result is not finite", fn_loc(fn, node.get("ln")))
    # de-duplicate per function
    seen, uniq = set(), []
    for v in res.violations:
        if v.key not in seen:
            seen.add(v.key)
            uniq.append(v)
    res.violations = uniq


# ---------------------------------------------------------------------------------------------------------
# exp-ratio rule: `exp(x) / (.. exp(x) ..)` is inf/inf = NaN once exp overflows (x > ~709 in f64, ~88 in f32) unless the
# division sits under a test of the sign of x (the stable two-branch sigmoid) or the argument is shifted by a maximum.
def exp_ratio_sites(fn):
    """yields (division node, ok: bool, why) for every division whose numerator and denominator both depend on an exp"""
    c = fn["crate"]
    inits = let_inits(fn)
    pm = parent_map(fn["body"])

    exp_nodes = {}

    def under_test_of(node, locs):
        cur = node
        while id(cur) in pm:
            par = pm[id(cur)]
            if par.get("k") == "If":
                cl = set(x.get("local") for x in walk(par["c"]) if x.get("k") == "Path" and "local" in x)
                if cl & locs:
                    return True
            cur = par
        return False

    def exp_args(n, depth=0, seen=None):
        """arguments of the exp calls the expression depends on (through let bindings)"""
        seen = seen if seen is not None else set()
        out = []
        if depth > 4 or n is None:
            return out
        for x in walk(n):
            if x.get("k") == "MethodCall" and x["name"] == "exp":
                out.append(x["recv"])
                exp_nodes[id(x["recv"])] = x
            elif x.get("k") == "Path" and x.get("local") in inits and x["local"] not in seen:
                seen.add(x["local"])
                out += exp_args(inits[x["local"]], depth + 1, seen)
        return out
    for n in walk(fn["body"]):
        if n.get("k") != "Binary" or n["op"] != "/":
            continue
        na, da = exp_args(n["l"]), exp_args(n["r"])
        if not na or not da:
            continue
        # locals the exp arguments are computed from
        arg_locals = set(x.get("local") for a in na + da for x in walk(a) if x.get("k") == "Path" and "local" in x)
        shifted = all(peel_refs(a).get("k") == "Binary" and peel_refs(a)["op"] == "-" and is_max_derived(c, peel_refs(a)["r"], inits) for a in na + da)
        guarded = False
        cur = n
        while id(cur) in pm:
            par = pm[id(cur)]
            if par.get("k") == "If":
                cl = set(x.get("local") for x in walk(par["c"]) if x.get("k") == "Path" and "local" in x)
                if cl & arg_locals:
                    guarded = True
            cur = par
        if not guarded:
            # `let (num, e) = if f >= 0 { let t = (-f).exp(); (t, t) } else { (1, f.exp()) }; num / (1 + e)`: every exponential
            # the quotient depends on is itself evaluated under a test of its own argument
            each = [exp_nodes.get(id(a)) for a in na + da]
            guarded = all(e_ is not None and under_test_of(e_, set(x.get("local") for x in walk(e_["recv"]) if x.get("k") == "Path" and "local" in x)) for e_ in each)
        yield n, (shifted or guarded), ("shifted by a maximum" if shifted else "under a test of the argument" if guarded else "unguarded")
