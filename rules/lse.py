"""R-LSE (shared by C10 and C12): log-sum-exp / soft-max must be computed in shifted form.

A function that exponentiates and sums (`ln(sum(exp(v)))` or `exp(v)/sum(exp(v))`) must exponentiate
`v - max(v)`: otherwise every exponential underflows for inputs far from all components / with large
scores, the sum is 0 and the result is -inf / NaN / inf."""
from .facts import walk, strip, peel_refs, pat_bindings, fn_key, fn_loc, Render
from .taint import parent_map

SUMS = {"sum", "sum_axis", "fold_axis", "fold", "reduce", "product"}


def let_inits(fn):
    m = {}
    for n in walk(fn["body"]):
        if n.get("k") == "LetStmt" and n.get("init") is not None:
            bs = list(pat_bindings(n["pat"]))
            for b in bs:
                m[b["local"]] = n["init"]
    return m


def is_max_derived(c, n, inits, depth=0):
    """expression (through let bindings) that is a max-reduction"""
    if depth > 4 or n is None:
        return False
    for x in walk(n):
        if x.get("k") == "MethodCall" and x["name"] in ("max", "fold_axis", "map_axis", "reduce", "fold") :
            if x["name"] == "max":
                return True
            # reduce(F::max) / fold(.., max) / fold_axis(.., |a, b| a.max(b))
            for a in x["args"]:
                for y in walk(a):
                    if (y.get("k") == "MethodCall" and y["name"] == "max") or (y.get("k") == "Path" and "def" in y and (c.dfn(y["def"]) or {}).get("name") == "max"):
                        return True
        if x.get("k") == "Path" and "local" in x and x["local"] in inits and x is not n:
            if is_max_derived(c, inits[x["local"]], inits, depth + 1):
                return True
    n0 = peel_refs(n)
    if n0.get("k") == "Path" and n0.get("local") in inits:
        return is_max_derived(c, inits[n0["local"]], inits, depth + 1)
    return False


def is_shifted(c, arg, inits, pm, closure_ctx):
    """arg of exp is `e - max`, or a closure parameter of a map over an array that is `a - max`"""
    a = peel_refs(arg)
    if a.get("k") == "Binary" and a["op"] == "-":
        return is_max_derived(c, a["r"], inits)
    if a.get("k") == "Path" and "local" in a:
        if a["local"] in inits:
            return is_shifted(c, inits[a["local"]], inits, pm, closure_ctx)
        # closure parameter: look at the array the closure is mapped over
        clo = closure_ctx.get(a["local"])
        if clo is not None:
            call = pm.get(id(clo))
            if call is not None and call.get("k") == "MethodCall" and call["name"] in ("mapv", "map", "mapv_inplace", "mapv_into", "map_inplace"):
                recv = peel_refs(call["recv"])
                if recv.get("k") == "Path" and recv.get("local") in inits:
                    recv = peel_refs(inits[recv["local"]])
                if recv.get("k") == "Binary" and recv["op"] == "-":
                    return is_max_derived(c, recv["r"], inits)
    return False


def check_fn(fn):
    """Returns list of (node, shifted: bool) for exp sites in a function that also sums and takes ln / divides."""
    c = fn["crate"]
    exps, has_sum, has_ln_or_div = [], False, False
    closure_ctx = {}
    for n in walk(fn["body"]):
        k = n.get("k")
        if k == "Closure":
            for p in n["params"]:
                for b in pat_bindings(p):
                    closure_ctx[b["local"]] = n
        if k == "MethodCall":
            if n["name"] == "exp":
                exps.append((n, n["recv"]))
            elif n["name"] in SUMS:
                has_sum = True
            elif n["name"] in ("ln", "log", "ln_1p"):
                has_ln_or_div = True
        elif k == "Path" and "def" in n:
            d = c.dfn(n["def"])
            if d and d["name"] == "exp" and d["kind"] in ("AssocFn", "Fn"):
                exps.append((n, None))
            if d and d["name"] in ("ln", "log"):
                has_ln_or_div = True
        elif k in ("Binary", "AssignOp") and n["op"] == "/":
            has_ln_or_div = True
    if not (exps and has_sum and has_ln_or_div):
        return []
    inits = let_inits(fn)
    pm = parent_map(fn["body"])
    out = []
    for node, arg in exps:
        if arg is None:
            # `mapv(F::exp)`: shifted iff the mapped array is shifted
            par = pm.get(id(node))
            ok = False
            if par is not None and par.get("k") == "MethodCall":
                recv = peel_refs(par["recv"])
                if recv.get("k") == "Path" and recv.get("local") in inits:
                    recv = peel_refs(inits[recv["local"]])
                ok = recv.get("k") == "Binary" and recv["op"] == "-" and is_max_derived(c, recv["r"], inits)
            out.append((node, ok))
        else:
            out.append((node, is_shifted(c, arg, inits, pm, closure_ctx)))
    return out


def run(res, F, scope, floor_note=""):
    """scope: predicate on fn. Adds instances / violations to res."""
    for fn in F.all_fns():
        if not scope(fn):
            continue
        sites = check_fn(fn)
        key = fn_key(fn)
        for i, (node, ok) in enumerate(sites):
            inst = "%s : exp #%d inside a sum with ln/division" % (key, i)
            res.instance(inst)
            if ok:
                res.ok()
                res.sample({"site": inst, "form": "exp(v - max)"})
            else:
                res.violate("%s : unshifted-exp" % key,
                            "exp is applied to an unshifted argument inside a log-sum-exp / soft-max: for inputs far from every component (or large scores) all exponentials underflow, the sum is 0 and the result is not finite", fn_loc(fn, node.get("ln")))
    # de-duplicate per function
    seen, uniq = set(), []
    for v in res.violations:
        if v.key not in seen:
            seen.add(v.key)
            uniq.append(v)
    res.violations = uniq
