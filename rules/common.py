"""Rules that are the same for every property and only differ in the crates they look at: registered by bin/check after the
property's own rules (`rules_for(pid)`)."""
from .core import RuleResult
from .facts import walk, strip, peel_refs, pat_bindings, fn_key, fn_loc, Render

ALL = None
PROP_CRATES = {
    "C01": {"linfa"}, "C02": {"linfa"}, "C03": ALL, "C04": ALL, "C05": {"linfa"},
    "C06": {"linfa_kernel", "linfa_hierarchical"}, "C07": {"linfa_nn"}, "C08": {"linfa_clustering", "linfa_nn"},
    "C09": {"linfa_clustering", "linfa_nn"}, "C10": {"linfa_clustering"}, "C11": {"linfa_elasticnet", "linfa_linear"},
    "C12": {"linfa_logistic", "linfa_linear"}, "C13": {"linfa_svm", "linfa_kernel"}, "C14": {"linfa_trees", "linfa"},
    "C15": {"linfa_bayes", "linfa_clustering", "linfa_ftrl"}, "C16": {"linfa_preprocessing"}, "C17": {"linfa_preprocessing"},
    "C18": {"linfa_reduction"}, "C19": ALL, "C20": ALL,
}


def _inits(fn):
    """local -> initialiser, tuple lets taken apart"""
    out = {}
    for y in walk(fn["body"]):
        if y.get("k") == "LetStmt" and y.get("init") is not None:
            p_, i_ = y["pat"], peel_refs(y["init"])
            if p_.get("k") == "Bind":
                out[p_["local"]] = y["init"]
            elif p_.get("k") == "Tuple" and i_.get("k") == "Tup" and len(p_["pats"]) == len(i_["es"]):
                for q, x in zip(p_["pats"], i_["es"]):
                    if q.get("k") == "Bind":
                        out[q["local"]] = x
    return out


def _arg_names(e, inits, depth=0):
    """the identifiers an argument stands for: the local it is written as, and the field / argument-less accessor that local
    was bound to (`let (l2, l1) = (self.l2_ratio, self.l1_ratio)`)"""
    e = peel_refs(e)
    if e.get("k") == "Path" and "local" in e:
        out = {e.get("name")}
        if e["local"] in inits and depth < 3:
            out |= _arg_names(inits[e["local"]], inits, depth + 1)
        return out
    if e.get("k") == "Field":
        return {e.get("name")}
    if e.get("k") == "MethodCall" and not e["args"]:
        return {e.get("name")}
    return set()


def make_argswap_rule(pid):
    crates = PROP_CRATES.get(pid)

    def rule(ctx):
        """Two arguments of one type that are written with each other's parameter names (`f(.., l2_ratio, l1_ratio)` for
        `fn f(.., l1_ratio: F, l2_ratio: F)`) are exchanged: each value plays the other's part in everything the callee does."""
        res = RuleResult("R-%s-argswap" % pid, "no call of a workspace function passes two like-typed arguments that are named after each other's parameter")
        F = ctx.facts()
        index = {}
        for f in F.all_fns():
            index[(f["d"]["krate"], f["d"].get("path"))] = f
        n = 0
        inits_cache = {}
        for fn in F.all_fns():
            d = fn["d"]
            if (crates is not None and d["krate"] not in crates) or fn.get("exp") or "tests" in (d.get("path") or ""):
                continue
            c = fn["crate"]
            for y in walk(fn["body"]):
                if y.get("k") == "MethodCall":
                    di, args, skip = y.get("inst", y.get("def")), y["args"], 1
                elif y.get("k") == "Call" and strip(y["f"]).get("k") == "Path":
                    di, args, skip = strip(y["f"]).get("inst", strip(y["f"]).get("def")), y["args"], 0
                else:
                    continue
                if len(args) < 2 or di is None:
                    continue
                dd = c.dfn(di)
                if dd is None or not str(dd.get("krate", "")).startswith("linfa"):
                    continue
                g = next((h for h in c.fns if h["def"] == di), None) if dd.get("krate") == c.name else index.get((dd.get("krate"), dd.get("path")))
                if g is None:
                    continue
                pnames = []
                for p_ in g["params"][skip:]:
                    bs = list(pat_bindings(p_))
                    pnames.append(bs[0]["name"] if len(bs) == 1 and p_.get("k") in ("Bind", "Ref") else None)
                if len(pnames) != len(args):
                    continue
                if id(fn) not in inits_cache:
                    inits_cache[id(fn)] = _inits(fn)
                cand = [_arg_names(a, inits_cache[id(fn)]) for a in args]
                names = [sorted(x)[0] if x else None for x in cand]
                tys = [(c.ty(peel_refs(a).get("t")) or "").lstrip("&").strip() for a in args]
                if sum(1 for x in cand if x) < 2:
                    continue
                n += 1
                for i in range(len(args)):
                    for j in range(i + 1, len(args)):
                        if cand[i] and cand[j] and pnames[i] and pnames[j] and pnames[i] != pnames[j] and pnames[j] in cand[i] and pnames[i] in cand[j] and pnames[i] not in cand[i] and pnames[j] not in cand[j] and tys[i] == tys[j]:
                            names[i], names[j] = pnames[j], pnames[i]
                            res.violate("%s : arguments-exchanged:%s:%s/%s" % (fn_key(fn), g["d"]["name"], pnames[i], pnames[j]),
                                        "`%s` hands `%s` to the parameter `%s` and `%s` to the parameter `%s` of `%s`: two values of one type, each named after the other's parameter - they are exchanged" % (Render(c).e(y)[:70], names[i], pnames[i], names[j], pnames[j], g["d"]["name"]), fn_loc(fn, y.get("ln")))
        res.instance("%d calls of workspace functions with two or more named arguments" % n)
        if n:
            res.ok()
        else:
            res.missing_anchor("calls of workspace functions with named arguments")
        return res.finish(1)
    rule.__name__ = "rule_argswap"
    return rule


def rules_for(pid):
    return [make_argswap_rule(pid)]
