"""A second algorithm behind a size threshold is code the tests never run.

`if x.nrows() >= TALL_PROBLEM_MIN_ROWS { normal equations } else { QR }` - both routes are "the least squares solution",
and whether the second one returns the same model (to the property's tolerance) is a numerical question no rule here
answers.  What *is* visible is that a route exists which only inputs beyond a constant size reach, i.e. that the
repository's tests (a few dozen rows) say nothing about it.  The rule reports such a switch as UNDECIDED (never as a
violation): exit 0 in the quick tier, exit 2 in the thorough one, with the site named for review.

Matched: an `if` whose condition compares a size of the data (`nrows`, `ncols`, `nsamples`, `nfeatures`, `len`,
`len_of`, `dim`) with a named constant or a literal >= 64 (possibly multiplied by another size), and whose taken branch
does more than return / raise an error."""
from .core import RuleResult
from .facts import fn_key, fn_loc, walk, strip, peel_refs, Render, lit_float

SIZES = {"nrows", "ncols", "nsamples", "nfeatures", "len", "len_of", "dim", "ntargets"}


def make_rule(rid, select, what, allow=None):
    allow = allow or {}

    def rule(ctx):
        res = RuleResult(rid, "no second computation route keyed on a constant size threshold in %s (reported as undecided, never as a violation)" % what)
        F = ctx.facts()
        n_fns = 0
        for fn in F.all_fns():
            if not select(fn) or fn.get("exp") or "tests" in fn["d"]["path"]:
                continue
            n_fns += 1
            c = fn["crate"]
            r = Render(c)
            key = fn_key(fn)
            inits = {}
            for y in walk(fn["body"]):
                if y.get("k") == "LetStmt" and y.get("init") is not None and y["pat"].get("k") == "Bind":
                    inits[y["pat"]["local"]] = y["init"]

            def has_size(e, d=0):
                for z in walk(e):
                    if z.get("k") == "MethodCall" and z["name"] in SIZES:
                        return True
                    if z.get("k") == "Path" and z.get("local") in inits and d < 3 and has_size(inits[z["local"]], d + 1):
                        return True
                return False

            def big_const(e):
                for z in walk(e):
                    if z.get("k") == "Lit" and (lit_float(z.get("v")) or 0) >= 64:
                        return str(z.get("v"))
                    if z.get("k") == "Path" and "local" not in z and str((c.dfn(z.get("def")) or {}).get("kind", "")).startswith(("Const", "AssocConst")) and (c.ty(z.get("t")) or "").strip() in ("usize", "u64", "u32", "i32", "i64"):
                        return (c.dfn(z.get("def")) or {}).get("name")
                return None
            for y in walk(fn["body"]):
                conds = []
                if y.get("k") == "If":
                    conds.append((y["c"], y["then"]))
                if y.get("k") == "LetStmt" and y.get("init") is not None and (c.ty(peel_refs(y["init"]).get("t")) or "").strip() == "bool":
                    conds.append((y["init"], None))
                for cnd, then in conds:
                    hit = None
                    for z in walk(cnd):
                        if z.get("k") == "Binary" and z["op"] in (">", ">=", "<", "<="):
                            for a, b in ((z["l"], z["r"]), (z["r"], z["l"])):
                                k_ = big_const(b)
                                if k_ and has_size(a):
                                    hit = (z, k_)
                    if not hit:
                        continue
                    if then is not None:
                        t0 = strip(then)
                        stm = (t0.get("stmts") or []) + ([t0["e"]] if t0.get("e") is not None else []) if t0.get("k") == "Block" else [t0]
                        trivial = all(strip(s_).get("k") in ("Ret", "Break", "Continue") or (strip(s_).get("k") == "Call" and not any(w.get("k") == "MethodCall" for w in walk(s_))) or strip(s_).get("k") in ("Path", "Lit") for s_ in stm)
                        if trivial:
                            continue
                    inst = "%s : size threshold %s" % (key, hit[1])
                    res.instance(inst)
                    if inst in allow:
                        res.ok()
                        res.info.append("reviewed: %s - %s" % (inst, allow[inst]))
                    else:
                        res.undecided("%s : size-keyed-route:%s" % (key, hit[1]), "`%s`: a computation that only inputs beyond a constant size reach - whether it agrees with the other route is not decided here, and the tests' small inputs never take it" % r.e(hit[0])[:60], fn_loc(fn, cnd.get("ln")))
        res.instance("%d functions scanned" % n_fns)
        if n_fns:
            res.ok()
        else:
            res.missing_anchor("functions of %s" % what)
        return res.finish(1)
    rule.__name__ = "rule_" + rid.replace("-", "_")
    return rule
