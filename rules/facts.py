"""Loader for the JSON facts written by the linfa-facts driver, plus generic tree helpers."""
import glob
import json
import os
import re


class Crate:
    def __init__(self, path, mir_path=None):
        with open(path) as f:
            d = json.load(f)
        self.name = d["crate"]
        self.cfg = d["cfg"]
        self.files = d["files"]
        self.tys = d["tys"]
        self.defs = d["defs"]
        self.adts = d["adts"]
        self.impls = d["impls"]
        self.fns = d["fns"]
        self.consts = d.get("consts", [])      # initialisers of const / static items: {def, file, line, exp, body}
        self._const_by_def = dict((k_["def"], k_) for k_ in self.consts)
        self.exports = dict((a, b) for a, b in d.get("exports", []))
        self.n_bodies = d["n_bodies"]
        self._mir_path = mir_path
        self._mir = None
        for fn in self.fns:
            fn["crate"] = self
            fn["d"] = self.defs[fn["def"]]

    def ty(self, i):
        return self.tys[i] if i is not None else None

    def dfn(self, i):
        return self.defs[i] if i is not None else None

    def const_body(self, i):
        """the initialiser expression of the const / static item with def index i of this crate (None if not local)"""
        k_ = self._const_by_def.get(i)
        return k_["body"] if k_ else None

    @property
    def mir(self):
        if self._mir is None:
            with open(self._mir_path) as f:
                self._mir = json.load(f)
        return self._mir


class Facts:
    """All crates of one configuration."""

    def __init__(self, directory, cfg="default"):
        self.dir = directory
        self.cfg = cfg
        self.crates = {}
        for p in sorted(glob.glob(os.path.join(directory, "*.%s.json" % cfg))):
            if p.endswith(".mir.json"):
                continue
            c = Crate(p, p[:-5] + ".mir.json")
            self.crates[c.name] = c

    def all_fns(self):
        for c in self.crates.values():
            for fn in c.fns:
                yield fn

    def n_bodies(self):
        return sum(c.n_bodies for c in self.crates.values())

    def find_fns(self, name=None, self_adt=None, trait=None, krate=None, path_re=None):
        out = []
        for fn in self.all_fns():
            d = fn["d"]
            if name is not None and d["name"] != name:
                continue
            if self_adt is not None and not (d.get("self_adt") or "").endswith(self_adt):
                continue
            if trait is not None and not (d.get("trait") or "").endswith(trait):
                continue
            if krate is not None and d["krate"] != krate:
                continue
            if path_re is not None and not re.search(path_re, d["path"]):
                continue
            out.append(fn)
        return out


def fn_file(fn):
    return fn["crate"].files[fn["file"]]


def fn_loc(fn, ln=None):
    return "%s:%d" % (fn_file(fn), ln if ln is not None else fn["line"])


def fn_key(fn):
    """Stable, line-free key of a function: crate + impl self type/trait + name."""
    d = fn["d"]
    if d.get("pk") == "impl":
        st = d.get("self_adt") or d.get("self_ty")
        st = st.split("::")[-1] if d.get("self_adt") else st
        if d.get("trait"):
            return "%s::<%s as %s>::%s" % (d["krate"], st, d["trait"].split("::")[-1], d["name"])
        return "%s::%s::%s" % (d["krate"], st, d["name"])
    return d["path"]


CHILD_KEYS = ("f", "recv", "l", "r", "e", "c", "then", "else", "init", "scrut", "body", "base", "i", "els")
LIST_KEYS = ("args", "stmts", "es")


def children(n):
    """Direct sub-expressions of an HIR node in evaluation order (patterns excluded)."""
    if not isinstance(n, dict):
        return
    k = n.get("k")
    if k == "MethodCall":
        yield n["recv"]
        for a in n["args"]:
            yield a
        return
    if k == "Call":
        yield n["f"]
        for a in n["args"]:
            yield a
        return
    if k == "Match":
        yield n["scrut"]
        for a in n["arms"]:
            if a.get("guard"):
                yield a["guard"]
            yield a["body"]
        return
    if k == "Struct":
        for f in n["fields"]:
            yield f["e"]
        if n.get("base"):
            yield n["base"]
        return
    if k == "Block":
        for s in n["stmts"]:
            yield s
        if n.get("e"):
            yield n["e"]
        return
    if k in ("Assign", "AssignOp"):
        # right-hand side is evaluated first for plain assignment
        yield n["r"]
        yield n["l"]
        return
    if k == "Index":
        yield n["e"]
        yield n["i"]
        return
    for key in CHILD_KEYS:
        v = n.get(key)
        if isinstance(v, dict):
            yield v
    for key in LIST_KEYS:
        v = n.get(key)
        if isinstance(v, list):
            for x in v:
                if isinstance(x, dict):
                    yield x


def walk(n):
    """Pre-order walk over all expression nodes below n (including closures' bodies)."""
    stack = [n]
    while stack:
        x = stack.pop()
        if not isinstance(x, dict):
            continue
        yield x
        ch = list(children(x))
        stack.extend(reversed(ch))


def pat_bindings(p):
    """All Bind nodes inside a pattern."""
    if not isinstance(p, dict):
        return
    if p.get("k") == "Bind":
        yield p
        if p.get("sub"):
            for b in pat_bindings(p["sub"]):
                yield b
        return
    for key in ("pat",):
        if key in p and isinstance(p[key], dict):
            for b in pat_bindings(p[key]):
                yield b
    for q in p.get("pats", []) or []:
        for b in pat_bindings(q):
            yield b
    for f in p.get("fields", []) or []:
        for b in pat_bindings(f["pat"]):
            yield b


_LIT_NUM = re.compile(r"^([0-9][0-9_]*(?:\.[0-9_]*)?(?:[eE][+-]?[0-9_]+)?)_*(?:f32|f64|[iu](?:8|16|32|64|128|size))?$")


def lit_number(v):
    """The numeric text of a literal without its type suffix (`2`, `2.0`, `2f64`, `1_000usize`, `1e-6_f32`), else None.
    (Stripping a *set* of suffix characters from the right eats digits: `0.3` -> `0.`, `2` -> ``.)"""
    m = _LIT_NUM.match(str(v))
    return m.group(1).replace("_", "") if m else None


def lit_float(v):
    t = lit_number(v)
    try:
        return float(t) if t is not None else None
    except ValueError:
        return None


def strip(n):
    """Peel wrappers that do not change the value: Semi, single-expression blocks, refs, derefs."""
    while isinstance(n, dict):
        k = n.get("k")
        if k == "Semi":
            n = n["e"]
        elif k == "Block" and not n["stmts"] and n.get("e"):
            n = n["e"]
        else:
            break
    return n


def peel_refs(n):
    """Peel &, &mut, *, and value-preserving method calls (clone, borrow, as_ref, into, to_owned)."""
    while isinstance(n, dict):
        n = strip(n)
        k = n.get("k")
        if k == "Ref":
            n = n["e"]
        elif k == "Unary" and n["op"] == "*":
            n = n["e"]
        elif k == "Cast":
            n = n["e"]
        elif k == "MethodCall" and n["name"] in ("clone", "borrow", "as_ref", "to_owned", "into", "borrow_mut", "as_mut", "deref", "copied", "cloned") and not n["args"]:
            n = n["recv"]
        else:
            break
    return n


class Render:
    """Pseudo-source rendering of HIR trees (for reports and debugging)."""

    def __init__(self, crate):
        self.c = crate

    def pat(self, p):
        if p is None:
            return "_"
        k = p["k"]
        if k == "Bind":
            return p["name"]
        if k == "Wild":
            return "_"
        if k in ("TupleStruct",):
            d = self.c.dfn(p.get("def"))
            nm = d["path"].split("::")[-1] if d else "?"
            return "%s(%s)" % (nm, ", ".join(self.pat(q) for q in p["pats"]))
        if k == "Struct":
            d = self.c.dfn(p.get("def"))
            nm = d["path"].split("::")[-1] if d else "?"
            return "%s{%s}" % (nm, ", ".join("%s: %s" % (f["name"], self.pat(f["pat"])) for f in p["fields"]))
        if k in ("Tuple", "Or", "Slice"):
            sep = " | " if k == "Or" else ", "
            return "(%s)" % sep.join(self.pat(q) for q in p["pats"])
        if k in ("Ref", "Box"):
            return "&" + self.pat(p["pat"])
        if k == "Lit":
            return p["v"]
        if k == "Path":
            d = self.c.dfn(p.get("def"))
            return d["path"].split("::")[-1] if d else "?"
        return "<%s>" % k

    def e(self, n, depth=0):
        if n is None:
            return ""
        if depth > 12:
            return "..."
        k = n["k"]
        E = lambda x: self.e(x, depth + 1)
        if k == "Lit":
            return n["v"] if n["lk"] != "str" else json.dumps(n["v"])
        if k == "Path":
            if "local" in n:
                return n["name"]
            if "def" in n:
                return self.c.dfn(n["def"])["path"]
            return n.get("res", "?")
        if k == "Call":
            return "%s(%s)" % (E(n["f"]), ", ".join(E(a) for a in n["args"]))
        if k == "MethodCall":
            return "%s.%s(%s)" % (E(n["recv"]), n["name"], ", ".join(E(a) for a in n["args"]))
        if k == "Binary":
            return "(%s %s %s)" % (E(n["l"]), n["op"], E(n["r"]))
        if k == "Unary":
            return "%s%s" % (n["op"], E(n["e"]))
        if k == "Assign":
            return "%s = %s" % (E(n["l"]), E(n["r"]))
        if k == "AssignOp":
            return "%s %s %s" % (E(n["l"]), n["op"], E(n["r"]))
        if k == "Cast":
            return "(%s as %s)" % (E(n["e"]), self.c.ty(n["t"]))
        if k == "Let":
            return "let %s = %s" % (self.pat(n["pat"]), E(n["init"]))
        if k == "LetStmt":
            return "let %s = %s;" % (self.pat(n["pat"]), E(n["init"]) if n.get("init") else "")
        if k == "Semi":
            return E(n["e"]) + ";"
        if k == "If":
            s = "if %s %s" % (E(n["c"]), E(n["then"]))
            if n.get("else"):
                s += " else %s" % E(n["else"])
            return s
        if k == "Loop":
            return "loop[%s] %s" % (n["src"], E(n["body"]))
        if k == "Match":
            arms = "; ".join("%s%s => %s" % (self.pat(a["pat"]), (" if " + E(a["guard"])) if a.get("guard") else "", E(a["body"])) for a in n["arms"])
            return "match[%s] %s { %s }" % (n["src"], E(n["scrut"]), arms)
        if k == "Closure":
            return "|%s| %s" % (", ".join(self.pat(p) for p in n["params"]), E(n["body"]))
        if k == "Block":
            parts = [E(s) for s in n["stmts"]]
            if n.get("e"):
                parts.append(E(n["e"]))
            return "{ %s }" % " ".join(parts)
        if k == "Field":
            return "%s.%s" % (E(n["e"]), n["name"])
        if k == "Index":
            return "%s[%s]" % (E(n["e"]), E(n["i"]))
        if k == "Ref":
            return "&%s%s" % ("mut " if n["mut"] else "", E(n["e"]))
        if k == "Break":
            return "break %s" % E(n.get("e"))
        if k == "Continue":
            return "continue"
        if k == "Ret":
            return "return %s" % E(n.get("e"))
        if k == "Struct":
            d = self.c.dfn(n.get("def"))
            nm = d["path"] if d else "?"
            s = "%s { %s" % (nm, ", ".join("%s: %s" % (f["name"], E(f["e"])) for f in n["fields"]))
            if n.get("base"):
                s += ", ..%s" % E(n["base"])
            return s + " }"
        if k in ("Tup", "Array"):
            return "(%s)" % ", ".join(E(x) for x in n["es"])
        if k == "Repeat":
            return "[%s; _]" % E(n["e"])
        return "<%s>" % k


def parse_ty(s):
    """Parse a type string into (head, [args]) with nesting; returns nested tuples.
    'ndarray::ArrayBase<S, ndarray::Dim<[usize; 2]>>' -> ('ndarray::ArrayBase', [('S', []), ...])"""
    s = s.strip()
    depth = 0
    for i, ch in enumerate(s):
        if ch == "<" and depth == 0 and not s.startswith("<"):
            head = s[:i]
            # find matching '>'
            d = 0
            for j in range(i, len(s)):
                if s[j] == "<":
                    d += 1
                elif s[j] == ">" and s[j - 1] != "-":
                    d -= 1
                    if d == 0:
                        inner = s[i + 1:j]
                        rest = s[j + 1:]
                        return (head, [parse_ty(a) for a in split_top(inner)], rest)
            break
    return (s, [], "")


def split_top(s):
    out = []
    depth = 0
    cur = ""
    for i, ch in enumerate(s):
        if ch in "<([{":
            depth += 1
        elif ch in ")]}":
            depth -= 1
        elif ch == ">" and (i == 0 or s[i - 1] != "-"):
            depth -= 1
        if ch == "," and depth == 0:
            out.append(cur.strip())
            cur = ""
        else:
            cur += ch
    if cur.strip():
        out.append(cur.strip())
    return out
