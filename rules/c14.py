"""C14 — decision trees: fit-time and predict-time routing agree; limits are tested before a split is created."""
import re

from .core import RuleResult
from .facts import fn_file, fn_key, fn_loc, walk, strip, peel_refs, pat_bindings, Render
from .facts import lit_float, lit_number
from .sym import Tracer, Term, Cmp, k, as_term, as_poly, walk_terms, Poly

LEVEL = ("Static analysis of linfa-trees: (route) the comparison that sends a training row to the left child when the child "
         "masks are built and the comparison that descends left in make_prediction are the same canonical relation between "
         "the row's feature value and the split value; (limits) creating a split is dominated by the min_weight_split, "
         "max_depth and min_impurity_decrease tests, candidate splits are skipped when either side is below min_weight_leaf, "
         "children are created at depth + 1; (weights) side-weight accumulators start from zero or a total of sample weights and the "
         "impurity-mixing fraction divides by a total of sample weights; (layout) the records are read through axis-aware accessors "
         "only. Necessary conditions of 'every training sample is routed by prediction to the "
         "leaf it was routed to while fitting' and 'honours its limits' for all data; impurity arithmetic and leaf "
         "majorities are not decided.")
ASSUME = ["rustc resolution/typeck; HIR faithfully dumped"]

FLIP = {"<": ">", ">": "<", "<=": ">=", ">=": "<=", "==": "==", "!=": "!="}
NEG = {"<": ">=", ">": "<=", "<=": ">", ">=": "<", "==": "!=", "!=": "=="}


def find_fn(res, F, name, adt=None, krate="linfa_trees"):
    fns = [f for f in F.find_fns(name=name, krate=krate) if adt is None or (f["d"].get("self_adt") or "").endswith(adt)]
    if not fns:
        res.missing_anchor("%s%s" % ((adt + "::") if adt else "", name))
    return fns


def local_of(n):
    n = peel_refs(n)
    return n.get("local") if n.get("k") == "Path" else None


def is_split_value(c, n):
    n = peel_refs(n)
    if n.get("k") == "Field" and "split" in n["name"]:
        return True
    if n.get("k") == "Path" and "split" in (n.get("name") or ""):
        return True
    return False


def is_feature_value(c, n):
    n = peel_refs(n)
    return n.get("k") == "Index"


def canon_route(c, cond, then_is_left):
    """Relation `feature OP split` under which a row goes LEFT, or None."""
    cond = strip(cond)
    if cond.get("k") != "Binary" or cond["op"] not in FLIP:
        return None
    op = cond["op"]
    l, r = cond["l"], cond["r"]
    if is_feature_value(c, l) and is_split_value(c, r):
        pass
    elif is_feature_value(c, r) and is_split_value(c, l):
        op = FLIP[op]
    else:
        return None
    if not then_is_left:
        op = NEG[op]
    return op


def rule_route(ctx):
    res = RuleResult("R-C14-route", "fit-time mask split and predict-time descent use the same relation between feature value and split value")
    F = ctx.facts()
    fit_op = pred_op = None
    fit_loc = pred_loc = None
    # --- fit side
    for fn in find_fn(res, F, "fit", "TreeNode"):
        c = fn["crate"]
        key = fn_key(fn)
        # which mask local feeds the recursive fit that becomes `left_child`?
        child_masks = {}
        lets = [n for n in walk(fn["body"]) if n.get("k") == "LetStmt" and n.get("init")]
        struct = [n for n in walk(fn["body"]) if n.get("k") == "Struct" and any(f["name"] == "left_child" for f in n["fields"])]
        if not struct:
            res.missing_anchor("TreeNode { left_child, right_child } literal in TreeNode::fit")
            continue
        for f in struct[-1]["fields"]:
            if f["name"] in ("left_child", "right_child"):
                lid = local_of(f["e"])
                init = None
                for l in lets:
                    if any(b["local"] == lid for b in pat_bindings(l["pat"])):
                        init = l["init"]
                src = init if init is not None else f["e"]
                for x in walk(src):
                    if x.get("k") == "Call":
                        d = c.dfn(strip(x["f"]).get("def")) if strip(x["f"]).get("k") == "Path" else None
                        if d and d["name"] == "fit" and len(x["args"]) >= 2:
                            child_masks[f["name"]] = local_of(x["args"][1])
        if set(child_masks) != {"left_child", "right_child"} or None in child_masks.values():
            res.undecided("%s : child-masks" % key, "cannot identify the row masks of the two recursive fits (fail closed)", fn_loc(fn))
            continue
        # the If whose branches mark those masks
        for n in walk(fn["body"]):
            if n.get("k") != "If" or not n.get("else"):
                continue
            def marks(branch):
                out = set()
                for x in walk(branch):
                    if x.get("k") == "MethodCall" and x["name"] == "mark":
                        out.add(local_of(x["recv"]))
                return out
            t, e = marks(n["then"]), marks(n["else"])
            if t == {child_masks["left_child"]} and e == {child_masks["right_child"]}:
                fit_op = canon_route(c, n["c"], True)
            elif t == {child_masks["right_child"]} and e == {child_masks["left_child"]}:
                fit_op = canon_route(c, n["c"], False)
            else:
                continue
            fit_loc = fn_loc(fn, n["ln"])
            res.instance("%s : training rows go left iff feature %s split" % (key, fit_op))
        if fit_op is None:
            res.undecided("%s : fit-routing" % key, "mask-building comparison between feature value and split value not found (fail closed)", fn_loc(fn))
    # --- predict side
    for fn in find_fn(res, F, "make_prediction"):
        c = fn["crate"]
        key = fn_key(fn)
        for n in walk(fn["body"]):
            if n.get("k") != "If" or not n.get("else"):
                continue
            def child(branch):
                for x in walk(branch):
                    if x.get("k") == "Field" and x["name"] in ("left_child", "right_child"):
                        return x["name"]
                return None
            t = child(n["then"])
            # `else` may itself be an if-chain; only its direct recursion matters
            e = child(n["else"]) if strip(n["else"]).get("k") != "If" else None
            op = None
            if t == "left_child" and (e in (None, "right_child")):
                op = canon_route(c, n["c"], True)
            elif t == "right_child" and (e in (None, "left_child")):
                op = canon_route(c, n["c"], False)
            if op is not None:
                pred_op = op
                pred_loc = fn_loc(fn, n["ln"])
                res.instance("%s : prediction descends left iff feature %s split" % (key, op))
        if pred_op is None:
            res.undecided("%s : predict-routing" % key, "descent comparison between feature value and split value not found (fail closed)", fn_loc(fn))
    if fit_op and pred_op:
        res.sample({"fit": "left iff feature %s split" % fit_op, "predict": "left iff feature %s split" % pred_op})
        if fit_op == pred_op:
            res.ok()
        else:
            res.violate("linfa_trees : fit `%s` vs predict `%s`" % (fit_op, pred_op),
                        "fit sends a row left iff feature %s split (%s) but prediction descends left iff feature %s split (%s): a training row whose value equals the split value is routed to a different leaf" % (fit_op, fit_loc, pred_op, pred_loc), pred_loc)
    return res.finish(2)


def guard_cmps(e):
    out = []
    for g in e.guards:
        sign, key, node, val = g
        for t in walk_terms(val):
            if isinstance(t, Cmp):
                out.append((sign, t))
    return out


def has(sub):
    return lambda a: sub in a


def side_accumulators(fn):
    """names of the locals that are updated with += / -= by a value derived from the sample weights"""
    deps, deps_of = local_deps(fn)
    out = []
    for x in walk(fn["body"]):
        if x.get("k") == "AssignOp" and x["op"] in ("+", "-"):
            t = peel_refs(x["l"])
            if t.get("k") == "Path" and "local" in t and deps_of(x["r"]) & WEIGHT_SOURCES:
                out.append(t.get("name"))
    return out


LIMIT_NAMES = ("min_weight_split", "min_weight_leaf", "min_impurity_decrease")


def rule_limits(ctx):
    res = RuleResult("R-C14-limits", "split creation is dominated by the min_weight_split / max_depth / min_impurity_decrease tests; candidates below min_weight_leaf are skipped; children get depth + 1")
    F = ctx.facts()
    # the limits are compared as given: a truncating copy (`min_weight_split as usize`, round / floor) lets nodes with
    # floor(limit) samples through although the limit says otherwise
    for f in F.all_fns():
        if f["d"]["krate"] != "linfa_trees":
            continue
        c_ = f["crate"]
        for n in walk(f["body"]):
            bad = None
            if n.get("k") == "Cast":
                tt = (c_.ty(n.get("t")) or "").strip()
                st = (c_.ty(strip(n["e"]).get("t")) or "").strip().lstrip("&")
                if tt in ("u8", "u16", "u32", "u64", "usize", "i8", "i16", "i32", "i64", "isize") and (st in ("f32", "f64") or len(st) == 1):
                    bad = "as " + tt
            elif n.get("k") == "MethodCall" and n["name"] in ("round", "floor", "ceil", "trunc", "to_usize", "to_u64", "to_i64", "to_u32", "to_i32") and not n["args"]:
                bad = "." + n["name"] + "()"
            if not bad:
                continue
            src = n["e"] if n.get("k") == "Cast" else n["recv"]
            names = [y.get("name") for y in walk(src) if y.get("k") in ("Field", "MethodCall") and y.get("name") in LIMIT_NAMES]
            if names:
                res.instance("%s : %s of %s" % (fn_key(f), bad, names[0]))
                res.violate("%s : limit-truncated:%s" % (fn_key(f), names[0]), "the limit `%s` is passed through `%s` before it is compared: a fractional limit is rounded, so nodes that the limit forbids to split (or leaves lighter than the limit) are accepted" % (names[0], bad), fn_loc(f, n["ln"]))
    for fn in find_fn(res, F, "fit", "TreeNode"):
        key = fn_key(fn)
        tr = Tracer(fn, inline=ctx.inliner(keep=("fit",))).run()
        rec = [e for e in tr.events if e.kind == "call" and e.name == "fit" and e.d and (e.d.get("self_adt") or "").endswith("TreeNode")]
        if len(rec) < 2:
            res.undecided("%s : recursion" % key, "expected two recursive fits (left and right child), found %d" % len(rec), fn_loc(fn))
            continue
        first_rec = min(e.order for e in rec)
        # children at depth + 1
        for i, e in enumerate(rec):
            res.instance("%s : recursive fit #%d depth argument" % (key, i))
            d = as_poly(e.args[-1]) if e.args else None
            want = Poly.atom(Term("param:depth")) + Poly.const(1)
            if d is not None and d == want:
                res.ok()
            else:
                res.violate("%s : child-depth:#%d" % (key, i), "child is created with depth %s instead of depth + 1" % k(e.args[-1] if e.args else None), fn_loc(fn, e.node["ln"]))
        rets = [e for e in tr.events if e.kind == "ret" and e.order < first_rec and e.closure_depth == 0]
        conts = [e for e in tr.events if e.kind == "continue" and e.order < first_rec]

        def find_guard(events, a_sub, b_sub):
            """some event guarded (positively) by `a < b` / `a <= b`"""
            verdicts = []
            from .sym import sufficient_cmps
            for e in events:
                for g in e.guards:
                    # comparisons each of which alone takes this exit (disjuncts of the guard, negated conjuncts of an else)
                    for c, holds in sufficient_cmps(g[3], g[0] == "+"):
                        v = c.asserts_less(has(a_sub), has(b_sub))
                        if v:
                            if not holds:
                                v = {"strict": "reversed", "weak": "reversed", "reversed": "weak"}[v]
                            verdicts.append(v)
            return verdicts

        # the two side-weight accumulators are found structurally (locals updated by sample weights), not by name
        acc_names = sorted(set(nm for nm in side_accumulators(fn)))
        checks = [
            ("min_weight_split", rets, "nsamples", "min_weight_split", "leaf when nsamples < min_weight_split"),
            ("max_depth", rets, "max_depth", "param:depth", "leaf when depth >= max_depth"),
            ("min_impurity_decrease", rets, "", "min_impurity_decrease", "leaf when impurity decrease < min_impurity_decrease"),
        ]
        for i, nm in enumerate(acc_names):
            checks.append(("min_weight_leaf(%s)" % ("side %d" % (i + 1)), conts, ":%s@" % nm, "min_weight_leaf", "candidate skipped when side weight #%d < min_weight_leaf" % (i + 1)))
        if len(acc_names) != 2:
            res.undecided("%s : side-weights" % key, "expected two side-weight accumulators updated by the sample weights in the sweep, found %s (fail closed)" % acc_names, fn_loc(fn))
        for name, evs, a, b, what in checks:
            res.instance("%s : %s" % (key, what))
            v = find_guard(evs, a, b)
            # max_depth: `depth >= max_depth` is `max_depth <= depth`: a = max_depth, b = depth, weak
            if any(x in ("strict", "weak") for x in v):
                res.ok()
                res.sample({"limit": name, "guard": what})
            elif "reversed" in v:
                res.violate("%s : limit-reversed:%s" % (key, name), "the %s test is reversed: expected %s" % (name, what), fn_loc(fn))
            else:
                from .sym import sufficient_cmps as _suff
                # an exit whose condition the rule cannot read matters only if that condition mentions the limit at all
                base_name = name.split("(")[0].strip()
                opaque = [e for e in evs if e.guards and any(base_name in g[1] and not list(_suff(g[3], g[0] == "+")) for g in e.guards)]
                res.violate("%s : limit-missing:%s" % (key, name), "no early exit guarded by the %s test before the split is created (expected: %s)%s" % (name, what, "; %d exit(s) have conditions this rule cannot read" % len(opaque) if opaque else ""), fn_loc(fn), undecided=bool(opaque))
    return res.finish(7)


WEIGHT_SOURCES = {"label_frequencies_with_mask", "weight_for", "weights", "label_frequencies"}


def local_deps(fn):
    """flow-insensitive dependency sets: local -> names of the calls its value is computed from (transitively)"""
    c = fn["crate"]
    deps = {}

    def deps_of(e):
        out = set()
        for x in walk(e):
            if x.get("k") == "MethodCall":
                out.add(x["name"])
            elif x.get("k") == "Call":
                d = c.dfn(strip(x["f"]).get("def")) if strip(x["f"]).get("k") == "Path" else None
                if d:
                    out.add(d["name"])
            elif x.get("k") == "Path" and "local" in x:
                out |= deps.get(x["local"], set())
            elif x.get("k") == "Field":
                out.add("field:" + x["name"])
        return out
    for _ in range(4):
        for x in walk(fn["body"]):
            kk = x.get("k")
            if kk == "LetStmt" and x.get("init") is not None:
                d = deps_of(x["init"])
                for b in pat_bindings(x["pat"]):
                    deps[b["local"]] = deps.get(b["local"], set()) | d
            elif kk in ("Assign", "AssignOp"):
                t = peel_refs(x["l"])
                if t.get("k") == "Path" and "local" in t:
                    deps[t["local"]] = deps.get(t["local"], set()) | deps_of(x["r"])
            elif kk == "Match":
                d = deps_of(x["scrut"])
                for a in x["arms"]:
                    for b in pat_bindings(a["pat"]):
                        deps[b["local"]] = deps.get(b["local"], set()) | d
    return deps, deps_of


def is_zero_lit(n):
    n = peel_refs(n)
    if n.get("k") == "Lit":
        try:
            return float(re.sub(r"(_?[fiu](32|64|size))$", "", n["v"]).replace("_", "")) == 0.0
        except ValueError:
            return False
    return False


def rule_weights(ctx):
    """'leaves at least min_weight_leaf of training weight on each side' and 'reports the actual (weighted) decrease':
    the running side weights and the fraction that mixes the two child impurities are sums of sample weights."""
    res = RuleResult("R-C14-weights", "side-weight accumulators start from zero or from a total of sample weights, and a weight fraction divides by a total of sample weights (not by a sample count)")
    F = ctx.facts()
    for fn in find_fn(res, F, "fit", "TreeNode"):
        c = fn["crate"]
        r = Render(c)
        key = fn_key(fn)
        deps, deps_of = local_deps(fn)
        inits = {}
        for x in walk(fn["body"]):
            if x.get("k") == "LetStmt" and x.get("init") is not None and x["pat"].get("k") == "Bind":
                inits[x["pat"]["local"]] = x
        accs = {}
        for x in walk(fn["body"]):
            if x.get("k") == "AssignOp" and x["op"] in ("+", "-"):
                t = peel_refs(x["l"])
                if t.get("k") == "Path" and "local" in t and deps_of(x["r"]) & WEIGHT_SOURCES:
                    accs.setdefault(t["local"], (t.get("name"), x))
        for loc, (name, node) in sorted(accs.items(), key=lambda z: z[1][0] or ""):
            res.instance("%s : accumulator `%s`" % (key, name))
            let = inits.get(loc)
            if let is None:
                res.undecided("%s : accumulator-start:%s" % (key, name), "cannot find the initial value of the weight accumulator `%s` (fail closed)" % name, fn_loc(fn, node["ln"]))
                continue
            init = let["init"]
            # the initial value itself (not later updates): dependencies of the initialiser through other locals' initialisers only
            seen, todo, srcs = set(), [init], set()
            zero = is_zero_lit(init)
            while todo:
                e = todo.pop()
                for y in walk(e):
                    if y.get("k") == "MethodCall":
                        srcs.add(y["name"])
                    elif y.get("k") == "Call":
                        d = c.dfn(strip(y["f"]).get("def")) if strip(y["f"]).get("k") == "Path" else None
                        if d:
                            srcs.add(d["name"])
                    elif y.get("k") == "Path" and "local" in y and y["local"] not in seen:
                        seen.add(y["local"])
                        if y["local"] in inits:
                            todo.append(inits[y["local"]]["init"])
                        else:
                            srcs |= deps.get(y["local"], set())
            if zero or srcs & WEIGHT_SOURCES:
                res.ok()
                res.sample({"accumulator": name, "starts_from": "0" if zero else sorted(srcs & WEIGHT_SOURCES)})
            else:
                res.violate("%s : accumulator-start:%s" % (key, name), "`%s` is updated by sample weights but starts from `%s`, which is not derived from the sample weights (a sample count is not a weight total when weights are present)" % (name, r.e(init)[:60]), fn_loc(fn, let["ln"]))
        nfrac = 0
        for x in walk(fn["body"]):
            if x.get("k") == "Binary" and x["op"] == "/" and deps_of(x["l"]) & WEIGHT_SOURCES:
                den = peel_refs(x["r"])
                if den.get("k") == "Lit" or (den.get("k") == "Call" and (c.dfn(strip(den["f"]).get("def")) or {}).get("name") in ("cast", "from")):
                    continue
                nfrac += 1
                res.instance("%s : weight fraction `%s`" % (key, r.e(x)[:50]))
                # divisor through initialisers only
                seen, todo, srcs = set(), [x["r"]], set()
                while todo:
                    e = todo.pop()
                    for y in walk(e):
                        if y.get("k") == "MethodCall":
                            srcs.add(y["name"])
                        elif y.get("k") == "Call":
                            d = c.dfn(strip(y["f"]).get("def")) if strip(y["f"]).get("k") == "Path" else None
                            if d:
                                srcs.add(d["name"])
                        elif y.get("k") == "Path" and "local" in y and y["local"] not in seen:
                            seen.add(y["local"])
                            if y["local"] in inits:
                                todo.append(inits[y["local"]]["init"])
                            else:
                                srcs |= deps.get(y["local"], set())
                if srcs & WEIGHT_SOURCES:
                    res.ok()
                else:
                    res.violate("%s : weight-fraction-divisor" % key, "the weight fraction `%s` divides a sum of sample weights by `%s`, which is not derived from the sample weights: the mixed impurity (and the reported decrease) is wrong for weighted data" % (r.e(x)[:60], r.e(x["r"])[:40]), fn_loc(fn, x["ln"]))
        if not accs:
            res.missing_anchor("weight accumulators of the split sweep in TreeNode::fit")
        if not nfrac:
            res.missing_anchor("the weight fraction mixing the child impurities in TreeNode::fit")
    return res.finish(3)


RAW_BUFFER = {"as_slice_memory_order", "as_slice_memory_order_mut", "as_ptr", "as_mut_ptr", "into_raw_vec", "into_raw_vec_and_offset", "uget", "uget_mut", "as_standard_layout_unchecked"}
LAYOUT_TESTS = {"is_standard_layout", "strides", "stride_of"}
AXIS_ACCESS = {"index_axis", "column", "row", "rows", "columns", "axis_iter", "outer_iter", "genrows", "gencolumns", "select", "slice", "index_axis_move"}


def rule_layout(ctx):
    """The presorted per-feature index and the routing read the records through axis-aware accessors, so the tree
    does not depend on the memory layout of the records (column-major / transposed / sliced inputs)."""
    res = RuleResult("R-C14-layout", "linfa-trees reads the record matrix only through axis-aware accessors; raw memory-order buffer access needs a layout test")
    F = ctx.facts()
    fns = [f for f in F.all_fns() if f["d"]["krate"] == "linfa_trees"]

    def raw_sites(fs):
        out = []
        for f in fs:
            c = f["crate"]
            tests = any(x.get("k") == "MethodCall" and x["name"] in LAYOUT_TESTS for x in walk(f["body"]))
            for x in walk(f["body"]):
                if x.get("k") == "MethodCall" and x["name"] in RAW_BUFFER:
                    d = c.dfn(x.get("def"))
                    rt = c.ty(x["recv"].get("at", x["recv"].get("t"))) or ""
                    if d is not None and d["krate"] == "ndarray" and ("Dim<[usize; 2]>" in rt or "Ix2" in rt or "D" in rt):
                        out.append((f, x, tests))
        return out
    # positive control: the matcher must see the raw-buffer accesses of the dataset code (split_with_ratio & co.)
    control = raw_sites([f for f in F.all_fns() if f["d"]["krate"] == "linfa"])
    res.instance("matcher control: %d raw-buffer accesses recognised in crate linfa" % len(control))
    if control:
        res.ok()
    else:
        res.undecided("matcher-control", "the raw-buffer matcher recognises nothing in crate linfa, where into_raw_vec is known to be used (the rule would pass vacuously)", "src/dataset/impl_dataset.rs")
    for f, x, tests in raw_sites(fns):
        key = fn_key(f)
        res.instance("%s : %s" % (key, x["name"]))
        if tests:
            res.ok()
        else:
            res.violate("%s : raw-buffer:%s" % (key, x["name"]), "`%s` hands out the records in memory order without a layout test: positional arithmetic on it reads the wrong cells for column-major, transposed or sliced records" % x["name"], fn_loc(f, x["ln"]))
    for fn in find_fn(res, F, "of_array_column", "SortedIndex"):
        key = fn_key(fn)
        xs = [p_ for p_ in fn["params"] if p_.get("k") == "Bind" and p_["name"] != "self"]
        acc = [y for y in walk(fn["body"]) if y.get("k") == "MethodCall" and y["name"] in AXIS_ACCESS and peel_refs(y["recv"]).get("local") == xs[0]["local"]]
        idx = [y for y in walk(fn["body"]) if y.get("k") == "Index" and peel_refs(y["e"]).get("local") == xs[0]["local"]]
        res.instance("%s : feature column read through %s" % (key, sorted(set(y["name"] for y in acc)) or ("indexing" if idx else "?")))
        uses_feature = any(any(z.get("k") == "Path" and z.get("local") == xs[1]["local"] for z in walk(y)) for y in acc + idx) if len(xs) > 1 else False
        if (acc or idx) and uses_feature:
            res.ok()
        else:
            res.undecided("%s : column-access" % key, "the feature column is not read through an axis-aware accessor of the records indexed by the feature index (fail closed)", fn_loc(fn))
    return res.finish(2)


def _seq_root(t):
    t = as_term(t)
    while t is not None and t.is_call("iter", "into_iter", "cloned", "copied", "iter_mut", "view", "to_vec", "to_owned") and t.args:
        t = as_term(t.args[0])
    return t


def rule_importance(ctx):
    """'feature importances are non-negative and sum to one whenever the tree has a split': the relative importances are
    a vector divided, element by element, by the sum of that very vector."""
    res = RuleResult("R-C14-importance", "relative_impurity_decrease divides each element of one sequence by the sum of that same sequence (importances sum to one by construction)")
    F = ctx.facts()
    for fn in find_fn(res, F, "relative_impurity_decrease", "DecisionTree"):
        key = fn_key(fn)
        tr = Tracer(fn).run()
        res.instance("%s : x_j / sum_j x_j" % key)
        v = as_term(tr.result)
        while v is not None and v.is_call("collect", "Ok", "Some") and v.args:
            v = as_term(v.args[0])
        ok, why = False, "result is not `seq.map(|x| x / total)`: %s" % k(tr.result)[:100]
        if v is not None and v.is_call("map", "mapv", "mapv_into") and len(v.args) == 2:
            seq = _seq_root(v.args[0])
            clo = as_term(v.args[1])
            body = as_term(clo.args[0]) if clo is not None and clo.op.startswith("closure#") and clo.args else None
            if body is not None and body.op == "bin:/" and len(body.args) == 2:
                num, den = as_term(body.args[0]), as_term(body.args[1])
                dsum = den if den is not None and den.is_call("sum") and den.args else None
                dseq = _seq_root(dsum.args[0]) if dsum is not None else None
                if num is None or not num.op.startswith(("local:", "cparam:")) or num.args:
                    why = "the numerator `%s` is not the bare element of the mapped sequence" % k(body.args[0])[:60]
                elif dseq is None or seq is None or dseq.key() != seq.key():
                    why = "the divisor `%s` is not the sum of the sequence being divided (`%s`)" % (k(body.args[1])[:60], k(seq)[:50] if seq is not None else "?")
                else:
                    ok = True
            elif body is not None:
                why = "each element is mapped to `%s`, not to element / sum(elements)" % k(body)[:80]
        if ok:
            res.ok()
            res.sample({"fn": key, "form": "seq.map(|x| x / seq.sum())"})
        else:
            res.violate("%s : not-self-normalised" % key, why + ": the importances then do not sum to one", fn_loc(fn))
    # no path hands the unnormalised values out under a *positive* threshold on their sum: every tree with a split has a
    # positive sum, however small (the minimum impurity decrease is a parameter), and its importances sum to one
    for fn in find_fn(res, F, "relative_impurity_decrease", "DecisionTree"):
        c = fn["crate"]
        key = fn_key(fn)
        for y in walk(fn["body"]):
            if y.get("k") != "If" or not any(z.get("k") == "Ret" for z in walk(y["then"])):
                continue
            res.instance("%s : early return at line %s" % (key, y.get("ln")))
            cnd = strip(y["c"])
            while cnd.get("k") in ("DropTemps", "Paren"):
                cnd = strip(cnd["e"])
            bound = None
            if cnd.get("k") == "Binary" and cnd["op"] in ("<", "<=", ">", ">=", "=="):
                for side in (cnd["l"], cnd["r"]):
                    s0 = peel_refs(side)
                    while s0.get("k") == "Call" and len(s0["args"]) == 1:
                        s0 = peel_refs(s0["args"][0])
                    if s0.get("k") == "Lit":
                        bound = lit_float(s0.get("v"))
                    if s0.get("k") == "Call" and not s0["args"] and (c.dfn(strip(s0["f"]).get("def")) or {}).get("name") == "zero":
                        bound = 0.0
            if bound is not None and bound > 0:
                res.violate("%s : unnormalised-under-positive-threshold" % key, "`%s`: the values are returned without the division by their sum whenever the sum is below %g - a tree with a weak split (the minimum impurity decrease is a parameter) has a smaller positive sum, and its importances then do not sum to one" % (Render(c).e(cnd)[:40], bound), fn_loc(fn, y.get("ln")))
            elif bound == 0:
                res.ok()
            else:
                res.undecided("%s : early-return-condition" % key, "`%s` (fail closed)" % Render(c).e(cnd)[:40], fn_loc(fn, y.get("ln")))
    for fn in find_fn(res, F, "feature_importance", "DecisionTree"):
        key = fn_key(fn)
        tr = Tracer(fn).run()
        res.instance("%s : is the relative impurity decrease" % key)
        v = as_term(tr.result)
        if v is not None and v.is_call("relative_impurity_decrease"):
            res.ok()
        else:
            res.violate("%s : other-source" % key, "feature_importance is not the relative impurity decrease: %s" % k(tr.result)[:80], fn_loc(fn))
    return res.finish(2)


def rule_rowindex(ctx):
    """sample weights are looked up by the sample's row index: an enumerate() index taken after a filter / skip / rev
    counts positions of the shortened sequence (class frequencies of a masked node would use the weights of rows 0..k)"""
    from . import rowindex
    res = RuleResult("R-C14-rowindex", "every weight_for(i) in the dataset helpers and in linfa-trees receives a row index: an enumerate() index is taken before any filter / skip / step_by / rev of the sample sequence")
    F = ctx.facts()
    fns = [f for f in F.all_fns() if (f["d"]["krate"] == "linfa" and fn_file(f).startswith("src/dataset/")) or f["d"]["krate"] == "linfa_trees"]
    n = 0
    for fn in fns:
        srcs = None
        for call, loc in rowindex.accessor_sites(fn):
            if srcs is None:
                srcs = rowindex.enumerate_sources(fn)
            n += 1
            key = fn_key(fn)
            if loc is None or loc not in srcs:
                res.instance("%s : weight_for(..) #%d, index not produced by enumerate()" % (key, n))
                res.ok()
                continue
            bad = [a for a in srcs[loc] if a in rowindex.REINDEXING]
            res.instance("%s : weight_for(enumerate index), sequence before enumerate: %s" % (key, " . ".join(srcs[loc]) or "<source>"))
            if bad:
                res.violate("%s : index-after-%s" % (key, bad[0]), "the index handed to weight_for counts positions of a sequence that was already shortened or reordered by `%s`: it is not the sample's row index, so the sample gets the weight of another row" % bad[0], fn_loc(fn, call["ln"]))
            else:
                res.ok()
    for fn in fns:
        for node, adaptor, cont in rowindex.zip_after_filter(fn):
            n += 1
            key = fn_key(fn)
            res.instance("%s : zip of a filtered sample sequence with self.%s" % (key, cont))
            res.violate("%s : zip-after-%s:%s" % (key, adaptor, cont), "a sample sequence shortened by `%s` is zipped with `self.%s` walked from its start: the k-th remaining sample is paired with the %s of row k, not with its own" % (adaptor, cont, cont.rstrip("s")), fn_loc(fn, node["ln"]))
    if n == 0:
        res.missing_anchor("weight_for call sites in the dataset helpers / linfa-trees")
    return res.finish(2)


def rule_impurity(ctx):
    """Impurity (gini, entropy) is a function of the class proportions: multiplying every class weight by the same
    factor leaves it unchanged.  A class weight (degree 1 in that factor) may therefore be compared with zero only
    (the 0 * log 0 guard); compared with any other constant, classes of small positive weight are dropped or kept
    depending on the scale of the sample weights.  Proportions (weight / total, degree 0) may be compared freely."""
    res = RuleResult("R-C14-impurity", "gini_impurity and entropy compare a class weight with zero only; thresholds apply to proportions (scale invariance in the sample weights)")
    F = ctx.facts()
    fns = [f for f in F.all_fns() if f["d"]["krate"] == "linfa_trees" and f["d"]["name"] in ("gini_impurity", "entropy")]
    if len(fns) < 2:
        res.missing_anchor("gini_impurity / entropy of linfa-trees (found %d)" % len(fns))
    for fn in fns:
        c = fn["crate"]
        key = fn_key(fn)
        r = Render(c)
        env = {}      # local -> degree (1 = a weight or a sum of weights, 0 = a proportion / pure number)
        inits = {}
        for n in walk(fn["body"]):
            if n.get("k") == "LetStmt" and n.get("init") is not None and n["pat"].get("k") == "Bind":
                inits[n["pat"]["local"]] = n["init"]
        for p_ in fn["params"]:
            for b in pat_bindings(p_):
                env[b["local"]] = 1

        def deg(e, depth=0):
            """degree of a scalar / of the items of an iterator expression; None = constant or unknown"""
            e = peel_refs(e)
            k_ = e.get("k")
            if k_ == "Lit":
                return None
            if k_ == "Path" and "local" in e:
                if e["local"] in env:
                    return env[e["local"]]
                if e["local"] in inits and depth < 4:
                    env[e["local"]] = deg(inits[e["local"]], depth + 1)
                    return env[e["local"]]
                return None
            if k_ == "Binary":
                a, b = deg(e["l"], depth), deg(e["r"], depth)
                if e["op"] == "*":
                    return (a or 0) + (b or 0) if (a is not None or b is not None) else None
                if e["op"] == "/":
                    return (a or 0) - (b or 0) if (a is not None or b is not None) else None
                return a if a is not None else b
            if k_ == "Unary":
                return deg(e["e"], depth)
            if k_ == "Call":
                f = strip(e["f"])
                d = c.dfn(f.get("def")) if f.get("k") == "Path" else None
                if d and d["name"] == "ordered_weights":
                    return 1
                if e["args"]:
                    return deg(e["args"][0], depth)
                return None
            if k_ == "MethodCall":
                nm = e["name"]
                if nm in ("values", "iter", "into_iter", "sum", "copied", "cloned", "abs", "max", "min", "filter", "product", "fold", "unwrap", "unwrap_or"):
                    return deg(e["recv"], depth)
                if nm in ("log2", "ln", "log10", "exp"):
                    return 0
                if nm == "map" and e["args"] and strip(e["args"][0]).get("k") == "Closure":
                    clo = strip(e["args"][0])
                    d0 = deg(e["recv"], depth)
                    for b in pat_bindings(clo["params"][0]):
                        env[b["local"]] = d0
                    return deg(clo["body"], depth)
                if nm in ("powi", "powf") and e["args"]:
                    a = deg(e["recv"], depth)
                    ex = peel_refs(e["args"][0])
                    try:
                        return None if a is None else int(a * float(ex["v"])) if ex.get("k") == "Lit" else None
                    except ValueError:
                        return None
                return deg(e["recv"], depth)
            if k_ == "If":
                a = deg(e["then"], depth)
                return a if a is not None else (deg(e["else"], depth) if e.get("else") else None)
            if k_ == "Block" and e.get("e"):
                return deg(e["e"], depth)
            if k_ == "Field":
                return deg(e["e"], depth)
            return None
        # bind closure parameters along the chains (map / filter / fold ...), in source order
        for n in walk(fn["body"]):
            if n.get("k") == "MethodCall" and n["args"] and strip(n["args"][-1]).get("k") == "Closure":
                clo = strip(n["args"][-1])
                d0 = deg(n["recv"])
                if clo["params"]:
                    for b in pat_bindings(clo["params"][-1]):
                        env.setdefault(b["local"], d0)
        n_cmp = 0
        for n in walk(fn["body"]):
            if n.get("k") != "Binary" or n["op"] not in ("<", "<=", ">", ">=", "==", "!="):
                continue
            for a, b in ((n["l"], n["r"]), (n["r"], n["l"])):
                lit = peel_refs(b)
                neg = False
                while lit.get("k") == "Unary" and lit["op"] == "-":
                    lit = peel_refs(lit["e"])
                if lit.get("k") != "Lit":
                    continue
                try:
                    import re as _re
                    v = float(_re.sub(r"_?(f32|f64|usize|u8|u16|u32|u64|i8|i16|i32|i64|isize)$", "", lit["v"].replace("_", ""))) if lit.get("lk") in ("int", "float") else None
                except ValueError:
                    v = None
                if v is None:
                    continue
                d_ = deg(a)
                n_cmp += 1
                res.instance("%s : comparison `%s` (degree %s against %s)" % (key, r.e(n)[:50], d_, lit["v"]))
                if v == 0.0 or d_ in (0, None):
                    res.ok()
                else:
                    res.violate("%s : weight-threshold:%s" % (key, lit["v"]), "`%s` compares a class weight (or a sum of class weights) with the constant %s: classes whose weight lies between 0 and that constant are treated like empty classes, so the impurity depends on the scale of the sample weights and is wrong for fractional weights" % (r.e(n)[:60], lit["v"]), fn_loc(fn, n["ln"]))
        res.instance("%s : %d comparisons with constants" % (key, n_cmp))
        res.ok()
    return res.finish(2)


def rule_majority(ctx):
    """'a leaf predicts a weighted most frequent label': the arg-max over the class weights compares the weights
    themselves.  A key that passes them through a rounding or a float-to-integer conversion makes different weights
    compare as equal, and the tie-break then picks a label that is not a heaviest one."""
    res = RuleResult("R-C14-majority", "find_modal_class compares the class weights exactly: no rounding / integer conversion / tolerance between the weight and the comparison")
    F = ctx.facts()
    fns = [f for f in F.all_fns() if f["d"]["krate"] == "linfa_trees" and f["d"]["name"] == "find_modal_class"]
    if not fns:
        res.missing_anchor("find_modal_class")
    for fn in fns:
        c = fn["crate"]
        key = fn_key(fn)
        picks = [n for n in walk(fn["body"]) if n.get("k") == "MethodCall" and n["name"] in ("max_by", "max_by_key", "min_by", "min_by_key", "fold", "reduce") and n["args"]]
        res.instance("%s : %d arg-max constructs" % (key, len(picks)))
        if not picks:
            res.undecided("%s : argmax-not-found" % key, "no arg-max over the class weights found", fn_loc(fn))
            continue
        bad = None
        for p_ in picks:
            for y in walk(p_["args"][-1]):
                if y.get("k") == "MethodCall" and y["name"] in ("round", "floor", "ceil", "trunc", "to_i32", "to_i64", "to_u32", "to_u64", "to_usize", "signum"):
                    bad = (y, "`.%s()`" % y["name"])
                if y.get("k") == "Cast":
                    tt = (c.ty(y.get("t")) or "").strip()
                    st = (c.ty(strip(y["e"]).get("t")) or "").strip().lstrip("&")
                    if tt in ("u8", "u16", "u32", "u64", "usize", "i8", "i16", "i32", "i64", "isize") and st in ("f32", "f64"):
                        bad = (y, "`as %s`" % tt)
                if y.get("k") == "Binary" and y["op"] in ("<=", "<", ">", ">=") and any(z.get("k") == "MethodCall" and z["name"] == "abs" for z in walk(y)) and any(z.get("k") == "Binary" and z["op"] == "-" for z in walk(y)):
                    bad = (y, "a tolerance test `|a - b| <= ..`")
            # a tolerance test hidden in a local closure that the comparator calls
            for y in walk(p_["args"][-1]):
                if y.get("k") == "Call" and strip(y["f"]).get("k") == "Path" and "local" in strip(y["f"]):
                    for z in walk(fn["body"]):
                        if z.get("k") == "LetStmt" and z["pat"].get("k") == "Bind" and z["pat"]["local"] == strip(y["f"])["local"] and z.get("init") is not None:
                            if any(w.get("k") == "MethodCall" and w["name"] == "abs" for w in walk(z["init"])) and any(w.get("k") == "Binary" and w["op"] in ("<=", "<") for w in walk(z["init"])):
                                bad = (y, "a tolerance test in `%s`" % strip(y["f"]).get("name"))
        if bad:
            res.violate("%s : approximate-weight-comparison" % key, "the arg-max over the class weights compares them through %s: weights that differ compare as equal, and the tie-break then returns a label that is not a heaviest one (and, being non-transitive, makes the result depend on the iteration order)" % bad[1], fn_loc(fn, bad[0].get("ln")))
        else:
            res.ok()
    return res.finish(1)


def rule_setter(ctx):
    """the limits the tree is grown under are the ones the caller set: DecisionTreeParams' builder methods store their
    arguments unchanged (see R-C04-setter)"""
    from . import c04
    res = RuleResult("R-C14-setter", "DecisionTreeParams' builder methods store max_depth / min_weight_split / min_weight_leaf / min_impurity_decrease exactly as given")
    F = ctx.facts()
    impls = c04.guard_impls(F)
    n = 0
    for adt, fn in c04.builder_methods(F, impls):
        if adt != "DecisionTreeParams":
            continue
        c = fn["crate"]
        params = set(b["local"] for p_ in fn["params"][1:] for b in pat_bindings(p_))
        for fld, val, node in c04._assigned_fields(fn):
            n += 1
            key = "%s : %s" % (fn_key(fn), fld)
            res.instance(key)
            bad = None
            for y in walk(val):
                if y.get("k") == "MethodCall" and y["name"] in c04.VALUE_CHANGING and any(z.get("k") == "Path" and z.get("local") in params for z in walk(y["recv"])):
                    bad = "`.%s(..)`" % y["name"]
                    break
                if y.get("k") == "Binary" and y["op"] in ("+", "-", "*", "/", "%") and any(z.get("k") == "Path" and z.get("local") in params for z in walk(y)):
                    bad = "arithmetic `%s`" % y["op"]
                    break
                if y.get("k") in ("If", "Match") and y.get("src", "Normal") == "Normal" and any(z.get("k") == "Path" and z.get("local") in params for z in walk(y.get("c") or y.get("scrut"))):
                    bad = "a branch on the argument"
                    break
            if bad:
                res.violate("%s : setter-changes-value" % key, "the builder method `%s` passes its argument through %s before storing it in `%s`: the tree is grown under a limit the caller did not set" % (fn["d"]["name"], bad, fld), fn_loc(fn, node["ln"]))
            else:
                res.ok()
    if n < 5:
        res.missing_anchor("DecisionTreeParams setters (found %d)" % n)
    return res.finish(5)


def rule_sampleindex(ctx):
    """In the split sweep one observation is moved from the right side to the left: its visibility, its class and its
    weight are all properties of the same sample, so they are read at the same index.  (Position in the presorted order
    and sample id are both usize; without sample weights weight_for ignores its argument, so only weighted data shows a
    mix-up.)"""
    from .c17 import for_loops
    res = RuleResult("R-C14-sampleindex", "within the split sweep, the row mask, the target and the sample weight of the moved observation are read at the same index")
    F = ctx.facts()
    n = 0
    for fn in find_fn(res, F, "fit", "TreeNode"):
        c = fn["crate"]
        r = Render(c)
        key = fn_key(fn)
        for it, pat, body, node in for_loops(fn["body"]):
            # innermost loops only
            if any(True for _ in for_loops(body)):
                continue
            idx = {}
            for y in walk(body):
                if y.get("k") == "MethodCall" and y["name"] == "weight_for" and y["args"]:
                    idx.setdefault("weight", []).append(peel_refs(y["args"][0]))
                if y.get("k") == "Index":
                    base = peel_refs(y["e"])
                    bt = c.ty(base.get("t")) or ""
                    if base.get("k") == "Field" and base["name"] == "mask":
                        idx.setdefault("mask", []).append(peel_refs(y["i"]))
                    elif base.get("k") == "Path" and base.get("name") in ("target", "targets") or ("ArrayBase" in bt and "Dim<[usize; 1]>" in bt and base.get("k") == "Path" and "target" in (base.get("name") or "")):
                        idx.setdefault("target", []).append(peel_refs(y["i"]))
            if "weight" not in idx or len(idx) < 2:
                continue
            n += 1
            res.instance("%s : sweep loop reads %s" % (key, sorted(idx)))
            locs = {k_: set(e.get("local") for e in v) for k_, v in idx.items()}
            ref = locs.get("target") or locs.get("mask")
            if None in locs["weight"] or None in ref:
                res.undecided("%s : sample-index-form" % key, "an index of the sweep is not a plain local (fail closed)", fn_loc(fn, node["ln"]))
            elif locs["weight"] != ref:
                w = idx["weight"][0]
                res.violate("%s : weight-of-other-sample" % key, "the moved observation's class / visibility is read at `%s` but its weight at `%s`: with sample weights the running side weights belong to other samples" % (r.e((idx.get("target") or idx.get("mask"))[0])[:30], r.e(w)[:30]), fn_loc(fn, w.get("ln")))
            else:
                res.ok()
    if n < 1:
        res.missing_anchor("the split sweep of TreeNode::fit (a loop reading the target and weight_for of one observation)")
    return res.finish(1)


def rule_maskcount(ctx):
    """RowMask caches the number of visible rows next to the mask; `min_weight_split` is tested against that count.  Every
    literal keeps the two in step: an all-false mask has count 0, an all-true mask of n rows has count n."""
    res = RuleResult("R-C14-maskcount", "every RowMask literal's `nsamples` is the number of `true` entries of its mask (all-false: 0, all-true of n rows: n)")
    F = ctx.facts()
    n = 0
    for fn in F.all_fns():
        if fn["d"]["krate"] != "linfa_trees" or fn.get("exp"):
            continue
        c = fn["crate"]
        r = Render(c)
        for y in walk(fn["body"]):
            if y.get("k") != "Struct" or not (c.dfn(y.get("def")) or {}).get("path", "").endswith("RowMask"):
                continue
            fields = {f_["name"]: f_["e"] for f_ in y.get("fields") or []}
            if "mask" not in fields or "nsamples" not in fields:
                continue
            n += 1
            key = fn_key(fn)
            res.instance("%s : RowMask literal" % key)
            fill = extent = None
            for z in walk(fields["mask"]):
                if z.get("k") == "Call" and strip(z["f"]).get("k") == "Path" and (c.dfn(strip(z["f"]).get("def")) or {}).get("name") == "from_elem" and len(z["args"]) == 2:
                    a0 = peel_refs(z["args"][0])
                    if a0.get("k") == "Lit" and str(a0.get("v")) in ("true", "false"):
                        fill, extent = str(a0["v"]), peel_refs(z["args"][1])
            cnt = peel_refs(fields["nsamples"])
            if fill is None:
                res.undecided("%s : mask-form" % key, "the mask of a RowMask literal is not `vec![bool; n]` (fail closed)", fn_loc(fn, y["ln"]))
            elif fill == "false":
                if cnt.get("k") == "Lit" and str(cnt.get("v")) == "0":
                    res.ok()
                else:
                    res.violate("%s : hidden-mask-with-count" % key, "an all-hidden RowMask is created with `nsamples = %s`: the visible-row count no longer equals the number of visible rows, and every node grown from it tests min_weight_split against an inflated count" % r.e(cnt)[:30], fn_loc(fn, y["ln"]))
            else:
                if cnt.get("k") == "Path" and cnt.get("local") is not None and cnt.get("local") == extent.get("local"):
                    res.ok()
                else:
                    res.violate("%s : visible-mask-count" % key, "an all-visible RowMask of `%s` rows is created with `nsamples = %s`" % (r.e(extent)[:20], r.e(cnt)[:30]), fn_loc(fn, y["ln"]))
    if n < 2:
        res.missing_anchor("RowMask literals (all / none; found %d)" % n)
    return res.finish(2)


def rule_descent(ctx):
    """A prediction is the label of the *leaf* the sample falls into.  A descent written as a counted loop with a constant
    number of rounds stops at an inner node of any deeper tree (one split per sample gives depth n - 1 on sorted data) and
    returns that node's own majority label."""
    from .c17 import for_loops
    res = RuleResult("R-C14-descent", "make_prediction descends until a leaf: no counted loop with a constant bound")
    F = ctx.facts()
    fns = [f for f in F.all_fns() if f["d"]["krate"] == "linfa_trees" and f["d"]["name"] == "make_prediction"]
    if not fns:
        res.missing_anchor("make_prediction")
    for fn in fns:
        c = fn["crate"]
        r = Render(c)
        key = fn_key(fn)
        res.instance(key)
        bad = None
        for it, pat, body, node in for_loops(fn["body"]):
            rng = peel_refs(it)
            while rng.get("k") in ("Paren", "DropTemps") or (rng.get("k") == "Call" and len(rng["args"]) == 1):
                rng = peel_refs(rng["e"] if rng.get("k") != "Call" else rng["args"][0])
            if rng.get("k") != "Struct":
                continue
            end = next((f_["e"] for f_ in rng.get("fields") or [] if f_["name"] == "end"), None)
            if end is None:
                continue
            e0 = peel_refs(end)
            const = e0.get("k") == "Lit" or (e0.get("k") == "Path" and "local" not in e0 and str((c.dfn(e0.get("def")) or {}).get("kind", "")).startswith(("Const", "AssocConst")))
            descends = any(y.get("k") == "Assign" for y in walk(body)) and any(y.get("k") == "Field" and y["name"] in ("left_child", "right_child") for y in walk(body))
            if const and descends:
                bad = (node, end)
        if bad:
            res.violate("%s : descent-capped:%s" % (key, r.e(bad[1])[:20]), "the walk from the root takes at most `%s` steps: in a deeper tree (depth is bounded by max_depth, or by the number of samples) it stops at an inner node and returns that node's label, not the leaf's" % r.e(bad[1])[:20], fn_loc(fn, bad[0].get("ln")))
        else:
            res.ok()
    return res.finish(1)


def rule_sidepair(ctx):
    """The sweep moves each sample's weight from the right side to the left: `left += w; right -= w`.  Both running totals
    belong to one sweep - one feature - and are set up together.  One of them declared outside the per-feature loop carries
    the weight of the previous feature's sweep into the next one, and the min_weight_leaf test on that side passes for free."""
    from .layout import with_parents
    res = RuleResult("R-C14-sidepair", "the two side-weight accumulators of the split sweep are declared in the same block (both are reset for every feature)")
    F = ctx.facts()
    fns = [f for f in F.all_fns() if f["d"]["krate"] == "linfa_trees" and f["d"]["name"] == "fit" and (f["d"].get("self_adt") or "").endswith("TreeNode")]
    if not fns:
        res.missing_anchor("TreeNode::fit")
    for fn in fns:
        c = fn["crate"]
        key = fn_key(fn)
        res.instance(key)
        plus, minus = {}, {}
        for y in walk(fn["body"]):
            if y.get("k") == "AssignOp" and y["op"] in ("+", "-"):
                l0, r0 = peel_refs(y["l"]), peel_refs(y["r"])
                if l0.get("k") == "Path" and "local" in l0 and r0.get("k") == "Path" and "local" in r0 and (c.ty(l0.get("t")) or "").strip() in ("f32", "f64"):
                    (plus if y["op"] == "+" else minus).setdefault(r0["local"], []).append(l0["local"])
        pairs = [(a, b) for w in plus for a in plus[w] for b in minus.get(w, [])]
        if not pairs:
            res.undecided("%s : side-accumulators" % key, "no `left += w; right -= w` pair found (fail closed)", fn_loc(fn))
            continue
        decl_block = {}
        for y, anc in with_parents(fn["body"]):
            if y.get("k") == "LetStmt" and y["pat"].get("k") == "Bind":
                blk = next((a for a in reversed(anc) if a.get("k") == "Block"), None)
                decl_block[y["pat"]["local"]] = (id(blk) if blk is not None else None, y)
        a, b = pairs[0]
        reset = any(y.get("k") == "Assign" and peel_refs(y["l"]).get("local") in (a, b) for y in walk(fn["body"]))
        if a in decl_block and b in decl_block and decl_block[a][0] != decl_block[b][0] and reset:
            res.undecided("%s : side-accumulators-reset-by-assignment" % key, "declared in different blocks and one of them re-assigned: whether every feature starts from a fresh total is not decided here", fn_loc(fn))
        elif a in decl_block and b in decl_block and decl_block[a][0] != decl_block[b][0]:
            res.violate("%s : side-accumulators-in-different-scopes" % key, "`%s` and `%s` are moved in step by the sweep but declared in different blocks: one of them is not reset for every feature and carries the previous sweep's total into the next" % (decl_block[a][1]["pat"]["name"], decl_block[b][1]["pat"]["name"]), fn_loc(fn, decl_block[a][1].get("ln")))
        else:
            res.ok()
    return res.finish(1)


def rule_midpoint(ctx):
    """The sweep decides which samples go left by their *position* in the sorted order; the tree that is stored routes by
    `value <= threshold`.  The two agree only if the threshold lies in [lower value, upper value).  The midpoint of two
    neighbouring floats is not representable and may round to the upper one: then both go left, the counted split is not the
    stored one (min_weight_leaf, the impurity decrease and the routing of training samples are all off, and with nothing left
    on the right the recursion does not terminate).  So a midpoint threshold needs a guard that keeps it below the upper value."""
    from .layout import with_parents
    res = RuleResult("R-C14-midpoint", "a split threshold computed as the midpoint of two consecutive sorted values is kept strictly below the upper value (rounding guard)")
    F = ctx.facts()
    fns = [f for f in F.all_fns() if f["d"]["krate"] == "linfa_trees" and f["d"]["name"] == "fit" and (f["d"].get("self_adt") or "").endswith("TreeNode")]
    if not fns:
        res.missing_anchor("TreeNode::fit")
    for fn in fns:
        c = fn["crate"]
        r = Render(c)
        key = fn_key(fn)
        inits = {}
        for y in walk(fn["body"]):
            if y.get("k") == "LetStmt" and y.get("init") is not None and y["pat"].get("k") == "Bind":
                inits[y["pat"]["local"]] = y["init"]
        mids = []
        for y, anc in with_parents(fn["body"]):
            val = None
            tgt = None
            if y.get("k") == "Assign" and peel_refs(y["l"]).get("k") == "Path":
                val, tgt = y["r"], peel_refs(y["l"]).get("local")
            elif y.get("k") == "LetStmt" and y.get("init") is not None and y["pat"].get("k") == "Bind":
                val, tgt = y["init"], y["pat"]["local"]
            if val is None:
                continue
            v = peel_refs(val)
            if v.get("k") == "Binary" and v["op"] == "/" and peel_refs(v["l"]).get("k") == "Binary" and peel_refs(v["l"])["op"] == "+":
                den = r.e(peel_refs(v["r"]))
                den0 = peel_refs(v["r"])
                while den0.get("k") == "Call" and len(den0["args"]) == 1:
                    den0 = peel_refs(den0["args"][0])
                if not ((den0.get("k") == "Lit" and lit_float(den0.get("v")) == 2.0) or "cast(2" in den or den.endswith("(2.0)") or den.endswith("(2.)")):
                    continue
                ops = [peel_refs(peel_refs(v["l"])["l"]), peel_refs(peel_refs(v["l"])["r"])]
                if any("sorted_values" in r.e(o) or (o.get("k") == "Path" and o.get("local") in inits and "sorted_values" in r.e(inits[o["local"]])) or (o.get("k") == "Path" and o.get("local") == tgt) for o in ops):
                    mids.append((y, anc, tgt, ops))
        res.instance("%s : %d midpoint thresholds" % (key, len(mids)))
        if not mids:
            res.ok()          # the threshold is not a midpoint (e.g. the lower value itself): nothing can round up
            continue
        for y, anc, tgt, ops in mids:
            blk = next((a for a in reversed(anc) if a.get("k") == "Block"), None)
            guarded = False
            if blk is not None:
                seen = False
                for st in list(blk["stmts"]) + ([blk["e"]] if blk.get("e") is not None else []):
                    if st is y or any(z is y for z in walk(st)):
                        seen = True
                        continue
                    if not seen:
                        continue
                    s0 = strip(st)
                    if s0.get("k") == "If":
                        cnd = strip(s0["c"])
                        while cnd.get("k") in ("DropTemps", "Paren") or (cnd.get("k") == "Unary" and cnd["op"] == "!"):
                            cnd = strip(cnd["e"])
                        if cnd.get("k") == "Binary" and cnd["op"] in (">=", "==", ">", "<=", "<") and tgt in (peel_refs(cnd["l"]).get("local"), peel_refs(cnd["r"]).get("local")):
                            if any(z.get("k") == "Assign" and peel_refs(z["l"]).get("local") == tgt for z in walk(s0["then"])):
                                guarded = True
            # `.min(lower)` style guards
            if not guarded and any(z.get("k") in ("MethodCall", "Call") and (z.get("name") in ("min", "clamp", "next_down") ) for z in walk(y)):
                guarded = True
            if guarded:
                res.ok()
            else:
                res.violate("%s : midpoint-may-equal-upper-value" % key, "the threshold `%s` is the rounded midpoint of two consecutive values and is used unguarded: for neighbouring floats it can equal the upper value, and `value <= threshold` then sends both samples left although the sweep counted the upper one on the right" % r.e(peel_refs(y.get("r") or y.get("init")))[:60], fn_loc(fn, y.get("ln")))
    return res.finish(1)


def rules(tier):
    from . import carry, c04
    from . import precision
    return [rule_route, rule_limits, rule_weights, rule_layout, rule_importance, rule_rowindex, rule_impurity, rule_setter, rule_majority,
            carry.make_clone_rule("R-C14-clone", {"linfa_trees"}, 4), carry.make_setter_rule("R-C14-override", {"linfa_trees"}, 4), c04.make_carry_rule("R-C14-carry", {"DecisionTreeParams"}, 4),
            precision.make_rule("R-C14-precision", lambda f: f["d"]["krate"] == "linfa_trees", 40, "linfa-trees"),
            carry.make_accessor_rule("R-C14-accessor", {"linfa_trees"}, 4), carry.make_ctor_rule("R-C14-ctor", {"linfa_trees"}, 1), rule_sampleindex, rule_maskcount,
            # the limits that reach the fit are the ones the caller set: `check` hands the checked set on unchanged
            c04.rule_same, rule_midpoint, rule_sidepair, rule_descent]
