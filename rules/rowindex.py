"""Row-index provenance: an index handed to a per-sample accessor (`weight_for(i)`, `weights[i]`) must be the sample's row
index.  An index produced by `enumerate()` counts positions of the sequence it is applied to; if that sequence was
filtered, skipped, stepped or reversed before, the count is a position in the shortened / reordered sequence and the
accessor returns another sample's value."""
from .facts import walk, strip, peel_refs, pat_bindings, children
from .layout import with_parents

REINDEXING = {"filter", "filter_map", "skip", "skip_while", "step_by", "rev", "flat_map", "flatten", "chain", "take_while_inclusive", "dedup", "peekable_filter"}
NEUTRAL = {"iter", "into_iter", "iter_mut", "axis_iter", "outer_iter", "rows", "genrows", "columns", "zip", "map", "cloned", "copied", "take", "take_while",
           "inspect", "by_ref", "as_targets", "records", "targets", "view", "as_single_targets", "as_multi_targets", "into_par_iter", "par_iter", "enumerate", "peekable", "fuse"}


def _chain(e, inits, depth=0):
    """method names applied from the source up to expression e (receiver chain, through let-bound locals)"""
    e = strip(e)
    names = []
    while isinstance(e, dict):
        k = e.get("k")
        if k == "MethodCall":
            names.append(e["name"])
            e = strip(e["recv"])
            continue
        if k == "Ref" or (k == "Unary" and e["op"] == "*"):
            e = strip(e["e"])
            continue
        if k == "Call" and len(e["args"]) == 1:
            e = strip(e["args"][0])
            continue
        if k == "Path" and e.get("local") in inits and depth < 4:
            names.extend(_chain(inits[e["local"]], inits, depth + 1))
        break
    return names


def enumerate_sources(fn):
    """local -> list of adaptors applied to the sequence *before* the enumerate() that produced the local (as its index)"""
    inits = {}
    for n in walk(fn["body"]):
        if n.get("k") == "LetStmt" and n.get("init") is not None and n["pat"].get("k") == "Bind":
            inits[n["pat"]["local"]] = n["init"]
    out = {}

    def index_binding(pat):
        p = pat
        while p.get("k") == "Ref":
            p = p["pat"]
        if p.get("k") == "Tuple" and len(p["pats"]) == 2:
            bs = list(pat_bindings(p["pats"][0]))
            if len(bs) == 1 and p["pats"][0].get("k") in ("Bind", "Ref"):
                return bs[0]["local"]
        return None

    def before_enumerate(expr):
        """adaptors before the outermost-nearest enumerate in the chain of expr; None if the chain has no enumerate"""
        names = _chain(expr, inits)          # outermost first
        if "enumerate" not in names:
            return None
        i = names.index("enumerate")         # the enumerate nearest to the consumer
        return list(reversed(names[i + 1:])), names[:i]
    for n in walk(fn["body"]):
        if n.get("k") == "Match" and n.get("src") == "ForLoopDesugar" and len(n["arms"]) == 1:
            be = before_enumerate(n["scrut"])
            if be is None:
                continue
            # after the enumerate only index-preserving adaptors may follow for the pattern to be (index, item)
            for x in walk(n["arms"][0]["body"]):
                if x.get("k") == "Match" and x.get("src") == "ForLoopDesugar":
                    for arm in x["arms"]:
                        pp = arm["pat"]
                        sub = pp["pats"][0] if pp.get("k") == "TupleStruct" and pp.get("pats") else (pp["fields"][0]["pat"] if pp.get("k") == "Struct" and pp.get("fields") else None)
                        if sub is not None:
                            loc = index_binding(sub)
                            if loc is not None and all(a in ("filter", "take", "take_while", "inspect", "skip_while", "peekable") for a in be[1]):
                                out[loc] = be[0]
                    break
        if n.get("k") == "MethodCall" and n["args"] and strip(n["args"][-1]).get("k") == "Closure" and n["name"] in ("map", "filter", "for_each", "filter_map", "flat_map", "fold", "any", "all", "find", "inspect", "try_for_each", "par_for_each"):
            be = before_enumerate(n["recv"])
            if be is None:
                continue
            clo = strip(n["args"][-1])
            if not clo["params"]:
                continue
            pat = clo["params"][-1]
            loc = index_binding(pat)
            if loc is not None and all(a in ("filter", "take", "take_while", "inspect", "skip_while", "peekable") for a in be[1]):
                out[loc] = be[0]
    return out


def accessor_sites(fn, names=("weight_for",)):
    """(call node, index local or None) for every per-sample accessor call"""
    for n in walk(fn["body"]):
        if n.get("k") == "MethodCall" and n["name"] in names and len(n["args"]) == 1:
            a = peel_refs(n["args"][0])
            yield n, (a.get("local") if a.get("k") == "Path" else None)


PER_SAMPLE_FIELDS = {"weights", "records", "targets"}


def zip_after_filter(fn):
    """`A.filter(..).zip(B)` (or `B.zip(A.filter(..))`) where B walks a per-sample container of the dataset from its start:
    after the filter the k-th item of A is not sample k any more, so it is paired with another sample's weight / record /
    target.  Returns [(zip node, adaptor, container)]."""
    inits = {}
    for n in walk(fn["body"]):
        if n.get("k") == "LetStmt" and n.get("init") is not None and n["pat"].get("k") == "Bind":
            inits[n["pat"]["local"]] = n["init"]

    def container(e, depth=0):
        """name of the per-sample container an iterator expression walks from the start, else None"""
        e = strip(e)
        hops = 0
        while isinstance(e, dict) and hops < 20:
            hops += 1
            k = e.get("k")
            if k == "MethodCall":
                if e["name"] in ("filter", "filter_map", "skip", "skip_while", "step_by", "rev", "flat_map", "flatten"):
                    return None
                if e["name"] in ("weights", "records", "targets") and peel_refs(e["recv"]).get("name") == "self":
                    return e["name"]
                e = strip(e["recv"])
                continue
            if k == "Ref" or (k == "Unary" and e["op"] == "*"):
                e = strip(e["e"])
                continue
            if k == "Field":
                b = peel_refs(e["e"])
                if e["name"] in PER_SAMPLE_FIELDS and b.get("k") == "Path" and b.get("name") == "self":
                    return e["name"]
                return None
            if k == "Path" and e.get("local") in inits and depth < 3:
                return container(inits[e["local"]], depth + 1)
            return None
        return None
    out = []
    for n in walk(fn["body"]):
        if n.get("k") != "MethodCall" or n["name"] != "zip" or len(n["args"]) != 1:
            continue
        for a, b in ((n["recv"], n["args"][0]), (n["args"][0], n["recv"])):
            ch = _chain(a, inits)
            bad = [x for x in ch if x in REINDEXING]
            cont = container(b)
            if bad and cont:
                # unless the other side is filtered by the same adaptor (then it is a different, unsupported idiom)
                out.append((n, bad[0], cont))
    return out


FULL_WALKS = {"columns", "rows", "genrows", "gencolumns", "axis_iter", "axis_iter_mut", "outer_iter", "outer_iter_mut", "iter", "iter_mut", "into_iter", "lanes", "rows_mut", "columns_mut"}


def filtered_index_zip(fn):
    """`idx.iter().zip(x.columns())` where `idx` is a *filtered* list of positions (`(0..n).filter(..).collect()`) and the other
    side walks a whole container from its start: the k-th surviving position is paired with the k-th element, not with the
    element at that position, as soon as one earlier position was filtered out.  Returns [(zip node, text of the walk)]."""
    inits = {}
    for n in walk(fn["body"]):
        if n.get("k") == "LetStmt" and n.get("init") is not None and n["pat"].get("k") == "Bind":
            inits[n["pat"]["local"]] = n["init"]
    params = set(b["local"] for p_ in fn["params"] for b in pat_bindings(p_))

    def source(e, depth=0):
        """('range-filtered' | 'range' | 'walk:<name>' | None, adaptors) for an iterator expression"""
        e = strip(e)
        names = []
        hops = 0
        while isinstance(e, dict) and hops < 30:
            hops += 1
            k = e.get("k")
            if k == "MethodCall":
                names.append(e["name"])
                e = strip(e["recv"])
                continue
            if k == "Ref" or (k == "Unary" and e["op"] == "*") or k == "Cast":
                e = strip(e["e"])
                continue
            if k == "Call" and len(e["args"]) == 1:
                e = strip(e["args"][0])
                continue
            if k == "Struct" and any(f_["name"] == "start" for f_ in e.get("fields") or []):
                return ("range", names)
            if k == "Path" and e.get("local") in inits and depth < 4:
                kind, more = source(inits[e["local"]], depth + 1)
                return (kind, names + more)
            if k == "Path" and e.get("local") in params:
                walkers = [x for x in names if x in FULL_WALKS]
                return ("walk:" + (e.get("name") or "?"), names) if walkers else (None, names)
            return (None, names)
        return (None, names)
    out = []
    for n in walk(fn["body"]):
        if n.get("k") != "MethodCall" or n["name"] != "zip" or len(n["args"]) != 1:
            continue
        for a, b in ((n["recv"], n["args"][0]), (n["args"][0], n["recv"])):
            ka, na = source(a)
            kb, nb = source(b)
            if ka == "range" and any(x in REINDEXING for x in na) and kb and kb.startswith("walk:") and not any(x in REINDEXING for x in nb):
                out.append((n, kb[5:]))
    return out
