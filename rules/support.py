"""Abstract evaluation of an admission predicate at the non-finite points of the float domain.

A predicate that decides whether a value lies in a set of real numbers (the support of a distribution) is evaluated,
symbolically, at x = +inf, x = -inf and x = NaN: comparisons against anything else have a fixed outcome there, the
classification methods of the float types too.  A predicate that evaluates to true admits a value that is not a real
number at all."""
from .core import RuleResult
from .facts import fn_key, fn_loc, walk, strip, peel_refs, pat_bindings, Render

POINTS = ("+inf", "-inf", "NaN")


def _const_inf(c, e):
    """'+inf' / '-inf' / None for a constant expression"""
    e = peel_refs(e)
    neg = False
    while e.get("k") == "Unary" and e["op"] == "-":
        neg = not neg
        e = peel_refs(e["e"])
    if e.get("k") == "Call" and strip(e["f"]).get("k") == "Path":
        nm = (c.dfn(strip(e["f"]).get("def")) or {}).get("name")
        if nm in ("infinity", "max_value"):
            return "-inf" if neg else "+inf"
        if nm in ("neg_infinity", "min_value"):
            return "+inf" if neg else "-inf"
    if e.get("k") == "Path" and "def" in e:
        nm = (c.dfn(e["def"]) or {}).get("name")
        if nm in ("INFINITY", "MAX"):
            return "-inf" if neg else "+inf"
        if nm in ("NEG_INFINITY", "MIN"):
            return "+inf" if neg else "-inf"
    return None


def evaluate(c, e, x, pt):
    """three-valued value of the boolean expression e when the local x is the point pt; None = unknown"""
    e = peel_refs(e)
    while e.get("k") == "Block" and not e["stmts"] and e.get("e") is not None:
        e = peel_refs(e["e"])
    k = e.get("k")
    if k == "Lit":
        return {"true": True, "false": False}.get(str(e.get("v")))
    if k == "Unary" and e["op"] == "!":
        v = evaluate(c, e["e"], x, pt)
        return None if v is None else not v
    if k == "Binary" and e["op"] in ("&&", "||"):
        a, b = evaluate(c, e["l"], x, pt), evaluate(c, e["r"], x, pt)
        if e["op"] == "&&":
            if a is False or b is False:
                return False
            return True if (a and b) else None
        if a is True or b is True:
            return True
        return False if (a is False and b is False) else None
    if k == "Binary" and e["op"] in ("<", "<=", ">", ">=", "==", "!="):
        lx = peel_refs(e["l"]).get("local") == x and peel_refs(e["l"]).get("k") == "Path"
        rx = peel_refs(e["r"]).get("local") == x and peel_refs(e["r"]).get("k") == "Path"
        if lx == rx:
            return None
        op = e["op"] if lx else {"<": ">", "<=": ">=", ">": "<", ">=": "<=", "==": "==", "!=": "!="}[e["op"]]
        other = e["r"] if lx else e["l"]
        if any(y.get("k") == "Path" and y.get("local") == x for y in walk(other)):
            return None
        if pt == "NaN":
            return op == "!="
        oc = _const_inf(c, other)
        if oc == pt:                      # x compared with the same infinity
            return op in ("<=", ">=", "==")
        # the other side is finite, the opposite infinity, or an unknown bound: a bound is never NaN by assumption, and an
        # unknown bound may be the same infinity only for the non-strict forms, which then agree with the strict outcome
        if pt == "+inf":
            return op in (">", ">=", "!=") if oc is not None or op in (">", ">=", "!=", "<", "==") else None
        return op in ("<", "<=", "!=") if oc is not None or op in ("<", "<=", "!=", ">", "==") else None
    if k == "MethodCall" and peel_refs(e["recv"]).get("k") == "Path" and peel_refs(e["recv"]).get("local") == x and not e["args"]:
        nm = e["name"]
        table = {"is_finite": (False, False, False), "is_infinite": (True, True, False), "is_nan": (False, False, True), "is_normal": (False, False, False),
                 "is_sign_positive": (True, False, None), "is_sign_negative": (False, True, None), "is_positive": (True, False, None), "is_negative": (False, True, None)}
        if nm in table:
            return table[nm][POINTS.index(pt)]
    return None


def admission_sites(fn):
    """(closure, negated) for `.all(closure)` / `!..any(closure)` results returned by the predicate function"""
    out = []
    for y in walk(fn["body"]):
        if y.get("k") == "MethodCall" and y["name"] in ("all", "any") and y["args"] and strip(y["args"][0]).get("k") == "Closure":
            out.append((y, strip(y["args"][0])))
    return out


def make_rule(rid, title, select, floor, what):
    def rule(ctx):
        res = RuleResult(rid, title)
        F = ctx.facts()
        fns = [f for f in F.all_fns() if select(f)]
        if not fns:
            res.missing_anchor(what)
        for fn in fns:
            c = fn["crate"]
            r = Render(c)
            key = fn_key(fn)
            sites = admission_sites(fn)
            if not sites:
                res.instance("%s : predicate" % key)
                res.undecided("%s : form" % key, "the predicate is not an `all(|x| ..)` over the values (fail closed)", fn_loc(fn))
                continue
            for i, (call, clo) in enumerate(sites):
                res.instance("%s : predicate %d `%s`" % (key, i, r.e(clo["body"])[:60]))
                bl = [b["local"] for p_ in clo["params"] for b in pat_bindings(p_)]
                if len(bl) != 1:
                    res.undecided("%s : closure-%d" % (key, i), "closure parameters not recognised (fail closed)", fn_loc(fn, call.get("ln")))
                    continue
                bad = None
                unknown = None
                for pt in POINTS:
                    v = evaluate(c, clo["body"], bl[0], pt)
                    if call["name"] == "any":
                        # `any(bad(x))` is used negated: the value is admitted when the closure is false
                        v = None if v is None else not v
                    if v is True:
                        bad = pt
                        break
                    if v is None:
                        unknown = pt
                if bad:
                    res.violate("%s : non-finite-admitted:%s:%d" % (key, bad, i), "`%s` is true for x = %s: a value that is not a real number is accepted as lying in the support" % (r.e(clo["body"])[:60], bad), fn_loc(fn, call.get("ln")))
                elif unknown:
                    res.undecided("%s : value-at-%s:%d" % (key, unknown, i), "the predicate could not be evaluated at %s (fail closed)" % unknown, fn_loc(fn, call.get("ln")))
                else:
                    res.ok()
        return res.finish(floor)
    return rule
