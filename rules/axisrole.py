"""Axis roles (a dimension-type inference for matrix code).

Every axis of an array has a role: samples, features, tasks.  The roles of a function's parameters are declared in a table
(read off the documented shapes, one line per function); the roles of every other expression follow: `t()` reverses them,
`a.dot(&b)` contracts the last axis of a with the first of b, element-wise arithmetic keeps them, `map_axis(Axis(k), f)` /
`sum_axis(Axis(k))` remove axis k.  Checked:

  * a product contracts two axes of the same role,
  * element-wise `+` / `-` combines arrays whose axes have the same roles in the same order,
  * all the axis-wise reductions of one function that reduce arrays over the same roles remove the same role (the row norms
    of the dual-norm and of the l2,1-norm of one duality gap are both "per feature, over the tasks").

A transposed intermediate result that is then reduced along the axis number that was right before the transposition shows
up as the third kind."""
from .core import RuleResult
from .facts import fn_key, fn_loc, walk, strip, peel_refs, pat_bindings, Render

KEEP = {"view", "view_mut", "to_owned", "clone", "reborrow", "into_owned", "mapv", "mapv_into", "map", "abs", "neg", "as_standard_layout", "to_shared", "unwrap"}


class Roles:
    def __init__(self, fn, table):
        self.fn = fn
        self.c = fn["crate"]
        self.r = Render(self.c)
        self.env = {}
        self.issues = []
        self.reductions = []
        ps = [b for p_ in fn["params"] for b in pat_bindings(p_)]
        for b in ps:
            if b["name"] in table:
                self.env[b["local"]] = tuple(table[b["name"]])
        self.inits = {}
        for y in walk(fn["body"]):
            if y.get("k") == "LetStmt" and y.get("init") is not None and y["pat"].get("k") == "Bind":
                self.inits[y["pat"]["local"]] = y["init"]

    def axis(self, e):
        t = self.r.e(e).replace(" ", "")
        if "Axis(" in t:
            try:
                return int(t.split("Axis(")[-1].split(")")[0])
            except ValueError:
                return None
        return None

    def of(self, e, depth=0):
        e = peel_refs(e)
        if depth > 12 or not isinstance(e, dict):
            return None
        k = e.get("k")
        if k == "Path" and "local" in e:
            if e["local"] in self.env:
                return self.env[e["local"]]
            if e["local"] in self.inits:
                v = self.of(self.inits[e["local"]], depth + 1)
                self.env[e["local"]] = v
                return v
            return None
        if k == "Binary":
            a, b = self.of(e["l"], depth + 1), self.of(e["r"], depth + 1)
            if e["op"] in ("+", "-"):
                if a and b and len(a) == len(b) and a != b:
                    self.issues.append(("elementwise", e, a, b))
                return a or b
            if e["op"] in ("*", "/"):
                return a or b
            return None
        if k == "Unary":
            return self.of(e["e"], depth + 1)
        if k == "MethodCall":
            nm = e["name"]
            rv = self.of(e["recv"], depth + 1)
            if nm in ("t", "reversed_axes"):
                return tuple(reversed(rv)) if rv else None
            if nm in KEEP:
                return rv
            if nm == "dot" and e["args"]:
                b = self.of(e["args"][0], depth + 1)
                if rv and b:
                    if rv[-1] != b[0]:
                        self.issues.append(("dot", e, rv, b))
                    return tuple(rv[:-1]) + tuple(b[1:])
                return None
            if nm in ("map_axis", "sum_axis", "mean_axis", "fold_axis", "var_axis", "std_axis") and e["args"]:
                ax = self.axis(e["args"][0])
                if rv and ax is not None and ax < len(rv):
                    self.reductions.append((e, rv, rv[ax]))
                    return tuple(x for i, x in enumerate(rv) if i != ax)
                return None
            if nm in ("insert_axis",):
                return None
            if nm in ("sum", "norm_max", "norm_l1", "norm_l2", "norm", "len", "nrows", "ncols", "diag"):
                return ()
            return None
        if k == "Block" and e.get("e") is not None:
            return self.of(e["e"], depth + 1)
        return None

    def run(self):
        for y in walk(self.fn["body"]):
            if y.get("k") == "LetStmt" and y.get("init") is not None:
                self.of(y["init"])
            elif y.get("k") in ("Assign", "AssignOp"):
                self.of(y["r"])
        t = strip(self.fn["body"])
        while t.get("k") == "Block" and t.get("e") is not None:
            t = strip(t["e"])
        self.of(t)
        return self


def make_rule(rid, krate, tables, floor, what):
    """tables: {function name: {parameter name: (roles..)}}"""
    def rule(ctx):
        res = RuleResult(rid, "axis roles in %s: products contract axes of one role, sums combine equally oriented arrays, and the axis-wise reductions of one function remove the same role from equally shaped arrays" % what)
        F = ctx.facts()
        n = 0
        for fn in F.all_fns():
            d = fn["d"]
            if d["krate"] != krate or d["name"] not in tables or "tests" in d["path"]:
                continue
            n += 1
            key = fn_key(fn)
            R = Roles(fn, tables[d["name"]]).run()
            res.instance("%s : %d reductions, roles %s" % (key, len(R.reductions), sorted(set("".join(x[0] for x in r_[1]) + "->" + r_[2][0] for r_ in R.reductions))))
            seen = set()
            bad = None
            for kind, node, a, b in R.issues:
                if id(node) in seen:
                    continue
                seen.add(id(node))
                bad = (kind, node, a, b)
                break
            if bad:
                kind, node, a, b = bad
                if kind == "dot":
                    res.violate("%s : product-contracts-different-axes" % key, "`%s` multiplies along the %s axis of the left operand and the %s axis of the right one" % (Render(fn["crate"]).e(node)[:50], a[-1], b[0]), fn_loc(fn, node.get("ln")))
                else:
                    res.violate("%s : sum-of-differently-oriented-arrays" % key, "`%s` combines an array over (%s) with one over (%s)" % (Render(fn["crate"]).e(node)[:50], ", ".join(a), ", ".join(b)), fn_loc(fn, node.get("ln")))
                continue
            groups = {}
            for node, roles, removed in R.reductions:
                groups.setdefault(frozenset(roles), []).append((node, roles, removed))
            bad = None
            for g in groups.values():
                if len(set(x[2] for x in g)) > 1:
                    bad = g
            if bad:
                res.violate("%s : reductions-over-different-axes" % key, "arrays over the same axes are reduced differently: %s - one of the two intermediate results is transposed with respect to the other" % "; ".join("`%s` removes %s from (%s)" % (Render(fn["crate"]).e(x[0])[:40], x[2], ", ".join(x[1])) for x in bad[:2]), fn_loc(fn, bad[-1][0].get("ln")))
            else:
                res.ok()
        if n < floor:
            res.missing_anchor("functions with declared axis roles (found %d)" % n)
        return res.finish(floor)
    return rule
