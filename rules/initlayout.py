"""The start vector of the logistic solvers and layout-fallible operations on the solver's parameter.

`initial_params` is an array the user supplies; an owned array need not have unit stride (`slice_move(s![..;-1])`).  It
reaches the objective functions as the solver's first iterate.  Either it is normalised to the standard layout before it
is handed to the solver, or no objective function may apply an operation that fails for a non-contiguous array
(`into_shape(..).unwrap()`, `as_slice().unwrap()`) to (a view of) the parameter it receives.  Both missing = a panic for
a legal start vector."""
from .core import RuleResult
from .facts import fn_key, fn_loc, walk, strip, peel_refs, pat_bindings, Render

FALLIBLE = {"into_shape", "into_shape_with_order", "as_slice", "as_slice_mut", "into_slice", "as_slice_memory_order", "to_shape"}
NORMALISE = {"as_standard_layout", "into_standard_layout", "to_vec", "from_shape_vec", "from_vec", "from_iter", "collect", "into_raw_vec"}
VIEWING = {"view", "slice", "slice_axis", "index_axis", "slice_move", "t", "reversed_axes", "row", "column", "view_mut", "slice_mut", "reborrow", "clone", "to_owned", "unwrap", "expect"}


def _inits(fn):
    out = {}
    for y in walk(fn["body"]):
        if y.get("k") == "LetStmt" and y.get("init") is not None:
            for b in pat_bindings(y["pat"]):
                out[b["local"]] = y["init"]
    return out


def rooted_in_param(fn, e, inits, params, depth=0):
    """does the array expression e denote (a view / clone of) a parameter of fn, possibly through a helper call that
    returns views of its array arguments?"""
    c = fn["crate"]
    e = peel_refs(e)
    if depth > 8:
        return False
    k = e.get("k")
    if k == "Path" and "local" in e:
        if e["local"] in params:
            return True
        if e["local"] in inits:
            return rooted_in_param(fn, inits[e["local"]], inits, params, depth + 1)
        return False
    if k == "MethodCall" and e["name"] in VIEWING:
        return rooted_in_param(fn, e["recv"], inits, params, depth + 1)
    if k == "Call":
        t = c.ty(e.get("t")) or ""
        if "ViewRepr" in t or "ArrayView" in t or "CowRepr" in t:
            return any(rooted_in_param(fn, a, inits, params, depth + 1) for a in e["args"])
        return False
    if k == "Field":
        return rooted_in_param(fn, e["e"], inits, params, depth + 1)
    return False


def make_rule(rid, krate, setup_name, wrapper_ctor, floor):
    def rule(ctx):
        res = RuleResult(rid, "the user-supplied start vector is normalised to the standard layout before it reaches the solver, or no objective function applies a layout-fallible operation (into_shape / as_slice + unwrap) to the parameter it receives")
        F = ctx.facts()
        setups = [f for f in F.all_fns() if f["d"]["krate"] == krate and f["d"]["name"] == setup_name and "tests" not in f["d"]["path"]]
        if not setups:
            res.missing_anchor("%s::%s" % (krate, setup_name))
            return res.finish(floor)
        normalised = None
        for fn in setups:
            c = fn["crate"]
            r = Render(c)
            key = fn_key(fn)
            res.instance("%s : user array handed to the solver" % key)
            inits = _inits(fn)
            # the binding of `self.initial_params` (if let Some(p) = self.initial_params.as_ref())
            user = set()
            for y in walk(fn["body"]):
                if y.get("k") in ("Let", "LetStmt") and y.get("init") is not None and any(z.get("k") == "Field" and z["name"] == "initial_params" for z in walk(y["init"])):
                    user |= set(b["local"] for b in pat_bindings(y["pat"]))
                if y.get("k") == "Match" and any(z.get("k") == "Field" and z["name"] == "initial_params" for z in walk(y["scrut"])):
                    for arm in y["arms"]:
                        user |= set(b["local"] for b in pat_bindings(arm["pat"]))
            hand = [y for y in walk(fn["body"]) if y.get("k") == "Call" and strip(y["f"]).get("k") == "Path" and (c.dfn(strip(y["f"]).get("def")) or {}).get("name") == wrapper_ctor
                    and y["args"] and any(z.get("k") == "Path" and z.get("local") in user for z in walk(y["args"][0]))]
            if not user or not hand:
                res.undecided("%s : hand-over" % key, "where the user's array is wrapped for the solver was not found (fail closed)", fn_loc(fn))
                continue
            names = set(z["name"] for z in walk(hand[0]["args"][0]) if z.get("k") == "MethodCall") | set((c.dfn(strip(z["f"]).get("def")) or {}).get("name") for z in walk(hand[0]["args"][0]) if z.get("k") == "Call" and strip(z["f"]).get("k") == "Path")
            normalised = bool(names & NORMALISE)
            res.sample({"function": key, "expression": r.e(hand[0]["args"][0])[:80], "normalised": normalised})
            res.ok()
        n_sites = 0
        for fn in F.all_fns():
            d = fn["d"]
            if d["krate"] != krate or "tests" in d["path"] or fn.get("exp"):
                continue
            c = fn["crate"]
            params = set(b["local"] for p_ in fn["params"] for b in pat_bindings(p_))
            inits = _inits(fn)
            for y in walk(fn["body"]):
                if y.get("k") != "MethodCall" or y["name"] not in ("unwrap", "expect"):
                    continue
                rc = peel_refs(y["recv"])
                if rc.get("k") != "MethodCall" or rc["name"] not in FALLIBLE:
                    continue
                dd = c.dfn(rc.get("def")) or {}
                if dd.get("krate") != "ndarray":
                    continue
                n_sites += 1
                key = fn_key(fn)
                rooted = rooted_in_param(fn, rc["recv"], inits, params)
                res.instance("%s : `%s` + %s at line %s (%s)" % (key, rc["name"], y["name"], rc.get("ln"), "on a parameter" if rooted else "on a value computed here"))
                if not rooted or normalised:
                    res.ok()
                elif normalised is None:
                    res.undecided("%s : %s-of-parameter" % (key, rc["name"]), "layout of the start vector unknown (fail closed)", fn_loc(fn, rc.get("ln")))
                else:
                    res.violate("%s : layout-fallible-on-start-vector:%s" % (key, rc["name"]), "`%s(..).%s()` is applied to (a view of) the parameter vector, and the user's `initial_params` reach the solver with their own strides: an owned array with non-unit stride (reversed, every second element) is a legal start vector and panics here" % (rc["name"], y["name"]), fn_loc(fn, rc.get("ln")))
        return res.finish(floor)
    return rule
