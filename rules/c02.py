"""C02 — dataset operations keep record, target, weight and names of a sample together (selector alignment)."""
import re

from . import layout
from .core import RuleResult
from .facts import fn_key, fn_loc, fn_file, walk, strip, peel_refs, pat_bindings, Render
from .sym import Tracer, Term, Tup, Poly, k, as_term, as_poly, walk_terms

LEVEL = ("Static analysis of every dataset operation in linfa's dataset module that builds a dataset (or yields samples): each "
         "output container is traced, through the symbolic value of the expression that builds it, back to the input's five "
         "parallel containers together with the sequence of selection operations applied (select / split_at / slice / "
         "raw-buffer head and tail / index_axis / collapse_axis / in-place axis slicing, normalised to row-space and "
         "column-space selectors). The row selector of the targets must equal that of the records; weights must carry the same "
         "row selector or be the empty array; names must carry the same column selector as their container or be dropped; the "
         "label filter pushes record, target, weight and label counts under one condition; the raw-buffer split of owned data is "
         "dominated by a standard-layout test. Holds for all datasets and all "
         "ratios/indices at once. That the selector itself is the documented one (ceil(ratio*n), a permutation, in-range "
         "indices) is a property of values and is not decided.")
ASSUME = ["rustc resolution/typeck; HIR faithfully dumped", "documented semantics of ndarray's select / split_at / slice / index_axis / collapse_axis and Vec::split_off"]

WRAP = {"new_targets", "new_targets_view", "to_owned", "into_owned", "view", "from", "into_raw_vec", "unwrap", "as_single_targets",
        "reborrow", "to_vec", "clone", "Ok", "Some", "iter", "into_iter", "collect", "into", "view_mut", "as_targets_mut", "expect",
        "copied", "cloned", "into_dimensionality", "as_ref"}
CONTAINERS = ("records", "targets", "weights", "feature_names", "target_names")
ROOT_ALIASES = {"as_targets": "targets", "as_single_targets": "targets", "as_multi_targets": "targets"}


def axis_of(v):
    t = as_term(v)
    if t is not None and t.is_call("Axis") and t.args:
        p = as_poly(t.args[0])
        if p is not None and p.const_value() is not None:
            return p.const_value()
    return k(v)


def is_dataset_base(t):
    """term denoting a dataset whose containers we can name: a parameter, or a `dataset` field of self"""
    kk = k(t)
    return kk.startswith("param:") or kk.startswith("mutated:") or re.match(r"^field:dataset\(param:\w+\)$", kk) is not None


def rows_of(m, fam, base_key):
    """normalise a raw-buffer length to a number of rows of container `fam`"""
    p = as_poly(m)
    if p is None:
        return k(m)
    if fam == "records":
        q = p.divide_by_atom("call:nfeatures(%s)" % base_key)
        if q is not None:
            return q.key()
    if fam == "targets":
        t = p.single_term()
        if t is not None and t.is_call("size") and t.args:
            u = as_term(t.args[0])
            if u is not None and u.is_call("nsamples") and len(u.args) == 2:
                return k(u.args[1])
        q = p.divide_by_atom("call:ntargets(%s)" % base_key)
        if q is not None:
            return q.key()
    return p.key()


def chain(v):
    """(family, base, ops) where ops is the list of selection operations applied on the way from the
    input container to v. family is one of CONTAINERS, 'empty', 'foreign' (caller-supplied) or '?'."""
    ops = []
    raw = []
    for _ in range(60):
        if isinstance(v, Poly):
            v = v.single_term()
        if v is None or isinstance(v, Tup):
            return ("?", None, ops)
        t = v
        if not isinstance(t, Term):
            return ("?", None, ops)
        op = t.op
        if op.startswith("field:") and t.args and op[6:] in CONTAINERS and is_dataset_base(t.args[0]):
            return finish(op[6:], k(t.args[0]), ops, raw)
        if op.startswith("call:") and t.args and op[5:] in CONTAINERS and is_dataset_base(t.args[0]):
            return finish(op[5:], k(t.args[0]), ops, raw)
        if op.startswith("call:") and t.args and op[5:] in ROOT_ALIASES and is_dataset_base(t.args[0]):
            return finish(ROOT_ALIASES[op[5:]], k(t.args[0]), ops, raw)
        if op.startswith("param:") or op.startswith("cparam:"):
            return ("foreign", op, ops)
        name = op[5:] if op.startswith("call:") else (op[4:] if op.startswith("mut:") else None)
        if name == "zeros" or (name == "new" and not t.args) or name == "default":
            return ("empty", None, ops)
        if name in ("select",) and len(t.args) == 3:
            ops.append(("select", axis_of(t.args[1]), k(t.args[2])))
            v = t.args[0]
            continue
        if op.startswith("proj:") and t.args:
            inner = as_term(t.args[0])
            if inner is not None and inner.is_call("split_at") and len(inner.args) == 3:
                ops.append(("first" if op == "proj:0" else "rest", axis_of(inner.args[1]), k(inner.args[2])))
                v = inner.args[0]
                continue
            return ("?", None, ops)
        if name in ("slice", "slice_move", "slice_mut") and len(t.args) == 2:
            s = as_term(t.args[1])
            if s is not None and s.op == "s!" and len(s.args) == 1:
                r = as_term(s.args[0])
                fields = {a.op[1:]: a.args[0] for a in r.args if isinstance(a, Term) and a.op.startswith("=")} if r is not None else {}
                if r is not None and r.op.endswith("RangeTo"):
                    ops.append(("first", 0, k(fields.get("end"))))
                elif r is not None and r.op.endswith("RangeFrom"):
                    ops.append(("rest", 0, k(fields.get("start"))))
                elif r is not None and r.op.endswith("Range"):
                    ops.append(("range", 0, k(fields.get("start")), k(fields.get("end"))))
                else:
                    ops.append(("slice", "?", k(s)))
            else:
                ops.append(("slice", "?", k(t.args[1])))
            v = t.args[0]
            continue
        if op in ("head", "tail") and len(t.args) == 2:
            raw.append((len(ops), t.args[1]))
            ops.append(("first" if op == "head" else "rest", 0, t.args[1]))
            v = t.args[0]
            continue
        if name in ("index_axis", "index_axis_move", "collapse_axis", "index_axis_mut") and len(t.args) == 3:
            ops.append(("index", axis_of(t.args[1]), k(t.args[2])))
            v = t.args[0]
            continue
        if name in ("slice_axis_inplace", "slice_axis", "slice_axis_move") and len(t.args) == 3:
            ops.append(("range", axis_of(t.args[1]), k(t.args[2])))
            v = t.args[0]
            continue
        if name == "from_shape_vec" and len(t.args) == 2:
            v = t.args[1]
            continue
        if name in ("into_shape", "reshape", "insert_axis", "remove_axis") and t.args:
            v = t.args[0]
            continue
        if name in ("map", "mapv", "mapv_into", "map_targets", "mapv_inplace") and t.args:
            v = t.args[0]
            continue
        if (name in WRAP or name in ROOT_ALIASES) and t.args:
            v = t.args[0]
            continue
        if name == "new" and len(t.args) == 1:      # CountedTargets::new(targets), Array::new ..
            v = t.args[0]
            continue
        return ("?", None, ops)
    return ("?", None, ops)


def finish(fam, base, ops, raw):
    out = []
    for i, o in enumerate(ops):
        if o[0] in ("first", "rest") and not isinstance(o[2], str):
            out.append((o[0], o[1], rows_of(o[2], fam, base)))
        else:
            out.append(o)
    out.reverse()
    return (fam, base, out)


def rowops(ops):
    return [o for o in ops if o[1] == 0 or (o[0] == "range" and o[1] != 1)]


def colops(ops):
    return [o for o in ops if o[1] == 1]


def branches(v):
    """alternatives of an if-then-else value"""
    t = as_term(v) if not isinstance(v, Tup) else None
    if t is not None and t.op == "ite" and len(t.args) == 3:
        return branches(t.args[1]) + branches(t.args[2])
    return [v]


def constructions(tr):
    """datasets built in a function: {records, targets, weights?, feature_names?, target_names?, node}"""
    out = []
    by_key = {}
    for e in tr.events:
        if e.kind == "call" and e.name == "new" and e.d and (e.d.get("self_adt") or "").endswith("DatasetBase") and len(e.args) == 2:
            c = {"records": e.args[0], "targets": e.args[1], "node": e.node, "how": "new"}
            out.append(c)
            by_key[k(e.val)] = c
        elif e.kind == "struct" and e.adt.endswith("DatasetBase"):
            c = {"node": e.node, "how": "literal"}
            for f in CONTAINERS:
                if f in e.fields:
                    c[f] = e.fields[f]
            if e.base is not None:
                c["base"] = e.base
            out.append(c)
            by_key[k(e.val)] = c
    for e in tr.events:
        if e.kind == "call" and e.name in ("with_weights", "with_feature_names", "with_target_names") and e.recv is not None and e.args:
            t = as_term(e.recv)
            while t is not None and t.is_call("with_weights", "with_feature_names", "with_target_names") and t.args:
                t = as_term(t.args[0])
            if t is not None and k(t) in by_key:
                by_key[k(t)][e.name[5:]] = e.args[0]
    return out


OPS = ["split_with_ratio", "shuffle", "bootstrap", "bootstrap_samples", "bootstrap_features", "one_vs_all", "map_targets", "view",
       "to_owned", "into_single_target", "with_records", "with_targets", "with_weights", "sample_chunks", "with_labels"]


def rule_align(ctx):
    res = RuleResult("R-C02-align", "in every dataset built by a dataset operation, targets/weights carry the records' row selector and names carry their container's column selector")
    F = ctx.facts()
    fns = [f for f in F.all_fns() if f["d"]["krate"] == "linfa" and fn_file(f).startswith("src/dataset/") and ("DatasetBase<" in f["output"] or "dataset::DatasetBase" in f["output"] or "Item" in f["output"] or f["d"]["name"] == "next")]
    n_constr = 0
    for fn in fns:
        if fn["d"]["name"] in ("fold", "iter_fold", "cross_validate", "cross_validate_single", "predict", "from", "new", "with_labels"):
            continue   # fold/iter_fold: C01; predict: C03; from/new: constructors taking caller-supplied parts
        if fn["d"]["name"] == "next" and (fn["d"].get("self_adt") or "").endswith("DatasetIter"):
            continue   # two-branch column iteration: R-C02-columns (path-sensitive)
        key = fn_key(fn)
        if fn["d"]["name"] == "split_with_ratio":
            key += "[owned]" if "OwnedRepr" in fn["inputs"][0] or fn["inputs"][0].startswith("dataset::DatasetBase<ndarray::ArrayBase<ndarray::OwnedRepr") else "[view]"
        tr = Tracer(fn).run()
        cons = constructions(tr)
        for ci, c in enumerate(cons):
            if "records" not in c or "targets" not in c:
                continue
            n_constr += 1
            inst = "%s : dataset #%d" % (key, ci)
            rf, rb, rops = chain(c["records"])
            tf, tb, tops = chain(c["targets"])
            if rf == "foreign" or tf == "foreign":
                res.instance(inst + " (caller-supplied part)")
                res.ok()
                continue
            res.instance(inst)
            loc = fn_loc(fn, c["node"].get("ln"))
            if rf != "records" or tf != "targets":
                res.undecided("%s : provenance" % inst, "cannot trace the output's records/targets back to the input's records/targets (records <- %s, targets <- %s): a container was swapped or an unknown idiom is used (fail closed)" % (rf, tf), loc)
                continue
            if rowops(rops) != rowops(tops):
                res.violate("%s : rows-records-vs-targets" % inst,
                            "records are selected with %s but targets with %s: records and targets of the output belong to different samples" % (rowops(rops), rowops(tops)), loc)
                continue
            res.ok()
            res.sample({"dataset": inst, "row_selector": [str(o) for o in rowops(rops)] or "identity", "col_selector": [str(o) for o in colops(rops)] or "identity"})
            # weights
            if "weights" in c:
                res.instance(inst + " weights")
                bad = None
                unknown_w = False
                for b in branches(c["weights"]):
                    wf, wb, wops = chain(b)
                    if wf in ("empty", "foreign"):
                        continue
                    if wf == "?":
                        # where the weights come from was not traced (a helper that hands back both parts, an Option with a
                        # fallback): nothing was learnt, which is not evidence of a misalignment
                        unknown_w = True
                    elif wf != "weights":
                        bad = "weights come from `%s`" % wf
                    elif rowops(wops) != rowops(rops):
                        bad = "records are selected with %s but weights with %s" % (rowops(rops), rowops(wops) or "nothing (all input weights)")
                if bad:
                    res.violate("%s : weights" % inst, "%s: the output's weights are not the weights of its samples" % bad, loc)
                elif unknown_w:
                    res.undecided("%s : weights-provenance" % inst, "the origin of the output's weights was not traced (fail closed)", loc)
                else:
                    res.ok()
            # names
            for nm, fam, ops in (("feature_names", "records", rops), ("target_names", "targets", tops)):
                if nm in c:
                    res.instance(inst + " " + nm)
                    bad = None
                    for b in branches(c[nm]):
                        nf, nb, nops = chain(b)
                        if nf in ("empty", "foreign"):
                            continue
                        if nf != nm:
                            bad = "%s come from `%s`" % (nm, nf)
                        else:
                            want = [(o[0], o[2]) for o in colops(ops)]
                            got = [(o[0], o[2]) for o in nops if o[0] in ("select", "index")]
                            if want != got:
                                bad = "%s columns are selected with %s but %s with %s" % (fam, want or "nothing", nm, got or "nothing")
                    if bad:
                        res.violate("%s : %s" % (inst, nm), "%s: names are attached to the wrong columns" % bad, loc)
                    else:
                        res.ok()
        # iterators yielding (record, target) tuples
        if fn["d"]["name"] == "next" and (fn["d"].get("self_adt") or "").endswith("Iter") and not (fn["d"].get("self_adt") or "").endswith("DatasetIter") and not (fn["d"].get("self_adt") or "").endswith("ChunksIter"):
            rv = as_term(tr.result)
            if rv is not None and rv.is_call("Some") and isinstance(rv.args[0], Tup) and len(rv.args[0].items) == 2:
                a, b = rv.args[0].items
                n_constr += 1
                inst = "%s : yielded (record, target)" % key
                res.instance(inst)

                def fam_ops(v):
                    t = as_term(v)
                    ops = []
                    while t is not None and t.op.startswith("call:") and t.name in ("index_axis_move", "index_axis") and len(t.args) == 3:
                        ops.append(("index", axis_of(t.args[1]), k(t.args[2])))
                        t = as_term(t.args[0])
                    while t is not None and t.op.startswith("call:") and t.name in WRAP and t.args:
                        t = as_term(t.args[0])
                    fam = t.op[6:] if t is not None and t.op.startswith("field:") else "?"
                    return fam, ops
                fa, oa = fam_ops(a)
                fb, ob = fam_ops(b)
                if fa == "records" and fb == "targets" and oa == ob and oa:
                    res.ok()
                    res.sample({"iterator": inst, "selector": [str(o) for o in oa]})
                else:
                    res.violate("%s : pairing" % inst, "the yielded record (%s %s) and target (%s %s) are not selected with the same row index" % (fa, oa, fb, ob), fn_loc(fn))
    res.info.append("%d dataset constructions / sample pairs analysed" % n_constr)
    return res.finish(20)


def rule_filter(ctx):
    res = RuleResult("R-C02-filter", "with_labels pushes record, target, weight and label counts of a sample under one and the same condition, from one and the same iteration")
    F = ctx.facts()
    fns = [f for f in F.find_fns(name="with_labels", krate="linfa") if fn_file(f).startswith("src/dataset/")]
    if not fns:
        res.missing_anchor("DatasetBase::with_labels")
    for fn in fns:
        key = fn_key(fn)
        tr = Tracer(fn).run()
        pushes = [e for e in tr.events if e.kind == "call" and e.name == "push" and e.loops]
        counts = [e for e in tr.events if e.kind == "assignop" and e.loops and e.op == "+"]
        if len(pushes) < 3:
            res.undecided("%s : pushes" % key, "expected pushes of record, target and weight inside the filter loop, found %d" % len(pushes), fn_loc(fn))
            continue
        first_guard = lambda e: e.guards[0][1] if e.guards else None
        g0 = first_guard(pushes[0])
        for e in pushes + counts[:1]:
            what = e.node["recv"]["name"] if e.kind == "call" and peel_refs(e.node["recv"]).get("k") == "Path" else ("label count" if e.kind == "assignop" else "?")
            what = peel_refs(e.node["recv"]).get("name", "?") if e.kind == "call" else "label count"
            res.instance("%s : `%s` updated under `%s`" % (key, what, (first_guard(e) or "")[:50]))
            if g0 is not None and first_guard(e) == g0:
                res.ok()
            else:
                res.violate("%s : filter-condition:%s" % (key, what), "`%s` is updated under a different condition than the records (%s vs %s): the kept samples lose their own target/weight/count" % (what, first_guard(e), g0), fn_loc(fn, e.node["ln"]))
        # pushed values come from the same iteration: loop variables (r, t) and weight[i] with i the enumerate counter
        for e in pushes:
            v = k(e.args[0]) if e.args else ""
            what = peel_refs(e.node["recv"]).get("name", "?")
            res.instance("%s : `%s` receives %s" % (key, what, v[:40]))
            t = as_term(e.args[0]) if e.args else None
            own = t is not None and (t.op.startswith("loopvar:") or (t.op == "index" and len(t.args) == 2 and as_term(t.args[1]) is not None and as_term(t.args[1]).op.startswith("loopvar:")))
            if own:
                res.ok()
            else:
                res.violate("%s : pushed-value:%s" % (key, what), "`%s` receives `%s`, which is not an element of the current iteration" % (what, v[:60]), fn_loc(fn, e.node["ln"]))
        # the counts stored with the targets are the ones accumulated in this loop
        lits = [e for e in tr.events if e.kind == "struct" and e.adt.endswith("CountedTargets")]
        res.instance("%s : CountedTargets.labels is the map filled in the filter loop" % key)
        if lits and counts and "labels" in lits[0].fields:
            res.ok()
        else:
            res.undecided("%s : counts-not-stored" % key, "no CountedTargets literal fed by the counts of this loop in this function (assembled elsewhere? fail closed)", fn_loc(fn))
    return res.finish(8)


def rule_columns(ctx):
    res = RuleResult("R-C02-columns", "per-feature / per-target iteration attaches the name with the same index as the collapsed column, to the same container")
    F = ctx.facts()
    fns = [f for f in F.find_fns(name="next", krate="linfa") if (f["d"].get("self_adt") or "").endswith("DatasetIter")]
    if not fns:
        res.missing_anchor("<DatasetIter as Iterator>::next")
    for fn in fns:
        key = fn_key(fn)
        tr = Tracer(fn).run()
        found = 0
        gk = lambda e: tuple((g[0], g[1]) for g in e.guards)
        cols = [e for e in tr.events if e.kind == "call" and e.name == "collapse_axis" and len(e.args) == 2]
        # name look-ups: `names[i]`, `names.get(i)`
        looks = []
        for e in tr.events:
            if e.kind == "index" and "_names" in k(e.base):
                looks.append((e, k(e.base), e.idx))
            elif e.kind == "call" and e.name in ("get", "get_unchecked", "nth") and e.recv is not None and "_names" in k(e.recv) and e.args:
                looks.append((e, k(e.recv), e.args[0]))
        for col in cols:
            cont = "records" if "records" in k(col.recv) else ("targets" if "targets" in k(col.recv) else None)
            if cont is None:
                continue
            found += 1
            ax = axis_of(col.args[0])
            idx = col.args[1]
            want = {"records": "feature_names", "targets": "target_names"}[cont]
            inst = "%s : %s.collapse_axis(Axis(%s), %s)" % (key, cont, ax, k(idx)[:40])
            res.instance(inst)
            bad = None
            if ax != 1:
                bad = "the collapsed axis is %s, not the column axis" % ax
            mine = [l for l in looks if gk(l[0])[:len(gk(col))] == gk(col)]
            for e, base, i in mine:
                if want not in base:
                    bad = "a name of `%s` is looked up while `%s` is collapsed" % ("feature_names" if "feature_names" in base else "target_names", cont)
                elif k(i) != k(idx):
                    bad = "column `%s` is kept but the name at index `%s` is attached" % (k(idx)[:50], k(i)[:50])
            if bad:
                res.violate("%s : %s-names" % (key, cont), bad, fn_loc(fn, col.node["ln"]))
            else:
                res.ok()
                res.sample({"site": inst, "name_lookups": [k(i)[:40] for _, _, i in mine]})
        if found < 2:
            res.missing_anchor("the two collapse_axis branches of DatasetIter::next (found %d)" % found)
    return res.finish(2)


RAW_UNCHECKED = {"into_raw_vec", "as_slice_memory_order", "as_slice_memory_order_mut", "as_ptr", "as_mut_ptr", "into_raw_vec_and_offset"}


def rule_layout(ctx):
    res = RuleResult("R-C02-layout", "a dataset container's raw buffer is cut by row arithmetic only after a row-major (standard layout) check of that container")
    F = ctx.facts()
    fns = [f for f in F.all_fns() if f["d"]["krate"] == "linfa" and fn_file(f).startswith("src/dataset/")]
    for fn in fns:
        c = fn["crate"]
        r = Render(c)
        key = fn_key(fn)
        tr = None
        for n in walk(fn["body"]):
            if n.get("k") != "MethodCall" or n["name"] not in RAW_UNCHECKED:
                continue
            recv = peel_refs(n["recv"])
            if recv.get("k") != "Field" or recv["name"] not in ("records", "targets", "weights"):
                continue
            cont = recv["name"]
            inst = "%s : raw buffer of `%s` via %s" % (key, cont, n["name"])
            res.instance(inst)
            if tr is None:
                tr = Tracer(fn).run()
            # a diverging assertion `self.<cont>.is_standard_layout()` earlier in the function
            ok = False
            for m in walk(fn["body"]):
                if m.get("k") == "If" and m["ln"] <= n["ln"]:
                    cond = r.e(m["c"])
                    diverges = any(x.get("k") == "Call" and (c.dfn(strip(x["f"]).get("def")) or {}).get("name") in ("panic", "panic_fmt", "panic_display", "begin_panic", "assert_failed") for x in walk(m["then"]))
                    if diverges and ("!self.%s.is_standard_layout()" % cont) in cond.replace(" ", ""):
                        ok = True
            if ok:
                res.ok()
                res.sample({"site": inst, "guard": "assert!(self.%s.is_standard_layout())" % cont})
            else:
                res.violate("%s : raw-buffer-without-layout-check:%s" % (key, cont), "the raw buffer of `%s` is taken with `%s` (which accepts any contiguous layout) without a dominating `is_standard_layout()` assertion: for column-major or reversed data the row arithmetic that follows tears samples apart" % (cont, n["name"]), fn_loc(fn, n["ln"]))
    # since fix c9b4a5a the owned split takes its elements in logical order: no raw buffer of a container is cut any more.
    # The rule then has nothing to discharge; what it scanned is its evidence.
    res.instance("dataset functions scanned for raw-buffer cuts of records / targets / weights: %d" % len(fns))
    res.ok()
    if len(fns) < 40:
        res.missing_anchor("the functions of src/dataset (found %d)" % len(fns))
    return res.finish(1)


def _fields(t):
    """{name: value} of a `struct:` term"""
    t = as_term(t)
    if t is None or not t.op.startswith("struct:"):
        return None
    return dict((a.op[1:], a.args[0]) for a in t.args if isinstance(a, Term) and a.op.startswith("=") and a.args)


def _extent_kind(v):
    """'rows' / 'cols' when v is exactly one extent of the dataset (coefficient 1, no offset), else None"""
    pv = as_poly(v)
    if pv is None:
        return None
    atoms = pv.atoms()
    if len(atoms) != 1 or pv.t.get((), 0) != 0 or list(pv.t.values()) != [1]:
        return None
    a = list(atoms)[0]
    if "call:nsamples(" in a or "call:nrows(" in a:
        return "rows"
    if "call:nfeatures(" in a or "call:ncols(" in a:
        return "cols"
    return None


def index_domain(idx):
    """(kind, extent value, description) of an index vector term: a permutation of, or draws from, the half-open range 0..E"""
    t = as_term(idx)
    how = None
    if t is not None and t.op == "mut:shuffle" and t.args:
        how = "permutation"
        t = as_term(t.args[0])
    if t is None or not t.is_call("collect") or not t.args:
        return None, None, "index vector is not collected from a range"
    src = as_term(t.args[0])
    if src is not None and src.is_call("map") and len(src.args) == 2 and how is None:
        clo = as_term(src.args[1])
        cnt = _fields(src.args[0])
        if clo is None or not clo.op.startswith("closure#") or not clo.args or cnt is None:
            return None, None, "unrecognised index generator"
        g = as_term(clo.args[0])
        if g is None or not g.is_call("gen_range") or len(g.args) != 2:
            return None, None, "index generator is not rng.gen_range(range)"
        rng_t = as_term(g.args[1])
        if rng_t is not None and rng_t.is_call("new") and len(rng_t.args) == 2 and "RangeInclusive" in ((rng_t.d or {}).get("path") or ""):
            return "wrong", None, "draws from the inclusive range %s..=%s: the upper bound itself is drawn, and it is not an index" % (k(rng_t.args[0]), k(rng_t.args[1]))
        if rng_t is None or rng_t.op != "struct:std::ops::Range":
            return None, None, "gen_range is not given a half-open `a..b` range (%s)" % (rng_t.op if rng_t is not None else "?")
        f = _fields(rng_t)
        if k(f.get("start")) != "0":
            if re.match(r"^\d+$", k(f.get("start")) or ""):
                return "wrong", None, "draws start at %s, not at 0: the first %s indices can never be drawn" % (k(f.get("start")), k(f.get("start")))
            return None, None, "draws start at %s, not at 0" % k(f.get("start"))
        return "draws", f.get("end"), "draws from 0..%s" % k(f.get("end"))
    if src is not None and src.is_call("new") and len(src.args) == 2 and "RangeInclusive" in ((src.d or {}).get("path") or ""):
        return "wrong", None, "the index range %s..=%s includes its upper bound, which is not an index" % (k(src.args[0]), k(src.args[1]))
    if src is not None and src.op == "struct:std::ops::Range":
        f = _fields(src)
        if k(f.get("start")) != "0":
            if re.match(r"^\d+$", k(f.get("start")) or ""):
                return "wrong", None, "the index range starts at %s, not at 0: the first %s samples are never selected" % (k(f.get("start")), k(f.get("start")))
            return None, None, "the index range starts at %s, not at 0" % k(f.get("start"))
        return how or "identity", f.get("end"), "%s of 0..%s" % (how or "identity", k(f.get("end")))
    return None, None, "index source `%s` is not a half-open range from 0" % (src.op if src is not None else "?")


def rule_domain(ctx):
    """'shuffle returns a permutation of all samples', 'bootstrap draws only existing samples and features', 'a ratio split
    gives the first ceil(ratio*n) samples (the product taken in single precision)': the index vectors handed to select() and
    the split point are read off the symbolic values."""
    res = RuleResult("R-C02-domain", "every index vector handed to select(Axis(a), ..) is a permutation of / draws from exactly 0..extent(a); the ratio split point is ceil(nsamples as f32 * ratio)")
    F = ctx.facts()
    fns = [f for f in F.all_fns() if f["d"]["krate"] == "linfa" and fn_file(f).startswith("src/dataset/") and (f["d"].get("self_adt") or "").endswith("DatasetBase")]
    n_sel = 0
    for fn in fns:
        if not any(x.get("k") == "MethodCall" and x["name"] == "select" for x in walk(fn["body"])):
            continue
        key = fn_key(fn)
        tr = Tracer(fn).run()
        i = 0
        for e in tr.events:
            if e.kind != "call" or e.name != "select" or len(e.args) != 2:
                continue
            i += 1
            n_sel += 1
            ax = axis_of(e.args[0])
            inst = "%s : select #%d along axis %s" % (key, i, ax)
            res.instance(inst)
            kind, ext, desc = index_domain(e.args[1])
            want = {0: "rows", 1: "cols"}.get(ax)
            got = _extent_kind(ext) if ext is not None else None
            if kind == "wrong":
                res.violate("%s : index-source:#%d" % (key, i), "select #%d along axis %s: %s" % (i, ax, desc), fn_loc(fn, e.node["ln"]))
            elif kind is None:
                res.undecided("%s : index-source:#%d" % (key, i), "select #%d along axis %s: %s" % (i, ax, desc), fn_loc(fn, e.node["ln"]))
            elif got != want or want is None:
                res.violate("%s : index-domain:#%d" % (key, i), "select #%d along axis %s takes %s; the axis has extent %s, so an existing %s can be unreachable or a non-existing one be drawn" % (i, ax, desc, {"rows": "nsamples", "cols": "nfeatures"}.get(want, "?"), "sample" if want == "rows" else "feature"), fn_loc(fn, e.node["ln"]))
            elif fn["d"]["name"] == "shuffle" and kind != "permutation":
                res.violate("%s : not-a-permutation:#%d" % (key, i), "shuffle selects with %s, which is not a shuffled copy of all row indices" % desc, fn_loc(fn, e.node["ln"]))
            else:
                res.ok()
                res.sample({"site": inst, "indices": desc})
    if n_sel < 8:
        res.missing_anchor("select() sites of shuffle / bootstrap* (expected 8, found %d)" % n_sel)
    # ratio split point
    for fn in [f for f in fns if f["d"]["name"] == "split_with_ratio"]:
        key = fn_key(fn) + ("#owned" if any(x.get("k") == "MethodCall" and x["name"] == "split_off" for x in walk(fn["body"])) else "#view")
        c = fn["crate"]
        tr = Tracer(fn).run()
        res.instance("%s : split point" % key)
        rounders = [e for e in tr.events if e.kind == "call" and e.name in ("ceil", "floor", "round", "trunc") and e.method]
        cuts = [e for e in tr.events if e.kind == "call" and e.name in ("split_at", "split_off")]
        if not rounders or not cuts:
            res.undecided("%s : split-point-form" % key, "expected a rounding of nsamples*ratio feeding the cuts (found %d roundings, %d cuts)" % (len(rounders), len(cuts)), fn_loc(fn))
            continue
        bad = None
        for e in rounders:
            prod = as_poly(e.recv)
            okprod = prod is not None and len(prod.t) == 1 and list(prod.t.values()) == [1] and sorted(len(m) for m in prod.t) == [2] and any("call:nsamples(param:self)" == a for a in prod.atoms()) and any(a == "param:ratio" for a in prod.atoms())
            rty = c.ty(e.node["recv"].get("t")) or ""
            if e.name != "ceil":
                bad = ("split-point-rounding", "the split point is `%s(nsamples*ratio)`; the documented split gives the first ceil(ratio*n) samples" % e.name, e.node["ln"])
            elif not okprod:
                bad = ("split-point-product", "the rounded quantity is `%s`, not nsamples*ratio" % k(e.recv)[:80], e.node["ln"])
            elif rty != "f32":
                bad = ("split-point-precision", "the product is taken in %s; the documented split takes it in single precision (ceil can differ by one row)" % rty, e.node["ln"])
        vals = set(k(e.val) for e in rounders)
        if bad is None and not all(any(v in k(x.args[-1]) for v in vals) for x in cuts):
            bad = ("split-point-unused", "a cut does not use the rounded split point", cuts[0].node["ln"])
        if bad:
            res.violate("%s : %s" % (key, bad[0]), bad[1], fn_loc(fn, bad[2]))
        else:
            res.ok()
            res.sample({"fn": key, "split_point": "ceil(nsamples as f32 * ratio)"})
    return res.finish(10)


def rule_memorder(ctx):
    """every other raw-buffer access in the dataset code (label counting, target access, iterators)"""
    res = RuleResult("R-C02-memorder", "raw memory-order buffers (as_slice_memory_order, into_raw_vec, as_ptr) of dataset containers and label arrays are used by position only behind an is_standard_layout() test")
    F = ctx.facts()
    fns = [f for f in F.all_fns() if f["d"]["krate"] == "linfa" and (fn_file(f).startswith("src/dataset/") or fn_file(f).startswith("src/composing/"))]
    if not fns:
        res.missing_anchor("dataset functions of crate linfa")
    n = layout.apply(res, fns, "crate linfa, src/dataset and src/composing")
    if n == 0:
        res.undecided("matcher-control", "the raw-buffer matcher recognises nothing in crate linfa, where into_raw_vec is known to be used (the rule would pass vacuously)", "src/dataset/impl_dataset.rs")
    else:
        res.ok()
    return res.finish(2)


def rule_extent(ctx):
    """Records::nsamples / nfeatures of an array are the extents of axis 0 / axis 1 on every path - also for an array
    with zero rows (a (0, k) matrix has k features: the empty part of a split keeps its feature names)."""
    res = RuleResult("R-C02-extent", "Records::nsamples and Records::nfeatures of ArrayBase are axis extents (axis 0 / axis 1) on every path")
    F = ctx.facts()
    found = 0
    for fn in F.all_fns():
        d = fn["d"]
        if d["krate"] != "linfa" or d["name"] not in ("nsamples", "nfeatures") or not (d.get("trait") or "").endswith("Records") or "ArrayBase" not in (d.get("self_ty") or d.get("self_adt") or ""):
            continue
        found += 1
        key = fn_key(fn)
        axis = "0" if d["name"] == "nsamples" else "1"
        c = fn["crate"]
        res.instance("%s : extent of axis %s" % (key, axis))

        def is_extent(e):
            e = peel_refs(e)
            kk = e.get("k")
            if kk == "MethodCall":
                if e["name"] == "len_of" and len(e["args"]) == 1:
                    a = peel_refs(e["args"][0])
                    return a.get("k") == "Call" and a["args"] and peel_refs(a["args"][0]).get("v") == axis
                if e["name"] == ("nrows" if axis == "0" else "ncols") and not e["args"]:
                    return True
            if kk == "Index":
                b, i = peel_refs(e["e"]), peel_refs(e["i"])
                return b.get("k") == "MethodCall" and b["name"] in ("shape", "raw_dim") and i.get("v") == axis
            if kk == "Field" and e["name"] == axis:
                b = peel_refs(e["e"])
                return b.get("k") == "MethodCall" and b["name"] == "dim"
            return False

        def tails(e):
            """value expressions of all paths"""
            e = strip(e)
            kk = e.get("k")
            if kk == "Block":
                out = []
                for x in walk(e):
                    if x.get("k") == "Ret" and x.get("e") is not None:
                        out += tails(x["e"])
                return out + (tails(e["e"]) if e.get("e") is not None else [])
            if kk == "If":
                return tails(e["then"]) + (tails(e["else"]) if e.get("else") is not None else [])
            if kk == "Match":
                out = []
                for a in e["arms"]:
                    out += tails(a["body"])
                return out
            return [e]
        ts = tails(fn["body"])
        bad = [t for t in ts if not is_extent(t)]
        if not ts:
            res.undecided("%s : no-value" % key, "no value expression found", fn_loc(fn))
        elif bad:
            r = Render(c)
            lits = [t for t in bad if peel_refs(t).get("k") == "Lit"]
            if lits or any(x.get("k") == "Binary" for t in bad for x in walk(t)):
                res.violate("%s : not-an-axis-extent" % key, "`%s` returns `%s` on some path instead of the extent of axis %s: for an array without rows (or with more than two axes) the count differs from the shape, and names / column selections attached to it no longer fit" % (d["name"], r.e(bad[0])[:60], axis), fn_loc(fn, bad[0].get("ln")))
            else:
                res.undecided("%s : extent-form" % key, "value `%s` not recognised as an axis extent" % r.e(bad[0])[:60], fn_loc(fn, bad[0].get("ln")))
        else:
            res.ok()
    if found < 2:
        res.missing_anchor("Records::nsamples / nfeatures for ArrayBase (found %d)" % found)
    return res.finish(2)


def rule_counted(ctx):
    """CountedTargets caches the label counts of the targets it wraps; the cache is right by construction only when it is
    computed from those targets (CountedTargets::new counts them).  A literal that fills the cache from anything else lets
    cache and targets disagree."""
    res = RuleResult("R-C02-counted", "CountedTargets values are built by CountedTargets::new (or with label counts computed from the very targets they wrap)")
    F = ctx.facts()
    n_lit = 0
    news = 0
    for fn in F.all_fns():
        if fn["d"]["krate"] != "linfa":
            continue
        c = fn["crate"]
        own = (fn["d"].get("self_adt") or "").endswith("CountedTargets")
        for n in walk(fn["body"]):
            if n.get("k") == "Call":
                f = strip(n["f"])
                d = c.dfn(f.get("def")) if f.get("k") == "Path" else None
                if d and d["name"] == "new" and "CountedTargets" in (d.get("path") or ""):
                    news += 1
            if n.get("k") != "Struct" or not (c.dfn(n.get("def")) or {}).get("path", "").endswith("CountedTargets"):
                continue
            n_lit += 1
            key = fn_key(fn)
            res.instance("%s : CountedTargets literal" % key)
            fields = {f_["name"]: f_["e"] for f_ in n["fields"]}
            tl = peel_refs(fields.get("targets") or {})
            lab = fields.get("labels")
            counted = False
            if lab is not None:
                inits = {}
                for y in walk(fn["body"]):
                    if y.get("k") == "LetStmt" and y.get("init") is not None and y["pat"].get("k") == "Bind":
                        inits[y["pat"]["local"]] = y["init"]
                e = lab
                hops = 0
                while peel_refs(e).get("k") == "Path" and peel_refs(e).get("local") in inits and hops < 3:
                    e = inits[peel_refs(e)["local"]]
                    hops += 1
                for y in walk(e):
                    if y.get("k") == "MethodCall" and y["name"] == "label_count" and (peel_refs(y["recv"]).get("local") == tl.get("local") or own):
                        counted = True
                # ... or counted in this function: the map handed over is incremented (`*m.entry(l).or_insert(0) += 1`) while
                # the kept targets are collected
                roots = set(y["local"] for y in walk(lab) if y.get("k") == "Path" and "local" in y)
                for y in walk(fn["body"]):
                    if y.get("k") == "AssignOp" and y["op"] == "+":
                        for z in walk(y["l"]):
                            if z.get("k") == "Path" and z.get("local") in roots:
                                counted = True
                        # the root is the result of a fold / for_each whose closure does the counting: `fold(vec![HashMap::new(); n], |mut maps, ..| { .. += 1; maps })`
                        for rl_ in roots:
                            if rl_ in inits and any(w is y for w in walk(inits[rl_])):
                                counted = True
                        # through `for (map, val) in maps.iter_mut().zip(..)`: the incremented binding iterates over the root
                        for z in walk(fn["body"]):
                            if z.get("k") == "Match" and z.get("src") == "ForLoopDesugar" and any(w is y for w in walk(z)) and any(w.get("k") == "Path" and w.get("local") in roots for w in walk(z["scrut"])):
                                counted = True
            if own:
                counted = True      # the type's own impls (new, clone, conversions) maintain the cache by definition
            # a cache counted by increments is right only if the maps start empty: keys present before the counting
            # loop (one per *requested* label, say) stay in the cache with whatever count they were given, and
            # labels() / one_vs_all() report labels that no kept sample carries
            preseed = None
            if counted and not own and lab is not None:
                for rl in roots:
                    e0, hops = inits.get(rl), 0
                    seen_l = set([rl])
                    stack = [e0] if e0 is not None else []
                    while stack and hops < 6:
                        hops += 1
                        e1 = stack.pop()
                        for y in walk(e1):
                            if y.get("k") == "MethodCall" and y["name"] in ("collect", "insert", "extend", "from_iter"):
                                # only what builds the *map*: a collect into a HashMap, an insert / extend on one
                                ty_ = (c.ty(y.get("t")) or "") if y["name"] in ("collect", "from_iter") else (c.ty(peel_refs(y["recv"]).get("t")) or "")
                                if "HashMap<" in ty_ and "Vec<" not in ty_.split("HashMap<")[0]:
                                    preseed = y
                            if y.get("k") == "Path" and y.get("local") in inits and y["local"] not in seen_l:
                                seen_l.add(y["local"])
                                stack.append(inits[y["local"]])
            if preseed is not None:
                res.violate("%s : counted-map-preseeded" % key, "the label-count maps handed to CountedTargets do not start empty (`%s` before the counting loop): labels inserted up front stay in the cache - with a count no sample accounts for - and labels() / one_vs_all() on the result report labels that no kept sample carries" % Render(c).e(preseed)[:70], fn_loc(fn, preseed.get("ln")))
            elif counted:
                res.ok()
            else:
                # positive evidence of a forged cache: it is taken from *another* container's counts (`label_count()` / a
                # `.labels` field of something that is not the wrapped targets).  A cache assembled by hand from counters
                # of the same pass may well be right: that is not decided here.
                foreign = None
                for y in walk(fn["body"]):
                    if y.get("k") == "MethodCall" and y["name"] == "label_count" and peel_refs(y["recv"]).get("local") != tl.get("local"):
                        foreign = "`%s`" % Render(c).e(y)[:50]
                    if y.get("k") == "Field" and y["name"] == "labels" and "CountedTargets" in (c.ty(peel_refs(y["e"]).get("t")) or ""):
                        foreign = "`%s`" % Render(c).e(y)[:50]
                # ... or from `label_frequencies()`, which sums *weights* per label: a number of samples only for unit weights
                if not foreign and lab is not None:
                    seen_f, stack_f = set(), [lab]
                    while stack_f and len(seen_f) < 40:
                        e_f = stack_f.pop()
                        for y in walk(e_f):
                            if y.get("k") == "MethodCall" and y["name"] == "label_frequencies":
                                foreign = "`%s` (per-label sums of the sample weights, not numbers of samples)" % Render(c).e(y)[:40]
                            if y.get("k") == "Path" and y.get("local") in inits and y["local"] not in seen_f:
                                seen_f.add(y["local"])
                                stack_f.append(inits[y["local"]])
                            # a map filled by `m.insert(k, v)` statements: what is inserted is part of its value
                            if y.get("k") == "Path" and "local" in y:
                                for z in walk(fn["body"]):
                                    if z.get("k") == "MethodCall" and z["name"] in ("insert", "push", "extend") and peel_refs(z["recv"]).get("local") == y["local"] and id(z) not in seen_f:
                                        seen_f.add(id(z))
                                        stack_f.extend(z["args"])
                if foreign:
                    res.violate("%s : counted-targets-forged" % key, "a CountedTargets value is built with a `labels` cache derived from %s, the counts of another container, not from the targets it wraps: the cached counts can disagree with the targets" % foreign, fn_loc(fn, n["ln"]))
                else:
                    res.undecided("%s : counted-cache-provenance" % key, "a CountedTargets literal whose `labels` cache is assembled by hand; whether it equals a recount of the wrapped targets is not decided", fn_loc(fn, n["ln"]))
    res.instance("crate linfa: %d CountedTargets literals, %d CountedTargets::new calls" % (n_lit, news))
    if n_lit or news:
        res.ok()
    else:
        res.missing_anchor("constructions of CountedTargets")
    return res.finish(1)


def _grown_in_loop(fn, search, local):
    """the append to `local` that shares a loop with the binary search `search` (and no sort of `local` in that loop)"""
    from .layout import with_parents
    for n, anc in with_parents(fn["body"]):
        if n is not search:
            continue
        for a in reversed(anc):
            if a.get("k") != "Loop":
                continue
            grow = None
            resorted = False
            for y in walk(a):
                if y.get("k") == "MethodCall":
                    t = peel_refs(y["recv"])
                    if t.get("k") == "Path" and t.get("local") == local:
                        if y["name"] in ("push", "extend", "append", "extend_from_slice", "push_back", "push_front"):
                            grow = grow or y
                        elif y["name"].startswith("sort") or y["name"] == "dedup":
                            resorted = True
            if grow is not None and not resorted:
                return grow
        return None
    return None


def rule_search(ctx):
    """A membership test decides which samples a label filter keeps.  `binary_search` is a membership test only on a
    sorted sequence; on a caller-supplied slice (whose order the API does not prescribe) it misses listed elements, and
    the samples carrying them are dropped together with their weights."""
    res = RuleResult("R-C02-search", "binary_search in the dataset code runs on a sequence that was sorted in the same function, never directly on a caller-supplied slice")
    F = ctx.facts()
    fns = [f for f in F.all_fns() if f["d"]["krate"] == "linfa" and fn_file(f).startswith("src/dataset/")]
    n_sites = 0
    for fn in fns:
        params = set(b["local"] for p_ in fn["params"] for b in pat_bindings(p_))
        sorted_locals = {}
        for n in walk(fn["body"]):
            if n.get("k") == "MethodCall" and n["name"] in ("sort", "sort_unstable", "sort_by", "sort_unstable_by", "sort_by_key", "sort_unstable_by_key"):
                t = peel_refs(n["recv"])
                if t.get("k") == "Path" and "local" in t:
                    sorted_locals.setdefault(t["local"], n["ln"])
        for n in walk(fn["body"]):
            if n.get("k") != "MethodCall" or not n["name"].startswith("binary_search"):
                continue
            n_sites += 1
            key = fn_key(fn)
            t = peel_refs(n["recv"])
            res.instance("%s : %s on `%s`" % (key, n["name"], t.get("name", "?")))
            grown = _grown_in_loop(fn, n, t.get("local")) if t.get("k") == "Path" and "local" in t else None
            if grown is not None:
                res.violate("%s : binary-search-on-sequence-appended-to:%s" % (key, t.get("name")), "`%s.%s(..)` runs in a loop that also appends to `%s` (`%s`, line %d) without sorting it again inside the loop: after the first append the sequence is no longer sorted, the search misses elements that are present (and a label looked up this way is added a second time)" % (t.get("name"), n["name"], t.get("name"), grown["name"], grown["ln"]), fn_loc(fn, n["ln"]))
            elif t.get("k") == "Path" and t.get("local") in sorted_locals and sorted_locals[t["local"]] <= n["ln"]:
                res.ok()
            elif t.get("k") == "Path" and t.get("local") in params:
                res.violate("%s : binary-search-on-caller-slice:%s" % (key, t.get("name")), "`%s.%s(..)` searches the caller's slice, which is never sorted here: for an unsorted list the search misses listed elements and the samples carrying them are dropped" % (t.get("name"), n["name"]), fn_loc(fn, n["ln"]))
            else:
                res.undecided("%s : binary-search-order" % key, "the order of the sequence handed to %s is not established in this function" % n["name"], fn_loc(fn, n["ln"]))
    res.instance("%d dataset functions scanned, %d binary searches" % (len(fns), n_sites))
    if fns:
        res.ok()
    else:
        res.missing_anchor("dataset functions of crate linfa")
    return res.finish(1)


def rule_unit(ctx):
    """A dataset built from records alone gets placeholder targets: one per *sample*.  Sized by anything else (the
    element count `len()` of a matrix, the column count) the targets are no longer parallel to the records, and every
    operation that cuts both by position tears them apart."""
    res = RuleResult("R-C02-unit", "placeholder targets created next to records are sized by the records' sample count (len_of(Axis(0)) / nrows / nsamples), not by an element or column count")
    F = ctx.facts()
    n = 0
    for fn in F.all_fns():
        if fn["d"]["krate"] != "linfa" or fn.get("exp"):
            continue
        c = fn["crate"]
        r = Render(c)
        inits = {}
        for y in walk(fn["body"]):
            if y.get("k") == "LetStmt" and y.get("init") is not None and y["pat"].get("k") == "Bind":
                inits[y["pat"]["local"]] = y["init"]
        for lit in walk(fn["body"]):
            if lit.get("k") != "Struct" or not (c.dfn(lit.get("def")) or {}).get("path", "").endswith("DatasetBase"):
                continue
            fields = {f_["name"]: f_["e"] for f_ in lit.get("fields") or []}
            if "targets" not in fields or "records" not in fields:
                continue
            t = peel_refs(fields["targets"])
            if t.get("k") == "Path" and t.get("local") in inits:
                t = peel_refs(inits[t["local"]])
            if t.get("k") != "Call" or strip(t["f"]).get("k") != "Path":
                continue
            d0 = c.dfn(strip(t["f"]).get("def")) or {}
            if d0.get("krate") != "ndarray" or d0.get("name") not in ("default", "zeros", "from_elem", "ones", "uninit") or not t["args"]:
                continue
            rec = peel_refs(fields["records"])
            rl = rec.get("local")
            ext = t["args"][0]
            uses_records = any(z.get("k") == "Path" and z.get("local") == rl for z in walk(ext)) if rl is not None else False
            if not uses_records:
                continue
            n += 1
            key = fn_key(fn)
            res.instance("%s : placeholder targets next to `%s`" % (key, rec.get("name")))
            calls = [z for z in walk(ext) if z.get("k") == "MethodCall" and peel_refs(z["recv"]).get("local") == rl]
            verdict = None
            for z in calls:
                if z["name"] in ("nrows", "nsamples"):
                    verdict = "ok"
                elif z["name"] == "len_of":
                    ax = r.e(z["args"][0]) if z["args"] else ""
                    verdict = "ok" if "Axis(0)" in ax.replace(" ", "") else "bad:len_of(%s)" % ax[-8:]
                elif z["name"] in ("len", "ncols", "nfeatures", "ndim"):
                    verdict = "bad:%s()" % z["name"]
                elif z["name"] in ("dim", "shape", "raw_dim"):
                    verdict = verdict or "unknown"
            if verdict == "ok":
                res.ok()
            elif verdict and verdict.startswith("bad:"):
                res.violate("%s : targets-sized-by-%s" % (key, "element-count" if "len()" in verdict else "other-extent"), "the placeholder targets are sized by `%s.%s`, not by the number of samples: for a matrix with more than one column they are not parallel to the records" % (rec.get("name"), verdict[4:]), fn_loc(fn, t.get("ln")))
            else:
                res.undecided("%s : placeholder-extent" % key, "the extent of the placeholder targets (`%s`) was not classified (fail closed)" % r.e(ext)[:40], fn_loc(fn, t.get("ln")))
    if n < 1:
        res.missing_anchor("a DatasetBase literal with placeholder targets sized from its records (From<ArrayBase>)")
    return res.finish(1)


def rule_weightsplit(ctx):
    """There is one weight per *sample*.  Where a dataset operation cuts the weights in two (split_off / split_at / a helper
    that is handed the weights and a position), the position is a number of samples - never a number of elements (`dim.size()`,
    `len()` of a matrix, `n * ntargets`): for multi-target data the element count of the targets is a multiple of it, and
    the two parts get weights of other samples (or the cut lies beyond the end)."""
    from .c06 import inits_of, resolve
    res = RuleResult("R-C02-weightsplit", "the weights of a dataset are cut at a sample count, never at an element count (`size()` of a shape, a product with the number of targets / features)")
    F = ctx.facts()
    n = 0
    for fn in F.all_fns():
        d = fn["d"]
        if d["krate"] != "linfa" or not fn_file(fn).startswith("src/dataset/") or fn.get("exp") or "tests" in d["path"]:
            continue
        c = fn["crate"]
        inits = dict(inits_of(fn))
        for y in walk(fn["body"]):
            # `let (records_mid, targets_mid) = (n1 * nfeatures, dim1.size());`
            if y.get("k") == "LetStmt" and y.get("init") is not None and y["pat"].get("k") == "Tuple":
                i0 = peel_refs(y["init"])
                if i0.get("k") == "Tup" and len(i0["es"]) == len(y["pat"]["pats"]):
                    for q, x in zip(y["pat"]["pats"], i0["es"]):
                        if q.get("k") == "Bind":
                            inits[q["local"]] = x

        def from_weights(e, depth=0):
            for z in walk(e):
                if z.get("k") == "Field" and z.get("name") == "weights":
                    return True
                if z.get("k") == "Path" and z.get("local") in inits and depth < 4 and z.get("name") not in (None,) and from_weights(inits[z["local"]], depth + 1):
                    return True
            return False

        def element_count(e, depth=0):
            """a reason why the expression is an element count, else None"""
            for z in walk(e):
                if z.get("k") == "MethodCall" and z["name"] == "size" and not z["args"]:
                    return "`%s`" % Render(c).e(z)[:30]
                if z.get("k") == "Binary" and z["op"] == "*" and (c.ty(z.get("t")) or "").strip() in ("usize", "u64", "u32"):
                    return "the product `%s`" % Render(c).e(z)[:30]
                if z.get("k") == "MethodCall" and z["name"] == "len" and not z["args"] and "Dim<[usize; 2]>" in (c.ty(peel_refs(z["recv"]).get("at", peel_refs(z["recv"]).get("t"))) or ""):
                    return "`%s` (the element count of a matrix)" % Render(c).e(z)[:30]
                if z.get("k") == "Path" and z.get("local") in inits and depth < 4:
                    r_ = element_count(inits[z["local"]], depth + 1)
                    if r_:
                        return r_
            return None
        for y in walk(fn["body"]):
            mid = None
            if y.get("k") == "MethodCall" and y["name"] in ("split_off", "split_at", "split_at_mut") and from_weights(y["recv"]):
                mid = y["args"][-1] if y["args"] else None
            elif y.get("k") == "Call" and len(y["args"]) == 2 and from_weights(y["args"][0]) and (c.ty(peel_refs(y["args"][1]).get("t")) or "").strip() == "usize":
                mid = y["args"][1]
            if mid is None:
                continue
            n += 1
            key = fn_key(fn)
            res.instance("%s : weights cut at `%s`" % (key, Render(c).e(mid)[:30]))
            why = element_count(mid)
            if why is None:
                res.ok()
            else:
                res.violate("%s : weights-cut-at-element-count" % key, "the weights are cut at `%s`, which is %s: a number of elements, not of samples - for data with several targets (features) the parts carry the weights of other samples, or the cut lies beyond the end" % (Render(c).e(mid)[:30], why), fn_loc(fn, y.get("ln")))
    if n < 1:
        res.missing_anchor("a cut of the weights in the dataset code")
    return res.finish(1)


def rule_gather(ctx):
    """`select(Axis(0), &indices)` gathers: new row i is old row indices[i].  Whatever else is carried along with the same
    index vector (weights) has to be gathered too - `out[i] = in[indices[i]]`.  A loop that writes `out[indices[i]] = in[i]`
    scatters: it applies the inverse permutation, and every weight lands on another sample than its record."""
    res = RuleResult("R-C02-gather", "in a function that gathers records with select(Axis(0), &indices), nothing else is scattered with the same indices (out[indices[i]] = in[i])")
    F = ctx.facts()
    n = 0
    from .c17 import for_loops
    for fn in F.all_fns():
        d = fn["d"]
        if d["krate"] != "linfa" or not fn_file(fn).startswith("src/dataset/") or fn.get("exp") or "tests" in d["path"]:
            continue
        c = fn["crate"]
        idx_locals = set()
        for y in walk(fn["body"]):
            if y.get("k") == "MethodCall" and y["name"] == "select" and len(y["args"]) == 2:
                a = peel_refs(y["args"][1])
                if a.get("k") == "Path" and "local" in a:
                    idx_locals.add(a["local"])
        if not idx_locals:
            continue
        n += 1
        key = fn_key(fn)
        res.instance("%s : gathers with %d index vector(s)" % (key, len(idx_locals)))
        bad = None
        for it, pat, body, node in for_loops(fn["body"]):
            src = peel_refs(it)
            names = []
            while src.get("k") == "MethodCall":
                names.append(src["name"])
                src = peel_refs(src["recv"])
            if "enumerate" not in names or src.get("k") != "Path" or src.get("local") not in idx_locals:
                continue
            if pat.get("k") != "Tuple" or len(pat.get("pats", [])) != 2:
                continue
            pos = [b["local"] for b in pat_bindings(pat["pats"][0])]
            val = [b["local"] for b in pat_bindings(pat["pats"][1])]
            for y in walk(body):
                if y.get("k") == "Assign" and peel_refs(y["l"]).get("k") == "Index":
                    li = peel_refs(peel_refs(y["l"])["i"])
                    rs = [peel_refs(z["i"]) for z in walk(y["r"]) if z.get("k") == "Index"]
                    if li.get("k") == "Path" and li.get("local") in val and any(r_.get("k") == "Path" and r_.get("local") in pos for r_ in rs):
                        bad = y
        if bad is None:
            res.ok()
        else:
            res.violate("%s : scattered-with-the-gather-indices" % key, "`%s` writes position indices[i] from position i while the records are gathered with select(Axis(0), &indices) (row i from row indices[i]): this is the inverse permutation, the values end up on other samples than their records" % Render(c).e(bad)[:70], fn_loc(fn, bad.get("ln")))
    if n < 1:
        res.missing_anchor("dataset functions that gather rows with select(Axis(0), &indices)")
    return res.finish(1)


def rule_rowindex(ctx):
    """An index that `enumerate()` hands out after a `filter` (skip, step_by, rev, ..) counts the rows that were kept.  Used
    to index a container that belongs to the *input* (the old weights, the records) it picks the value of another sample:
    the k-th kept row gets the weight of the k-th original row."""
    from . import rowindex
    from .layout import with_parents
    res = RuleResult("R-C02-rowindex", "in the dataset code no container of the input is indexed with an enumerate() index taken after a filter / skip / step_by / rev of the sample sequence")
    F = ctx.facts()
    n = 0
    for fn in F.all_fns():
        d = fn["d"]
        if d["krate"] != "linfa" or not fn_file(fn).startswith("src/dataset/") or fn.get("exp") or "tests" in d["path"]:
            continue
        srcs = rowindex.enumerate_sources(fn)
        if not srcs:
            continue
        c = fn["crate"]
        key = fn_key(fn)
        # containers of the input: the parameters (self included) and what is bound from them - not what the function creates
        # itself (an output that is filled by position among the kept rows is indexed rightly with that position)
        rooted = set(b["local"] for p_ in fn["params"] for b in pat_bindings(p_))
        grew = True
        while grew:
            grew = False
            for y in walk(fn["body"]):
                if y.get("k") in ("LetStmt", "Let") and y.get("init") is not None:
                    i0 = peel_refs(y["init"])
                    created = i0.get("k") == "Call" and (c.dfn(strip(i0["f"]).get("def")) or {}).get("name") in ("zeros", "ones", "new", "with_capacity", "from_elem", "default", "uninit")
                    if not created and any(z.get("k") == "Path" and z.get("local") in rooted for z in walk(y["init"])) and not any(z.get("k") == "MethodCall" and z["name"] in ("collect", "to_vec", "to_owned", "clone", "map") for z in walk(y["init"])):
                        for b in pat_bindings(y["pat"]):
                            if b["local"] not in rooted:
                                rooted.add(b["local"])
                                grew = True
        assigned_targets = set(id(peel_refs(y["l"])) for y in walk(fn["body"]) if y.get("k") in ("Assign", "AssignOp"))

        def root_local(e):
            e = peel_refs(e)
            while e.get("k") in ("Field", "Index", "MethodCall"):
                e = peel_refs(e.get("e") or e.get("recv"))
            return e.get("local") if e.get("k") == "Path" else None
        for loc, adaptors in sorted(srcs.items()):
            bad = [a for a in adaptors if a in rowindex.REINDEXING]
            uses = [y for y in walk(fn["body"]) if y.get("k") == "Index" and peel_refs(y["i"]).get("k") == "Path" and peel_refs(y["i"]).get("local") == loc and id(y) not in assigned_targets and root_local(y["e"]) in rooted]
            if not uses:
                continue
            n += 1
            res.instance("%s : %d container(s) indexed with an enumerate() index (adaptors before it: %s)" % (key, len(uses), ", ".join(adaptors) or "none"))
            if bad:
                res.violate("%s : index-after-%s" % (key, bad[0]), "`%s` is indexed with the position that enumerate() counts after `%s`: that is the position among the rows that were kept, not the row of the input the value belongs to" % (Render(c).e(uses[0])[:40], bad[0]), fn_loc(fn, uses[0].get("ln")))
            else:
                res.ok()
    if n < 1:
        res.missing_anchor("dataset functions that index a container with an enumerate() index")
    return res.finish(1)


def rules(tier):
    from . import iteroverride, intnarrow
    return [intnarrow.make_rule("R-C02-narrow", lambda f: f["d"]["krate"] == "linfa" and "dataset" in fn_file(f), "the dataset code of the linfa crate"),
            iteroverride.make_rule("R-C02-iter", {"linfa"}, 3, "the linfa crate (sample, feature / target and chunk iterators of a dataset)"), rule_align, rule_filter, rule_rowindex, rule_weightsplit, rule_gather, rule_columns, rule_layout, rule_domain, rule_memorder, rule_extent, rule_search, rule_counted, rule_unit]
