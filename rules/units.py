"""E-E: unit-of-measure tag inference (dist vs rdist) over typed HIR, with per-function summaries.

Tags come only from the Distance trait's own methods; they flow through copies, arithmetic, min/max,
heap pushes/pops, struct fields and calls of workspace functions (parameter and return summaries).
A report needs two KNOWN, different tags meeting where one unit is required."""
from .facts import walk, strip, peel_refs, pat_bindings, fn_key, fn_loc, Render

TRANSPARENT = {"raw", "unwrap", "clone", "abs", "reborrow", "copied", "cloned", "expect", "peek", "pop", "into_inner", "to_owned",
               "unwrap_or", "max_value", "min_value", "sqrt_unit_preserving"}
WRAPPERS = {"new", "Reverse", "Some", "Ok", "from"}


class Units:
    def __init__(self, fns, seeds_param=None):
        self.fns = fns
        self.by_raw = {(f["d"]["krate"], f["d"].get("raw")): f for f in fns}
        self.ret = {}
        self.param = dict(seeds_param or {})   # (raw, index) -> tag
        self.field = {}
        self.viol = {}
        self.sites = 0

    def run(self, rounds=4):
        for _ in range(rounds):
            before = (dict(self.ret), dict(self.param), dict(self.field))
            self.sites = 0
            self.viol = {}
            for fn in self.fns:
                FnPass(self, fn).run()
            if before == (self.ret, self.param, self.field):
                break
        return self

    def report(self, fn, kind, msg, ln):
        k = "%s : %s" % (fn_key(fn), kind)
        self.viol.setdefault(k, (fn, msg, ln))


class FnPass:
    def __init__(self, U, fn):
        self.U = U
        self.fn = fn
        self.c = fn["crate"]
        self.raw = (fn["d"]["krate"], fn["d"].get("raw"))
        self.env = {}
        self.param_idx = {}
        self.r = Render(self.c)
        for i, p in enumerate(fn["params"]):
            if p.get("k") == "Bind":
                self.param_idx[p["local"]] = i
                t = U.param.get((self.raw, i))
                if t:
                    self.env[p["local"]] = t

    def run(self):
        t = self.tag(self.fn["body"])
        self.merge_ret(t)

    def merge_ret(self, t):
        if t:
            old = self.U.ret.get(self.raw)
            if old and old != t:
                self.U.report(self.fn, "return-unit-conflict", "function returns both %s and %s values" % (old, t), self.fn["line"])
            else:
                self.U.ret[self.raw] = t

    def conflict(self, a, b, n, what):
        self.U.sites += 1
        if a == "coord" or b == "coord":
            # a single coordinate is not a distance; only the difference of two coordinates is (see t_Binary)
            return b if a == "coord" else a
        if a and b and a != b:
            self.U.report(self.fn, "unit-mismatch:%s" % what,
                          "%s mixes a `%s` value with a `%s` value: `%s` (for L2 the two differ by a square, so the bound prunes or accepts wrongly)" % (what, a, b, self.r.e(n)[:90]), n.get("ln"))
        return a or b

    def learn_param(self, node, t):
        node = peel_refs(node)
        if t and node.get("k") == "Path" and node.get("local") in self.param_idx and node["local"] not in self.env:
            self.U.param.setdefault((self.raw, self.param_idx[node["local"]]), t)

    def bind(self, pat, t, init=None):
        if pat is None:
            return
        k = pat.get("k")
        if k == "Bind":
            if t:
                self.env[pat["local"]] = t
            if pat.get("sub"):
                self.bind(pat["sub"], t)
        elif k in ("Ref", "Box"):
            self.bind(pat["pat"], t)
        elif k == "Tuple":
            tags = self.tuple_tags(init) if init is not None else None
            for i, q in enumerate(pat["pats"]):
                self.bind(q, tags[i] if tags and i < len(tags) else None)
        elif k == "TupleStruct":
            for q in pat["pats"]:
                self.bind(q, t)
        elif k == "Struct":
            for f in pat["fields"]:
                if f["name"] in ("dist",):
                    self.bind(f["pat"], t)
                elif f["name"] in self.U.field:
                    self.bind(f["pat"], self.U.field[f["name"]])
                else:
                    self.bind(f["pat"], None)

    def tuple_tags(self, n):
        """per-component tags of a tuple-valued expression (tuple literal, or match/if/block yielding tuples)"""
        n = strip(n)
        k = n.get("k")
        if k == "Tup":
            return [self.tag(e) for e in n["es"]]
        if k == "Block" and n.get("e") is not None:
            for s_ in n["stmts"]:
                self.tag(s_)
            return self.tuple_tags(n["e"])
        if k == "Match":
            st = self.tag(n["scrut"])
            out = None
            for a in n["arms"]:
                self.bind(a["pat"], st)
                t = self.tuple_tags(a["body"])
                if t:
                    out = [x or y for x, y in zip(out, t)] if out else t
            return out
        if k == "If":
            self.tag(n["c"])
            a = self.tuple_tags(n["then"])
            b = self.tuple_tags(n["else"]) if n.get("else") else None
            if a and b:
                return [x or y for x, y in zip(a, b)]
            return a or b
        return None

    def local_fn(self, d):
        if d is None:
            return None
        return (d["krate"], d.get("raw")) if (d["krate"], d.get("raw")) in self.U.by_raw else None

    def call_local(self, raw, args, n, offset=0):
        for i, a in enumerate(args):
            ta = self.tag(a)
            pt = self.U.param.get((raw, i + offset))
            if ta and pt and ta != pt:
                callee = self.U.by_raw[raw]
                pname = callee["params"][i + offset].get("name", "#%d" % (i + offset)) if i + offset < len(callee["params"]) else "?"
                self.U.report(self.fn, "argument-unit:%s.%s" % (callee["d"]["name"], pname),
                              "`%s` is passed a `%s` value for parameter `%s`, which the callee uses as `%s`" % (callee["d"]["name"], ta, pname, pt), n.get("ln"))
            elif ta and not pt:
                self.U.param.setdefault((raw, i + offset), ta)
        return self.U.ret.get(raw)

    def tag(self, n):
        if n is None:
            return None
        k = n.get("k")
        m = getattr(self, "t_" + k, None)
        if m:
            return m(n)
        t = None
        from .facts import children
        for ch in children(n):
            t = self.tag(ch)
        return None

    def t_Lit(self, n):
        return None

    def t_Path(self, n):
        if "local" in n:
            return self.env.get(n["local"])
        return None

    def t_Ref(self, n):
        return self.tag(n["e"])

    def t_Cast(self, n):
        return self.tag(n["e"])

    def t_Unary(self, n):
        return self.tag(n["e"])

    def t_Semi(self, n):
        self.tag(n["e"])
        return None

    def t_LetStmt(self, n):
        if n.get("init") is not None and n["pat"].get("k") == "Tuple":
            self.bind(n["pat"], None, n["init"])
            return None
        t = self.tag(n["init"]) if n.get("init") is not None else None
        self.bind(n["pat"], t, n.get("init"))
        if n.get("els"):
            self.tag(n["els"])
        return None

    def t_Let(self, n):
        t = self.tag(n["init"])
        self.bind(n["pat"], t, n["init"])
        return None

    def t_Block(self, n):
        for s in n["stmts"]:
            self.tag(s)
        return self.tag(n["e"]) if n.get("e") else None

    def t_If(self, n):
        self.tag(n["c"])
        a = self.tag(n["then"])
        b = self.tag(n["else"]) if n.get("else") else None
        return a or b

    def t_Match(self, n):
        st = self.tag(n["scrut"])
        out = None
        for a in n["arms"]:
            self.bind(a["pat"], st)
            if a.get("guard"):
                self.tag(a["guard"])
            t = self.tag(a["body"])
            out = out or t
        if n.get("src") == "TryDesugar":
            return st
        return out

    def t_Loop(self, n):
        self.tag(n["body"])
        return None

    def t_Closure(self, n):
        return self.tag(n["body"])

    def t_Ret(self, n):
        t = self.tag(n["e"]) if n.get("e") else None
        self.merge_ret(t)
        return None

    def t_Break(self, n):
        if n.get("e"):
            self.tag(n["e"])
        return None

    def t_Tup(self, n):
        for x in n["es"]:
            self.tag(x)
        return None

    def t_Field(self, n):
        if n["name"] in self.U.field:
            self.tag(n["e"])
            return self.U.field[n["name"]]
        if n["name"] == "dist":
            return self.tag(n["e"])
        self.tag(n["e"])
        return None

    def t_Index(self, n):
        self.tag(n["i"])
        t = self.tag(n["e"])
        if t is None:
            bt = self.c.ty(strip(n["e"]).get("t")) or ""
            it = self.c.ty(strip(n["i"]).get("t")) or ""
            if "ArrayBase<" in bt and "Dim<[usize; 1]>" in bt and it.strip() == "usize":
                return "coord"      # one coordinate of a point
        return t

    def t_Assign(self, n):
        t = self.tag(n["r"])
        l = peel_refs(n["l"])
        if l.get("k") == "Path" and "local" in l and t:
            self.env[l["local"]] = t
        return None

    def t_AssignOp(self, n):
        a, b = self.tag(n["l"]), self.tag(n["r"])
        if n["op"] in ("+", "-"):
            self.conflict(a, b, n, "arithmetic")
        return None

    def t_Struct(self, n):
        out = None
        for f in n["fields"]:
            t = self.tag(f["e"])
            if f["name"] == "radius" and t:
                old = self.U.field.get("radius")
                if old and old != t:
                    self.U.report(self.fn, "field-unit-conflict:radius", "field `radius` is stored both as %s and as %s" % (old, t), n.get("ln"))
                else:
                    self.U.field["radius"] = t
            if f["name"] == "dist":
                out = t
        return out

    def t_Binary(self, n):
        op = n["op"]
        a, b = self.tag(n["l"]), self.tag(n["r"])
        if op == "-" and a == "coord" and b == "coord":
            # |x_k - y_k| is a lower bound of every L_p distance between x and y: it is measured in the unit of distances
            return "dist"
        if op in ("+", "-"):
            return self.conflict(a, b, n, "arithmetic")
        if op in ("<", "<=", ">", ">=", "==", "!="):
            self.conflict(a, b, n, "comparison")
            self.learn_param(n["l"], b)
            self.learn_param(n["r"], a)
            return None
        return None

    def t_Call(self, n):
        f = strip(n["f"])
        d = self.c.dfn(f.get("def")) if f.get("k") == "Path" else None
        if d is None:
            for a in n["args"]:
                self.tag(a)
            return None
        raw = self.local_fn(d)
        if raw:
            return self.call_local(raw, n["args"], n)
        name = d["name"] or d["path"].split("::")[-1]
        if name in WRAPPERS and n["args"]:
            t = self.tag(n["args"][0])
            for a in n["args"][1:]:
                self.tag(a)
            return t
        for a in n["args"]:
            self.tag(a)
        return None

    def t_MethodCall(self, n):
        name = n["name"]
        d = self.c.dfn(n.get("def"))
        tr = (d or {}).get("trait") or ""
        if tr.endswith("Distance") and name in ("distance", "rdistance", "dist_to_rdist", "rdist_to_dist"):
            self.tag(n["recv"])
            ats = [self.tag(a) for a in n["args"]]
            self.U.sites += 1
            if name == "distance":
                return "dist"
            if name == "rdistance":
                return "rdist"
            if name == "dist_to_rdist":
                if ats and ats[0] == "rdist":
                    self.U.report(self.fn, "conversion-of-wrong-unit:dist_to_rdist", "dist_to_rdist is applied to a value that already is an rdist: `%s`" % self.r.e(n)[:80], n.get("ln"))
                self.learn_param(n["args"][0], "dist")
                return "rdist"
            if name == "rdist_to_dist":
                if ats and ats[0] == "dist":
                    self.U.report(self.fn, "conversion-of-wrong-unit:rdist_to_dist", "rdist_to_dist is applied to a value that already is a dist: `%s`" % self.r.e(n)[:80], n.get("ln"))
                self.learn_param(n["args"][0], "rdist")
                return "dist"
        raw = self.local_fn(d)
        if raw:
            rt = self.tag(n["recv"])
            return self.call_local(raw, n["args"], n, offset=1)
        if name in ("max", "min") and len(n["args"]) == 1:
            a, b = self.tag(n["recv"]), self.tag(n["args"][0])
            return self.conflict(a, b, n, "min/max")
        if name == "push" and n["args"]:
            t = self.tag(n["args"][0])
            h = peel_refs(n["recv"])
            if h.get("k") == "Path" and "local" in h and t:
                old = self.env.get(h["local"])
                if old and old != t:
                    self.U.report(self.fn, "heap-unit-conflict", "heap `%s` holds both %s and %s keys" % (h["name"], old, t), n.get("ln"))
                else:
                    self.env[h["local"]] = t
            return None
        if name in ("map", "filter_map", "flat_map") and n["args"]:
            self.tag(n["recv"])
            return self.tag(n["args"][0])
        rt = self.tag(n["recv"])
        for a in n["args"]:
            self.tag(a)
        if name in TRANSPARENT or (name in ("max", "min", "filter", "into_iter", "iter", "collect", "last", "first", "next") and True):
            return rt
        if name in ("fold", "reduce", "sum", "fold_axis") and rt:
            # an extremum / sum over values of one unit has that unit (max over rdistances is an rdistance)
            return rt
        return None
