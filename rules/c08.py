"""C08 — DBSCAN / OPTICS: structural clauses of the density-clustering definition."""
from . import layout
from . import c07
from .core import RuleResult
import re
from .facts import fn_key, fn_loc, fn_file, walk, strip, peel_refs, pat_bindings, Render, children
from .sym import Tracer, Term, Cmp, Poly, k, as_term, as_poly, walk_terms, CMP_NEG, guard_relations
from .taint import parent_map, SORTS

LEVEL = ("Static analysis of linfa-clustering's DBSCAN and OPTICS: (core) every insertion into DBSCAN's search frontier is "
         "control-dependent on `neighbour count >= min_points` (the definition's strictness, in canonical form), and the "
         "cluster id is incremented once per seed after its expansion; (self) the count compared with min_points is "
         "incremented for every element of the range query, the query point included; (index) both algorithms obtain their "
         "neighbour index only through the configurable NearestNeighbour and query it with the user's tolerance; (order) the "
         "result of within_range, documented as unordered, is never indexed by rank without a sort on the distance; a DBSCAN seed is skipped only when already labelled or when its "
         "neighbour count is below min_points; (once) OPTICS inserts a sample into `processed` in the step that appends it to the "
         "ordering. Necessary "
         "conditions of 'only core points extend a cluster', 'at least min_points points, itself included', 'neither result "
         "depends on the choice of neighbour index'. Reachability values of OPTICS are not decided.")
ASSUME = ["rustc resolution/typeck; HIR faithfully dumped", "independence from the index kind additionally relies on C07 (R-C07-edge)"]

QUEUE_INS = {"push_back", "push_front", "extend", "append", "push", "insert"}
RANK = {"get", "first", "last", "nth", "take", "truncate", "split_at", "split_first", "split_last", "get_mut", "skip", "swap_remove", "remove", "drain"}
ORDER_PRESERVING = {"unwrap", "expect", "into_iter", "iter", "map", "filter", "collect", "clone", "to_vec", "cloned", "copied", "to_owned", "as_slice", "iter_mut", "filter_map", "into_boxed_slice", "as_ref", "borrow"}


def cl_fns(F, sub):
    return [f for f in F.all_fns() if f["d"]["krate"] == "linfa_clustering" and ("/%s/" % sub) in fn_file(f)]


def rule_core(ctx):
    res = RuleResult("R-C08-core", "only points whose neighbour count is >= min_points extend the DBSCAN frontier; cluster id advances once per seed")
    F = ctx.facts()
    fns = [f for f in cl_fns(F, "dbscan") if f["d"]["name"] == "transform" and "Array1" in f["inputs"][1] or (f["d"]["name"] == "transform" and "DatasetBase" not in f["inputs"][1])]
    fns = [f for f in cl_fns(F, "dbscan") if f["d"]["name"] == "transform" and "DatasetBase" not in f["inputs"][1]]
    if not fns:
        res.missing_anchor("<DbscanValidParams as Transformer<&Array2,..>>::transform")
    for fn in fns:
        key = fn_key(fn)
        c = fn["crate"]
        helper_q = [y for y in walk(fn["body"]) if y.get("k") in ("MethodCall", "Call")
                    and (c.dfn(y.get("def") if y.get("k") == "MethodCall" else strip(y["f"]).get("def")) or {}).get("krate") == "linfa_clustering"
                    and any("VecDeque<" in (c.ty(peel_refs(a).get("t")) or "") for a in y["args"])]
        if helper_q:
            # the frontier is handed to a helper of the crate: insertions, their guards and the helper's own early returns are
            # not events of this function - the model below (guards of the insertion inside transform) does not apply
            res.instance("%s : frontier handled by a helper" % key)
            res.undecided("%s : frontier-in-helper" % key, "the search queue is passed to `%s`: which points it enqueues under which test is not decided here (fail closed)" % (helper_q[0].get("name") or Render(c).e(helper_q[0])[:30]), fn_loc(fn, helper_q[0].get("ln")))
            continue
        tr = Tracer(fn, inline=ctx.inliner(keep=("find_neighbors",))).run()
        ins = []
        for e in tr.events:
            if e.kind == "call" and e.name in QUEUE_INS and e.node.get("k") == "MethodCall":
                rt = c.ty(e.node["recv"].get("t")) or ""
                if "VecDeque<" in rt:
                    ins.append(e)
        if len(ins) < 2:
            res.undecided("%s : frontier-insertions" % key, "expected the seed insertion and the expansion insertion into the search queue, found %d (fail closed)" % len(ins), fn_loc(fn))
        is_min = lambda a: "min_points" in a
        for i, e in enumerate(ins):
            inst = "%s : frontier insertion #%d `%s`" % (key, i, e.name)
            res.instance(inst)
            verdict = None
            # the count that matters is the one of the most recent neighbour query before the insertion
            prev = [x for x in tr.events if x.kind == "call" and x.name == "find_neighbors" and x.order < e.order]
            if not prev:
                res.undecided("%s : no-neighbour-query:#%d" % (key, i), "no neighbour query precedes the frontier insertion (fail closed)", fn_loc(fn, e.node["ln"]))
                continue
            qk = k(max(prev, key=lambda x: x.order).val)
            is_count = lambda a: qk in a
            # (a) guarded positively
            rels = guard_relations(e, is_count, is_min)
            if rels:
                verdict = rels[-1]
            # (b) or dominated by an early `continue`/`break` taken when count < min_points, in the same iteration
            if verdict is None:
                for x in tr.events:
                    if x.kind in ("continue", "break", "ret") and x.order < e.order and x.loops and e.loops and x.loops[0][1] is e.loops[0][1] and len(x.loops) <= len(e.loops):
                        rels = guard_relations(x, is_count, is_min)
                        if rels:
                            verdict = CMP_NEG[rels[-1]]   # we are past the exit: the negation holds
            if verdict == ">=":
                res.ok()
                res.sample({"site": inst, "condition": "neighbour count >= min_points"})
            elif verdict is None and (any(qk in g_[1] and _is_flag(g_[3]) for g_ in e.guards) or any(qk in g_[1] and _is_flag(g_[3]) for x in tr.events if x.kind in ("continue", "break", "ret") and x.order < e.order and x.loops and e.loops and x.loops[0][1] is e.loops[0][1] for g_ in x.guards)):
                # the insertion does stand under a test of what the neighbour query returned - a flag the helper computed
                # (`candidate.is_core`), not a comparison written here: whether that flag is `count >= min_points` is not read
                res.undecided("%s : core-test-form:#%d" % (key, i), "the frontier insertion is guarded by a value of the neighbour query that is not a comparison with min_points in this function (fail closed)", fn_loc(fn, e.node["ln"]))
            elif verdict is None:
                res.violate("%s : non-core-expansion:#%d" % (key, i), "points are added to the search frontier without a `neighbour count >= min_points` test: a non-core (border) point would extend the cluster", fn_loc(fn, e.node["ln"]))
            else:
                res.violate("%s : core-condition:#%d:%s" % (key, i, verdict), "frontier insertion is conditioned on `count %s min_points`; the definition is `count >= min_points` (at least min_points points, itself included)" % verdict, fn_loc(fn, e.node["ln"]))
        # seeds are skipped only because they are already labelled or because they are not core points:
        # a wider skip condition leaves a genuine core point unlabelled
        seed_q = [x for x in tr.events if x.kind == "call" and x.name == "find_neighbors" and len(x.loops) == 1]
        for x in tr.events:
            if x.kind != "continue" or len(x.loops) != 1 or not x.guards:
                continue
            g = x.guards[-1]
            inst = "%s : seed skipped when %s" % (key, g[1][:70])
            res.instance(inst)
            gv = g[3]
            okskip = False
            if isinstance(gv, Cmp) and seed_q:
                qk = k(seed_q[0].val)
                op = gv.relation(lambda a: qk in a, lambda a: "min_points" in a)
                okskip = (op == "<" and g[0] == "+") or (op == ">=" and g[0] == "-")
            elif isinstance(gv, Term) and gv.is_call("is_some") and "cluster_memberships" in g[1] or (isinstance(gv, Term) and gv.is_call("is_some") and "index(" in g[1]):
                okskip = g[0] == "+"
            if okskip:
                res.ok()
            elif _is_flag(gv) and seed_q and k(seed_q[0].val) in g[1]:
                res.undecided("%s : seed-skip-form" % key, "a seed is skipped under `%s`, a value of the neighbour query that is not a comparison with min_points in this function (fail closed)" % g[1][:100], fn_loc(fn, x.node["ln"]))
            else:
                res.violate("%s : seed-skip-condition" % key, "a seed is skipped under `%s`, which is neither `already labelled` nor exactly `neighbour count < min_points`: a core point can stay unlabelled" % g[1][:100], fn_loc(fn, x.node["ln"]))
        # the scan over the samples is never cut short: whether a later sample is a core point depends on its own
        # neighbourhood (assigned or not), never on how many samples are still unlabelled
        for x in tr.events:
            if x.kind in ("break", "ret") and len(x.loops) == 1 and seed_q and x.loops[0][1] is seed_q[0].loops[0][1]:
                g = x.guards[-1][1][:80] if x.guards else "(unconditionally)"
                inst = "%s : scan left when %s" % (key, g)
                res.instance(inst)
                res.violate("%s : scan-cut-short" % key, "the scan over the samples is left (`%s`) when %s: the samples after that point are never examined, although a core point among them must still be labelled" % (x.kind, g), fn_loc(fn, x.node["ln"]))
        # cluster id: exactly one increment, in the seed loop, after the expansion loop
        incs = [e for e in tr.events if e.kind == "assignop" and "cluster_id" in e.lhs]
        res.instance("%s : cluster id increments" % key)
        exp = [e for e in ins if len(e.loops) >= 2]
        if len(incs) == 1 and len(incs[0].loops) == 1 and (not exp or incs[0].order > max(e.order for e in exp)) and k(incs[0].val) == "1":
            res.ok()
        else:
            res.violate("%s : cluster-id" % key, "the cluster id is not incremented exactly once per seed, after the seed's expansion", fn_loc(fn))
    return res.finish(3)


def _has_cmp(v):
    if isinstance(v, Cmp):
        return True
    return isinstance(v, Term) and any(_has_cmp(a) for a in (v.args or ()))


def _is_flag(v):
    """a value that is not a comparison and contains none: a flag, field or component the callee computed"""
    return v is not None and not _has_cmp(v)


def rule_metric(ctx):
    """DBSCAN and OPTICS are generic over the metric: neighbourhoods, core distances and reachability distances are all
    taken in the metric the caller configured.  A distance computed with a concrete metric type inside this generic code
    (`L2Dist.distance(..)`) agrees with it only when the configured metric happens to be that one - the default."""
    res = RuleResult("R-C08-metric", "every distance in DBSCAN / OPTICS is computed with the configured metric (no concrete metric type inside the generic code)")
    F = ctx.facts()
    n = 0
    for fn in cl_fns(F, "dbscan") + cl_fns(F, "optics"):
        d = fn["d"]
        if "tests" in d["path"] or fn.get("exp"):
            continue
        c = fn["crate"]
        r = Render(c)
        key = fn_key(fn)
        for y in walk(fn["body"]):
            if y.get("k") != "MethodCall" or y["name"] not in ("distance", "rdistance", "dist_to_rdist", "rdist_to_dist"):
                continue
            dd = c.dfn(y.get("def")) or {}
            if dd.get("krate") != "linfa_nn":
                continue
            n += 1
            res.instance("%s : `%s`" % (key, r.e(y)[:50]))
            rt = (c.ty(peel_refs(y["recv"]).get("t")) or "").lstrip("&").strip()
            concrete = re.search(r"\b(L1Dist|L2Dist|LInfDist|LpDist)\b", rt)
            if concrete:
                res.violate("%s : concrete-metric:%s" % (key, concrete.group(1)), "`%s` computes a distance with `%s` inside code that is generic over the metric: with any other configured metric this value is on another scale than the neighbourhoods and core distances it is combined with" % (r.e(y)[:50], concrete.group(1)), fn_loc(fn, y.get("ln")))
            else:
                res.ok()
    if n < 2:
        res.missing_anchor("distance computations in optics / dbscan (found %d)" % n)
    return res.finish(2)


def rule_corerank(ctx):
    """The core distance of a point is the distance to its min_points-th nearest neighbour, itself included: element
    min_points - 1 of the neighbours sorted by distance.  The rank is a function of min_points alone - nothing between the
    sorted list and the selection may drop elements depending on their values."""
    res = RuleResult("R-C08-corerank", "OPTICS takes the core distance from the neighbour of rank min_points - 1, with no value-dependent adaptor in between")
    F = ctx.facts()
    fns = [f for f in cl_fns(F, "optics") if f["d"]["name"] == "set_core_distance"]
    if not fns:
        res.missing_anchor("OpticsValidParams::set_core_distance")
    for fn in fns:
        c = fn["crate"]
        r = Render(c)
        key = fn_key(fn)
        res.instance(key)
        asg = next((y for y in walk(fn["body"]) if y.get("k") == "Assign" and peel_refs(y["l"]).get("k") == "Field" and peel_refs(y["l"])["name"] == "core_distance"), None)
        if asg is None:
            res.undecided("%s : store" % key, "no assignment to core_distance (fail closed)", fn_loc(fn))
            continue
        chain = [y["name"] for y in walk(asg["r"]) if y.get("k") == "MethodCall"]
        dropping = [m for m in chain if m in ("skip_while", "take_while", "filter", "filter_map", "dedup", "dedup_by", "dedup_by_key", "rev", "step_by", "map_while")]
        picks = [m for m in chain if m in ("get", "nth")]
        if dropping:
            res.violate("%s : rank-depends-on-values:%s" % (key, dropping[0]), "`.%s(..)` stands between the sorted neighbours and the selection: how many elements it removes depends on the data (a run of equal points is removed as a whole), so the element picked is not the one of rank min_points - 1" % dropping[0], fn_loc(fn, asg.get("ln")))
        elif not picks:
            res.undecided("%s : selection" % key, "`%s`: no get / nth selection (fail closed)" % r.e(asg["r"])[:50], fn_loc(fn, asg.get("ln")))
        else:
            res.ok()
    return res.finish(1)


def rule_self(ctx):
    res = RuleResult("R-C08-self", "the neighbour count includes every element of the range query, the query point itself included")
    F = ctx.facts()
    fns = [f for f in cl_fns(F, "dbscan") if any(x.get("k") == "MethodCall" and x["name"] == "within_range" for x in walk(f["body"]))]
    if not fns:
        res.missing_anchor("the DBSCAN function that calls within_range")
    for fn in fns:
        key = fn_key(fn)
        tr = Tracer(fn).run()
        rv = tr.result
        incs = [e for e in tr.events if e.kind == "assignop" and e.op == "+" and e.loops and any("call:within_range" in k(l[2]) for l in e.loops if len(l) > 2 and l[2] is not None)]
        res.instance("%s : counter over the range query" % key)
        unconditional = [e for e in incs if not e.guards and k(e.val) == "1"]
        # the counter must be what is returned as the count (first tuple component)
        first = None
        from .sym import Tup
        if isinstance(rv, Tup) and rv.items:
            first = rv.items[0]
        returned_counter = False
        if unconditional and first is not None:
            returned_counter = k(first).startswith("mutated:%s" % unconditional[0].lhs.split(":")[-1]) or unconditional[0].lhs.split(":")[-1] in k(first)
        whole_len = False
        if first is not None:
            ft = as_term(first)
            inner = as_term(ft.args[0]) if ft is not None and ft.is_call("len") and ft.args else None
            whole_len = inner is not None and inner.is_call("within_range")
        if whole_len:
            res.ok()
            res.sample({"fn": key, "count": "len() of the whole range-query result"})
        elif unconditional and returned_counter:
            res.ok()
            res.sample({"fn": key, "counter": unconditional[0].lhs, "incremented": "once per returned neighbour, unconditionally"})
        elif incs:
            res.violate("%s : conditional-count" % key, "the neighbour counter is only incremented under a condition (%s): the query point itself, or already-assigned neighbours, are not counted" % [g[1][:60] for g in incs[0].guards], fn_loc(fn, incs[0].node["ln"]))
        else:
            res.undecided("%s : no-count" % key, "no counter over the range-query result found (fail closed)", fn_loc(fn))
    return res.finish(1)


CONCRETE_INDEX = ("KdTreeIndex", "BallTreeIndex", "LinearSearchIndex", "linfa_nn::KdTree", "linfa_nn::BallTree", "linfa_nn::LinearSearch", "kdtree::KdTree")


def rule_index(ctx):
    res = RuleResult("R-C08-index", "DBSCAN and OPTICS build their index only through the configurable NearestNeighbour and query it with the user's tolerance")
    F = ctx.facts()
    for sub, adt in (("dbscan", "DbscanValidParams"), ("optics", "OpticsValidParams")):
        fns = cl_fns(F, sub)
        builds, queries, concrete = [], [], []
        for fn in fns:
            c = fn["crate"]
            if "hyperparams" in fn_file(fn):
                continue
            for n in walk(fn["body"]):
                if n.get("k") == "MethodCall" and n["name"] in ("from_batch", "from_batch_with_leaf_size"):
                    builds.append((fn, n))
                if n.get("k") == "MethodCall" and n["name"] == "within_range":
                    queries.append((fn, n))
                d = None
                if n.get("k") == "Path" and "def" in n:
                    d = c.dfn(n["def"])
                elif n.get("k") == "Struct":
                    d = c.dfn(n.get("def"))
                if d and any(d["path"].endswith(x) or (x in d["path"] and d["krate"] in ("linfa_nn", "kdtree") and d["kind"] in ("Struct", "Ctor", "AssocFn") and "Index" in d["path"]) for x in CONCRETE_INDEX):
                    concrete.append((fn, n, d["path"]))
        r = None
        res.instance("%s : index construction sites (%d)" % (sub, len(builds)))
        if not builds:
            res.undecided("%s : no-index-build" % sub, "no NearestNeighbour::from_batch call found (fail closed)")
        for fn, n in builds:
            r = Render(fn["crate"])
            recv = r.e(n["recv"])
            if "nn_algo" in recv:
                res.ok()
            else:
                res.violate("%s : index-not-configurable" % fn_key(fn), "the index is built from `%s`, not from the configured nn_algo" % recv[:60], fn_loc(fn, n["ln"]))
        for fn, n, path in concrete:
            res.violate("%s : concrete-index:%s" % (fn_key(fn), path.split("::")[-1]), "a concrete index type `%s` is named instead of the configurable NearestNeighbour" % path, fn_loc(fn, n.get("ln")))
        res.instance("%s : range queries (%d)" % (sub, len(queries)))
        for fn, n in queries:
            r = Render(fn["crate"])
            arg = r.e(n["args"][1]) if len(n["args"]) > 1 else ""
            ok = "tolerance" in arg
            if not ok:
                # a parameter that every caller binds to the tolerance
                a = peel_refs(n["args"][1])
                if a.get("k") == "Path" and "local" in a:
                    pidx = [i for i, p in enumerate(fn["params"]) if p.get("k") == "Bind" and p["local"] == a["local"]]
                    if pidx:
                        callers = []
                        for g in fns:
                            for x in walk(g["body"]):
                                if x.get("k") == "MethodCall" and x["name"] == fn["d"]["name"] and len(x["args"]) >= pidx[0]:
                                    callers.append(Render(g["crate"]).e(x["args"][pidx[0] - 1]))
                        ok = bool(callers) and all("tolerance" in s for s in callers)
            if ok:
                res.ok()
            else:
                res.violate("%s : radius-not-tolerance" % fn_key(fn), "within_range is queried with `%s`, which is not the configured tolerance" % arg[:60], fn_loc(fn, n["ln"]))
    return res.finish(4)


def rule_order(ctx):
    res = RuleResult("R-C08-order", "results of within_range (documented as unordered) are never indexed by rank without a sort")
    F = ctx.facts()
    fns = cl_fns(F, "dbscan") + cl_fns(F, "optics")
    by_name = {}
    for f in fns:
        by_name.setdefault(f["d"]["name"], []).append(f)
    tainted_params = {}     # (fn id, param local id) -> True
    returns_taint = set()   # fn ids
    reports = {}
    sites = []

    def analyse(fn):
        c = fn["crate"]
        tainted = set(l for (fid, l) in tainted_params if fid == id(fn))
        sorted_locals = {}
        pm = parent_map(fn["body"])
        changed = False

        def is_tainted(n):
            n = peel_refs(n)
            kk = n.get("k")
            if kk == "Path" and "local" in n:
                return n["local"] in tainted and n["local"] not in sorted_locals
            if kk == "MethodCall":
                if n["name"] == "within_range":
                    return True
                if n["name"] in ORDER_PRESERVING:
                    return is_tainted(n["recv"])
                for g in by_name.get(n["name"], []):
                    if id(g) in returns_taint:
                        return True
            return False
        for n in walk(fn["body"]):
            kk = n.get("k")
            if kk == "LetStmt" and n.get("init") is not None and is_tainted(n["init"]):
                for b in pat_bindings(n["pat"]):
                    if b["local"] not in tainted:
                        tainted.add(b["local"])
            if kk == "MethodCall" and n["name"] in SORTS:
                rl = peel_refs(n["recv"])
                if rl.get("k") == "Path" and rl.get("local") in tainted:
                    sorted_locals[rl["local"]] = n
            if kk == "MethodCall":
                # pass taint into workspace callees
                for g in by_name.get(n["name"], []):
                    for i, a in enumerate(n["args"]):
                        if is_tainted(a) and i + 1 < len(g["params"]) and g["params"][i + 1].get("k") == "Bind":
                            key = (id(g), g["params"][i + 1]["local"])
                            if key not in tainted_params:
                                tainted_params[key] = True
                                changed = True
            # sinks
            sink = None
            if kk == "MethodCall" and n["name"] in RANK and is_tainted(n["recv"]):
                sink = "`.%s(..)`" % n["name"]
            elif kk == "Index" and is_tainted(n["e"]):
                it = c.ty(strip(n["i"]).get("t")) or ""
                if it in ("usize",) or "Range" in it:
                    sink = "indexing `[..]`"
            if sink:
                sites.append((fn, n, sink))
        if is_tainted(strip(fn["body"])) or any(is_tainted(x["e"]) for x in walk(fn["body"]) if x.get("k") == "Ret" and x.get("e")):
            if id(fn) not in returns_taint:
                returns_taint.add(id(fn))
                changed = True
        else:
            b = strip(fn["body"])
            if b.get("k") == "Block" and b.get("e") is not None and is_tainted(b["e"]):
                if id(fn) not in returns_taint:
                    returns_taint.add(id(fn))
                    changed = True
        return changed
    for _ in range(5):
        sites.clear()
        ch = False
        for fn in fns:
            ch = analyse(fn) or ch
        if not ch:
            break
    n_sources = sum(1 for fn in fns for n in walk(fn["body"]) if n.get("k") == "MethodCall" and n["name"] == "within_range")
    for fn in fns:
        for n in walk(fn["body"]):
            if n.get("k") == "MethodCall" and n["name"] == "within_range":
                res.instance("%s : within_range result" % fn_key(fn))
    res.info.append("functions returning range-query order: %s; parameters receiving it: %d" % (sorted(fn_key(f) for f in fns if id(f) in returns_taint), len(tainted_params)))
    seen = set()
    for fn, n, sink in sites:
        key = "%s : rank-use:%s" % (fn_key(fn), sink.strip("`.(). "))
        if key in seen:
            continue
        seen.add(key)
        res.instance(key)
        res.violate(key, "a value in range-query order (within_range is documented as returning points in no particular order) is used by rank through %s without a sort on the distance: the result depends on the neighbour index" % sink, fn_loc(fn, n["ln"]))
    res.obligations += n_sources
    res.discharged += n_sources
    return res.finish(2)


def rule_once(ctx):
    res = RuleResult("R-C08-once", "OPTICS marks a sample as processed in the same step in which it appends it to the ordering")
    F = ctx.facts()
    fns = [f for f in cl_fns(F, "optics") if f["d"]["name"] == "transform" and "OpticsAnalysis" in f["output"]]
    if not fns:
        res.missing_anchor("<OpticsValidParams as Transformer>::transform")
    for fn in fns:
        c = fn["crate"]
        r = Render(c)
        key = fn_key(fn)
        n_push = 0
        for blk in walk(fn["body"]):
            if blk.get("k") != "Block":
                continue
            stmts = [strip(x) for x in blk["stmts"]] + ([strip(blk["e"])] if blk.get("e") else [])
            pushes = [x for x in stmts if x.get("k") == "MethodCall" and x["name"] == "push" and "orderings" in r.e(x["recv"])]
            for pcall in pushes:
                n_push += 1
                what = r.e(pcall["args"][0]).replace(".clone()", "")
                inst = "%s : orderings.push(%s) #%d" % (key, what[:20], n_push)
                res.instance(inst)
                # the "already listed" set is recognised by its type (a set of sample indices), not by its name
                def is_index_set(n_):
                    t = c.ty(peel_refs(n_).get("t")) or ""
                    return "Set<usize" in t
                ins = [x for x in stmts if x.get("k") == "MethodCall" and x["name"] == "insert" and is_index_set(x["recv"]) and x["args"] and r.e(x["args"][0]).startswith(what.strip("&") + ".index")]
                if ins:
                    res.ok()
                else:
                    res.violate("%s : listed-without-processed:#%d" % (key, n_push), "`%s` is appended to the ordering without being inserted into `processed` in the same step: a later core point can seed it again and it is listed twice" % what[:30], fn_loc(fn, pcall["ln"]))
        if n_push < 2:
            res.missing_anchor("the two orderings.push sites of OPTICS (found %d)" % n_push)
    return res.finish(2)


rule_memorder = layout.make_rule("R-C08-memorder", "raw memory-order buffers (as_slice_memory_order, into_raw_vec, as_ptr) of observations are used by position only behind an is_standard_layout() test", lambda f: f["d"]["krate"] == "linfa_clustering" and ("dbscan" in fn_file(f) or "optics" in fn_file(f)), "linfa-clustering dbscan/optics")

def _total_sort(call):
    """a sort of the elements by a total order on the elements themselves: sort() / sort_unstable(), or a comparator
    that is `a.cmp(b)` / `b.cmp(a)` on its two parameters, or sort_by_key with the identity key"""
    nm = call["name"]
    if nm in ("sort", "sort_unstable") and not call["args"]:
        return True
    if nm in ("sort_by", "sort_unstable_by") and call["args"]:
        clo = strip(call["args"][0])
        if clo.get("k") == "Closure" and len(clo["params"]) == 2:
            ps = [set(b["local"] for b in pat_bindings(p_)) for p_ in clo["params"]]
            body = strip(clo["body"])
            while body.get("k") == "Block" and not body["stmts"] and body.get("e"):
                body = strip(body["e"])
            if body.get("k") == "MethodCall" and body["name"] == "cmp" and len(body["args"]) == 1:
                a, b = peel_refs(body["recv"]), peel_refs(body["args"][0])
                if a.get("k") == "Path" and b.get("k") == "Path":
                    la, lb = a.get("local"), b.get("local")
                    return (la in ps[0] and lb in ps[1]) or (la in ps[1] and lb in ps[0])
    if nm in ("sort_by_key", "sort_unstable_by_key", "sort_by_cached_key") and call["args"]:
        clo = strip(call["args"][0])
        if clo.get("k") == "Closure" and len(clo["params"]) == 1:
            ps = set(b["local"] for b in pat_bindings(clo["params"][0]))
            body = peel_refs(clo["body"])
            return body.get("k") == "Path" and body.get("local") in ps
    return False


def rule_start(ctx):
    """Every sample from which seeds are collected is already listed: get_seeds(.., o, ..) computes reachabilities
    max(core(o), d(o, .)) for o's neighbours, and the property requires o to be listed no later than any sample that
    carries such a reachability.  Both call sites (the start sample of a cluster, and each seed picked afterwards) must
    therefore be preceded, in the same iteration, by the insertion of o into the listed set - otherwise o is collected
    as a seed of itself and a neighbour can be listed before it."""
    from .layout import with_parents
    res = RuleResult("R-C08-start", "OPTICS collects seeds only from a sample that it has already listed (marked processed) in the same iteration")
    F = ctx.facts()
    fns = [f for f in cl_fns(F, "optics") if f["d"]["name"] == "transform" and "OpticsAnalysis" in f["output"]]
    if not fns:
        res.missing_anchor("<OpticsValidParams as Transformer>::transform")
    for fn in fns:
        c = fn["crate"]
        key = fn_key(fn)
        n_sites = 0
        for x, anc in with_parents(fn["body"]):
            if x.get("k") != "MethodCall" or x["name"] != "get_seeds" or len(x["args"]) < 2:
                continue
            n_sites += 1
            o = peel_refs(x["args"][1])
            inst = "%s : get_seeds #%d from `%s`" % (key, n_sites, o.get("name", "?"))
            res.instance(inst)
            if o.get("k") != "Path" or "local" not in o:
                res.undecided("%s : seed-source-form" % key, "the sample handed to get_seeds is not a plain local", fn_loc(fn, x["ln"]))
                continue
            listed = False
            chain = list(anc) + [x]
            for j in range(len(anc) - 1, -1, -1):
                blk = anc[j]
                if blk.get("k") == "Loop":
                    break
                if blk.get("k") != "Block":
                    continue
                stmts = blk["stmts"] + ([blk["e"]] if blk.get("e") else [])
                child = chain[j + 1]
                for st in stmts:
                    if st is child or strip(st) is child:
                        break
                    for y in walk(st):
                        if y.get("k") == "MethodCall" and y["name"] == "insert" and y["args"] and "Set<usize" in (c.ty(peel_refs(y["recv"]).get("t")) or ""):
                            a0 = peel_refs(y["args"][0])
                            if a0.get("k") == "Field" and a0["name"] == "index" and peel_refs(a0["e"]).get("local") == o["local"]:
                                listed = True
            if listed:
                res.ok()
            else:
                res.violate("%s : seeds-from-unlisted-sample:%s" % (key, o.get("name")), "seeds are collected from `%s` before it is marked as listed: it becomes a seed of itself (distance 0, reachability = its own core distance), and a neighbour that wins the tie is listed before it with a reachability derived from a sample listed later" % o.get("name"), fn_loc(fn, x["ln"]))
        if n_sites < 2:
            res.missing_anchor("the two get_seeds call sites of OPTICS (found %d)" % n_sites)
    return res.finish(2)


def _total_pick(call):
    """the comparator of a min_by / max_by compares the two elements themselves (bindings of its two parameters, which
    are distinct sample indices) directly with `cmp` - as the whole comparison or as a then / then_with tie-break"""
    if call["name"] not in ("min_by", "max_by") or not call["args"]:
        return False
    clo = strip(call["args"][0])
    if clo.get("k") != "Closure" or len(clo["params"]) != 2:
        return False
    ps = [set(b["local"] for b in pat_bindings(p_)) for p_ in clo["params"]]
    for n in walk(clo["body"]):
        if n.get("k") == "MethodCall" and n["name"] == "cmp" and len(n["args"]) == 1:
            a, b = peel_refs(n["recv"]), peel_refs(n["args"][0])
            if a.get("k") == "Path" and b.get("k") == "Path":
                la, lb = a.get("local"), b.get("local")
                if (la in ps[0] and lb in ps[1]) or (la in ps[1] and lb in ps[0]):
                    return True
    return False


def rule_tie(ctx):
    """OPTICS picks the next sample as the first seed of minimal reachability.  The seed list is filled in the order
    in which the range query returned the neighbours (sorting the neighbours by distance leaves equidistant ones in
    that order), so with ties the pick - and the whole ordering - depends on the neighbour index unless the list is
    brought into a canonical order (a total sort on the sample indices) before the pick, or the comparison itself
    breaks ties by index."""
    from .taint import extremum_is_total
    res = RuleResult("R-C08-tie", "the seed of minimal reachability is picked from a canonically ordered list (total sort on the indices before the pick, or an index tie-break in the comparison)")
    F = ctx.facts()
    fns = [f for f in cl_fns(F, "optics") if f["d"]["name"] == "transform" and "OpticsAnalysis" in f["output"]]
    if not fns:
        res.missing_anchor("<OpticsValidParams as Transformer>::transform")
    # functions returning neighbours in range-query order up to a partial sort
    helpers = {}
    for g in cl_fns(F, "optics"):
        if any(x.get("k") == "MethodCall" and x["name"] == "within_range" for x in walk(g["body"])):
            total = any(x.get("k") == "MethodCall" and x["name"] in SORTS and _total_sort(x) for x in walk(g["body"]))
            helpers[g["d"]["name"]] = total
    for fn in fns:
        c = fn["crate"]
        key = fn_key(fn)
        tainted = set()
        names = {}
        for n in walk(fn["body"]):
            if n.get("k") == "LetStmt" and n.get("init") is not None:
                calls = [x for x in walk(n["init"]) if x.get("k") == "MethodCall" and (x["name"] == "within_range" or (x["name"] in helpers and not helpers[x["name"]]))]
                if calls:
                    for b in pat_bindings(n["pat"]):
                        tainted.add(b["local"])
                        names[b["local"]] = b["name"]
        # a Vec handed as &mut to a call that also receives a tainted value is filled in that order
        filled = set()
        sorted_fill = set()
        for n in walk(fn["body"]):
            if n.get("k") == "MethodCall" and any(peel_refs(a).get("local") in tainted for a in n["args"]):
                for a in n["args"]:
                    a0 = strip(a)
                    if a0.get("k") == "Ref" and a0.get("mut"):
                        t = peel_refs(a0)
                        ty = c.ty(t.get("t")) or ""
                        if t.get("k") == "Path" and "local" in t and ty.startswith("std::vec::Vec<") or ty.startswith("Vec<") or "vec::Vec<" in ty[:40]:
                            if t.get("k") == "Path" and "local" in t:
                                filled.add(t["local"])
                                names[t["local"]] = t.get("name")
                                # a filler that puts every new element where a binary search over the list says it belongs
                                # keeps the list in the order of that search's comparator: canonical if it is total
                                g_ = next((h for h in c.fns if h["def"] in (n.get("inst"), n.get("def"))), None)
                                if g_ is not None:
                                    pos_locals = set()
                                    for y in walk(g_["body"]):
                                        if y.get("k") == "LetStmt" and y.get("init") is not None and any(z.get("k") == "MethodCall" and z["name"].startswith("binary_search") for z in walk(y["init"])):
                                            pos_locals |= set(b["local"] for b in pat_bindings(y["pat"]))
                                    ins_ = [y for y in walk(g_["body"]) if y.get("k") == "MethodCall" and y["name"] == "insert" and len(y["args"]) == 2]
                                    pushes_ = [y for y in walk(g_["body"]) if y.get("k") == "MethodCall" and y["name"] in ("push", "extend", "append", "push_back")]
                                    if ins_ and not pushes_ and all(peel_refs(y["args"][0]).get("local") in pos_locals or any(z.get("k") == "MethodCall" and z["name"].startswith("binary_search") for z in walk(y["args"][0])) for y in ins_):
                                        sorted_fill.add(t["local"])
        n_picks = 0
        from .layout import with_parents
        for x, anc in with_parents(fn["body"]):
            if x.get("k") != "MethodCall" or x["name"] not in ("min_by", "max_by", "min_by_key", "max_by_key", "position", "find"):
                continue
            rt = x["recv"]
            while True:
                rt = peel_refs(rt)
                if rt.get("k") == "MethodCall":
                    rt = rt["recv"]
                    continue
                break
            if rt.get("k") != "Path" or rt.get("local") not in filled:
                continue
            if any(a_.get("k") == "Closure" for a_ in anc):
                continue
            n_picks += 1
            inst = "%s : %s over `%s`" % (key, x["name"], names.get(rt["local"]))
            res.instance(inst)
            # statements before the pick in its enclosing blocks, up to the nearest loop (the same iteration)
            canon = False
            chain = list(anc) + [x]
            for j in range(len(anc) - 1, -1, -1):
                blk = anc[j]
                if blk.get("k") == "Loop":
                    break
                if blk.get("k") != "Block":
                    continue
                stmts = blk["stmts"] + ([blk["e"]] if blk.get("e") else [])
                child = chain[j + 1]
                for st in stmts:
                    if st is child or strip(st) is child:
                        break
                    for y in walk(st):
                        if y.get("k") == "MethodCall" and y["name"] in SORTS and peel_refs(y["recv"]).get("local") == rt["local"] and _total_sort(y):
                            canon = True
            total_cmp = _total_pick(x)
            if not total_cmp:
                try:
                    total_cmp = bool(extremum_is_total(x, c))
                except Exception:
                    total_cmp = False
            if not (canon or total_cmp) and rt["local"] in sorted_fill:
                res.undecided("%s : kept-sorted:%s" % (key, names.get(rt["local"])), "`%s` is filled by inserting at the position a binary search returns: it stays in the order of that search's comparator; that the comparator is total on the sample indices is not read (fail closed)" % names.get(rt["local"]), fn_loc(fn, x["ln"]))
            elif canon or total_cmp:
                res.ok()
                res.sample({"pick": inst, "canonical_order": "total sort before the pick" if canon else "tie-break in the comparison"})
            else:
                res.violate("%s : pick-in-query-order:%s" % (key, names.get(rt["local"])), "`%s` is filled in the order in which the range query returned the neighbours, and `%s` picks the first element of minimal reachability without a total sort of the list before it and without an index tie-break: with equal reachabilities the OPTICS ordering depends on the neighbour index" % (names.get(rt["local"]), x["name"]), fn_loc(fn, x["ln"]))
        if n_picks == 0:
            res.instance("%s : pick of the next seed" % key)
            res.undecided("%s : pick-not-found" % key, "no min_by / max_by pick over a list filled from a range query found in transform", fn_loc(fn))
    return res.finish(1)


def rule_dedup(ctx):
    """'OPTICS lists every sample exactly once, with core distance equal to the distance to its min_points-th nearest
    neighbour': the neighbour lists must keep every neighbour.  `dedup()` / `contains()` decide identity through the element
    type's PartialEq; OPTICS' Sample compares by reachability distance alone (it exists to order the seed list), so
    equality-based de-duplication merges *different* samples that happen to be equally far away - on lattices and
    duplicates the core distance is then read off a shortened list."""
    res = RuleResult("R-C08-dedup", "no equality-based de-duplication (dedup / dedup_by_key on the comparison key) of sample lists whose element equality ignores the sample's identity")
    F = ctx.facts()
    adts = {}
    for c in F.crates.values():
        for a in c.adts:
            adts.setdefault(a["path"].split("::")[-1], (c, a))
    eqs = {}
    for fn in F.all_fns():
        d = fn["d"]
        if d["name"] == "eq" and (d.get("trait") or "").endswith("PartialEq") and d.get("self_adt"):
            eqs[d["self_adt"].split("::")[-1]] = fn
    n = 0
    for fn in F.all_fns():
        d = fn["d"]
        if d["krate"] != "linfa_clustering" or fn.get("exp") or not any(x in d["path"] + " " + (d.get("self_adt") or "") for x in ("dbscan", "optics", "Dbscan", "Optics")):
            continue
        c = fn["crate"]
        n += 1
        key = fn_key(fn)
        found = False
        for y in walk(fn["body"]):
            if y.get("k") != "MethodCall" or y["name"] != "dedup" or y["args"]:
                continue
            ty = c.ty(peel_refs(y["recv"]).get("t")) or c.ty(y["recv"].get("t")) or ""
            el = None
            for nm in re.findall(r"\b([A-Z]\w*)\b", ty):
                if nm in eqs and nm not in ("Vec", "Option"):
                    el = nm
            if el is None:
                continue
            eq = eqs[el]
            ent = adts.get(el)
            if eq.get("exp") or ent is None or len(ent[1]["variants"]) != 1:
                continue
            fields = [f["name"] for f in ent[1]["variants"][0]["fields"] if "PhantomData" not in (f.get("ty") or "")]
            used = set(z["name"] for z in walk(eq["body"]) if z.get("k") == "Field")
            ignored = [f for f in fields if f not in used]
            if ignored:
                found = True
                res.instance("%s : dedup of %s" % (key, el))
                res.violate("%s : dedup-by-partial-equality:%s" % (key, el), "`dedup()` on a list of `%s`, whose hand-written PartialEq ignores %s: different samples with equal `%s` are merged and the list loses neighbours" % (el, ", ".join("`%s`" % f for f in ignored), "`, `".join(sorted(used & set(fields)))), fn_loc(fn, y.get("ln")))
        if not found:
            res.instance(key)
            res.ok()
    return res.finish(25)


def rule_seedarms(ctx):
    """OPTICS' get_seeds gives a neighbour its reachability from the current core point, max(core distance, distance):
    once when the neighbour is first seeded, and again when a later core point improves it.  Both arms store the same
    quantity; the improving arm compares that quantity with the old value."""
    res = RuleResult("R-C08-seedarms", "get_seeds stores one and the same reachability value in the first-time arm and in the improving arm, and compares that value with the old one")
    F = ctx.facts()
    fns = [f for f in F.all_fns() if f["d"]["krate"] == "linfa_clustering" and f["d"]["name"] == "get_seeds" and not f.get("exp")]
    if not fns:
        res.missing_anchor("OpticsValidParams::get_seeds")
    for fn in fns:
        c = fn["crate"]
        r = Render(c)
        key = fn_key(fn)
        res.instance(key)
        stores = []
        for y in walk(fn["body"]):
            if y.get("k") == "Assign" and peel_refs(y["l"]).get("k") == "Field" and peel_refs(y["l"])["name"] == "reachability_distance":
                v = peel_refs(y["r"])
                if v.get("k") == "Call" and len(v["args"]) == 1:
                    v = peel_refs(v["args"][0])
                stores.append((y, v))
        locs = [v.get("local") for _, v in stores]
        if len(stores) < 2 or None in locs:
            res.undecided("%s : store-shape" % key, "expected two stores of Some(<local>) into reachability_distance, found %d (fail closed)" % len(stores), fn_loc(fn))
            continue
        if len(set(locs)) != 1:
            res.violate("%s : arms-store-different-values" % key, "the arms of get_seeds store different quantities as the reachability distance (`%s` and `%s`): one of them is not max(core distance, distance)" % (r.e(stores[0][1])[:20], r.e(stores[1][1])[:20]), fn_loc(fn, stores[1][0]["ln"]))
            continue
        # the guard of the improving arm compares the stored quantity
        ok = True
        for y in walk(fn["body"]):
            if y.get("k") == "Match" and y.get("src", "Normal") == "Normal":
                for a in y["arms"]:
                    if a.get("guard") is not None and any(z is stores[0][0] or z is stores[1][0] for z in walk(a["body"])):
                        g = strip(a["guard"])
                        gl = set(z.get("local") for z in walk(g) if z.get("k") == "Path" and "local" in z)
                        if locs[0] not in gl:
                            ok = False
                            res.violate("%s : guard-compares-other-value" % key, "the improving arm is taken under `%s`, which does not compare the value it stores (`%s`)" % (r.e(g)[:40], r.e(stores[0][1])[:20]), fn_loc(fn, g.get("ln")))
        if ok:
            res.ok()
    return res.finish(1)


def rules(tier):
    from . import intnarrow
    return [rule_metric, rule_corerank, c07.rule_convpair, c07._address_rule(),
            intnarrow.make_rule("R-C08-narrow", lambda f: f["d"]["krate"] == "linfa_clustering" and any(x in f["d"]["path"] + " " + (f["d"].get("self_adt") or "") + " " + fn_file(f) for x in ("dbscan", "optics", "Dbscan", "Optics")), "DBSCAN and OPTICS (cluster ids, queue marks, neighbour counts)")] + _rules(tier)


def _rules(tier):
    from . import carry, c04
    from . import precision
    from . import c07
    return [rule_core, rule_self, rule_index, rule_order, rule_once, rule_memorder, rule_tie, rule_start, c07.rule_edge, c07.rule_unit, c07.rule_conserve, c07.rule_memorder,
            carry.make_clone_rule("R-C08-clone", {"linfa_clustering", "linfa_nn"}, 10), carry.make_setter_rule("R-C08-override", {"linfa_clustering"}, 10), c04.make_carry_rule("R-C08-carry", {"DbscanParams", "OpticsParams"}, 6),
            precision.make_rule("R-C08-precision", lambda f: f["d"]["krate"] == "linfa_clustering" and any(x in f["d"]["path"] + " " + (f["d"].get("self_adt") or "") for x in ("dbscan", "optics", "Dbscan", "Optics")), 30, "linfa-clustering dbscan / optics"), rule_dedup,
            carry.make_accessor_rule("R-C08-accessor", {"linfa_clustering", "linfa_nn"}, 10), carry.make_ctor_rule("R-C08-ctor", {"linfa_clustering", "linfa_nn"}, 4), rule_seedarms, c07.rule_dispatch]
