"""C11 - least-squares estimators: the structural clauses of 'return a minimiser of their documented objective'.

Optimality (KKT conditions, duality gaps) is a numerical statement about the solver's fixed point and is not decided.
What is visible in the shape of the code and necessary for it on every dataset is decided here."""
import re
from .core import RuleResult
from .facts import fn_key, fn_loc, fn_file, walk, strip, peel_refs, pat_bindings, Render
from .facts import lit_float, lit_number

LEVEL = ("Static analysis of linfa-elasticnet and linfa-linear's OLS. Decided, for all data: (intercept) the intercept an "
         "elastic-net fit publishes depends on the records - at the optimum it is mean(y) - mean(x).w, so an intercept "
         "computed from the targets alone is optimal only for centred features (violated on the pinned tree: known "
         "finding); (zero) the coordinate update clamps abs(t) - threshold at zero before the sign is restored and the block "
         "update returns zeros below the threshold, so coefficients under the l1 threshold are exactly zero; (terms) the "
         "soft threshold is built from l1_ratio*penalty*n and the denominator adds (1 - l1_ratio)*penalty*n, in both "
         "descents, and the duality gaps build l1_reg / l2_reg from the same factors; (stop) the final stopping rule "
         "compares the duality gap with tol*||y||^2 and the reported gap is the one that was compared; (ols) with "
         "fit_intercept a ones column is appended to the design, the intercept is the coefficient of that column and is "
         "removed from the parameters; without it the intercept is zero; predict adds the published intercept. Not "
         "decided: optimality itself, non-negativity of the gap, convergence.")
ASSUME = ["rustc resolution/typeck; HIR faithfully dumped"]


def fns_of(F, krate, name, adt=None, trait=None):
    out = []
    for fn in F.all_fns():
        d = fn["d"]
        if d["krate"] != krate or d["name"] != name or fn.get("exp") or "tests" in d["path"]:
            continue
        if adt is not None and not (d.get("self_adt") or "").endswith(adt):
            continue
        if trait is not None and not (d.get("trait") or "").endswith(trait):
            continue
        out.append(fn)
    return out


def rule_intercept(ctx):
    """d/db of 1/(2n)*||y - Xw - b||^2 vanishes at b = mean(y) - mean(x).w: the optimal intercept depends on the features
    (through their column means) unless the descent runs on centred features."""
    from .c12 import ingredients
    res = RuleResult("R-C11-intercept", "the intercept published by the elastic-net fits depends on the records (mean(y) - mean(x).w), not on the targets alone")
    F = ctx.facts()
    fits = fns_of(F, "linfa_elasticnet", "fit", trait="Fit")
    if len(fits) < 2:
        res.missing_anchor("the Fit impls of ElasticNetValidParams / MultiTaskElasticNetValidParams (found %d)" % len(fits))
    for fn in fits:
        c = fn["crate"]
        key = fn_key(fn)
        res.instance(key)
        lit = next((x for x in walk(fn["body"]) if x.get("k") == "Struct" and any(f_["name"] == "intercept" for f_ in x.get("fields") or [])), None)
        if lit is None:
            res.undecided("%s : model-literal" % key, "the model literal with an `intercept` field was not found (fail closed)", fn_loc(fn))
            continue
        key = "%s[%s]" % (key, ((c.dfn(lit.get("def")) or {}).get("path") or "").split("::")[-1])
        e = next(f_["e"] for f_ in lit["fields"] if f_["name"] == "intercept")
        ing = ingredients(fn, e)
        h = next((f_["e"] for f_ in lit["fields"] if f_["name"] == "hyperplane"), None)
        ing_h = ingredients(fn, h) if h is not None else set()
        if "call:records" in ing:
            res.ok()
        elif any(x.startswith("?") for x in ing):
            res.undecided("%s : intercept-source" % key, "the intercept's ingredients could not be resolved (fail closed)", fn_loc(fn, lit["ln"]))
        elif "call:records" in ing_h:
            res.violate("%s : intercept-ignores-features" % key, "the published intercept is computed from %s only, while the coefficients are fitted on the records as given: the optimal intercept is mean(y) - mean(x).w, so for features that are not centred the pair (w, b) does not minimise the documented objective" % sorted(x for x in ing if x.startswith("call:")), fn_loc(fn, lit["ln"]))
        else:
            res.undecided("%s : coefficients-source" % key, "the coefficients are not traced to the records (fail closed)", fn_loc(fn, lit["ln"]))
    return res.finish(2)


def _l1_terms(c, e, l1_local):
    """(mentions l1_ratio, mentions `1 - l1_ratio`)"""
    has = any(z.get("k") == "Path" and z.get("local") == l1_local for z in walk(e))
    one_minus = False
    for z in walk(e):
        if z.get("k") == "Binary" and z["op"] == "-" and peel_refs(z["r"]).get("local") == l1_local:
            l = peel_refs(z["l"])
            if (l.get("k") == "Call" and (c.dfn(strip(l["f"]).get("def")) or {}).get("name") == "one") or (l.get("k") == "Lit" and lit_float(l.get("v")) == 1.0):
                one_minus = True
    return has, one_minus


def rule_zero_terms(ctx):
    """'coefficients of features under the l1 threshold are exactly zero' and the objective's two penalty terms keep
    their roles: the l1 part is the soft threshold, the l2 part enters the denominator."""
    res = RuleResult("R-C11-terms", "soft threshold = l1_ratio*penalty*n clamped at zero (exact zeros); denominator adds (1 - l1_ratio)*penalty*n; the duality gaps use the same two terms")
    F = ctx.facts()
    for name in ("coordinate_descent", "block_coordinate_descent"):
        fns = fns_of(F, "linfa_elasticnet", name)
        if not fns:
            res.missing_anchor(name)
        for fn in fns:
            c = fn["crate"]
            r = Render(c)
            key = fn_key(fn)
            ps = {b["name"]: b["local"] for p_ in fn["params"] for b in pat_bindings(p_)}
            l1 = ps.get("l1_ratio")
            if l1 is None:
                res.instance(key)
                res.undecided("%s : l1-ratio-parameter" % key, "no parameter named l1_ratio (fail closed)", fn_loc(fn))
                continue
            # the coordinate update: a division whose numerator holds the soft threshold
            upd = None
            for y in walk(fn["body"]):
                if y.get("k") == "Binary" and y["op"] == "/" and any(z.get("k") == "Path" and z.get("local") == l1 for z in walk(y["l"])) and any(z.get("k") == "Path" and z.get("local") == l1 for z in walk(y["r"])):
                    upd = y
                    break
            res.instance("%s : threshold and denominator" % key)
            if upd is None:
                res.undecided("%s : update-shape" % key, "the coordinate update (soft threshold / denominator) was not found (fail closed)", fn_loc(fn))
                continue
            num_has, num_1m = _l1_terms(c, upd["l"], l1)
            den_has, den_1m = _l1_terms(c, upd["r"], l1)
            if num_has and not num_1m and den_1m:
                res.ok()
            elif num_1m and not den_1m:
                res.violate("%s : penalty-terms-swapped" % key, "the soft threshold is built from (1 - l1_ratio) and the denominator from l1_ratio: the l1 and l2 parts of the penalty have changed places", fn_loc(fn, upd["ln"]))
            elif not den_1m:
                res.violate("%s : l2-term-missing" % key, "the denominator of the coordinate update does not add (1 - l1_ratio)*penalty*n: the l2 part of the documented objective is not minimised", fn_loc(fn, upd["ln"]))
            else:
                res.violate("%s : l1-threshold" % key, "the soft threshold of the coordinate update is not built from l1_ratio alone: `%s`" % r.e(upd["l"])[:60], fn_loc(fn, upd["ln"]))
            # exact zeros: max(abs(t) - threshold, 0) in the scalar update
            if name == "coordinate_descent":
                res.instance("%s : clamp at zero" % key)
                clamp = None
                for y in walk(upd["l"]):
                    args = None
                    if y.get("k") == "Call" and (c.dfn(strip(y["f"]).get("def")) or {}).get("name") == "max" and len(y["args"]) == 2:
                        args = y["args"]
                    if y.get("k") == "MethodCall" and y["name"] == "max" and len(y["args"]) == 1:
                        args = [y["recv"], y["args"][0]]
                    if args:
                        zero = any(peel_refs(a).get("k") == "Call" and (c.dfn(strip(peel_refs(a)["f"]).get("def")) or {}).get("name") == "zero" or (peel_refs(a).get("k") == "Lit" and str(peel_refs(a).get("v")).strip("0._f3264") == "") for a in args)
                        diff = any(peel_refs(a).get("k") == "Binary" and peel_refs(a)["op"] == "-" and any(z.get("k") == "MethodCall" and z["name"] == "abs" for z in walk(peel_refs(a)["l"])) for a in args)
                        if zero and diff:
                            clamp = y
                has_abs_minus = any(y.get("k") == "Binary" and y["op"] == "-" and any(z.get("k") == "MethodCall" and z["name"] == "abs" for z in walk(y["l"])) for y in walk(upd["l"]))
                if clamp is not None:
                    res.ok()
                elif has_abs_minus:
                    res.violate("%s : threshold-not-clamped" % key, "`abs(t) - threshold` is not clamped at zero before the sign is restored: coefficients under the l1 threshold come out small and of the opposite sign instead of exactly zero", fn_loc(fn, upd["ln"]))
                else:
                    res.undecided("%s : soft-threshold-shape" % key, "the soft threshold was not recognised as signum * max(abs - threshold, 0) (fail closed)", fn_loc(fn, upd["ln"]))
    for fn in fns_of(F, "linfa_elasticnet", "block_soft_thresholding"):
        c = fn["crate"]
        key = fn_key(fn)
        res.instance("%s : zeros below the threshold" % key)
        ps = [b for p_ in fn["params"] for b in pat_bindings(p_)]
        thr = ps[1]["local"] if len(ps) > 1 else None
        ok = None
        for y in walk(fn["body"]):
            if y.get("k") == "If":
                cond = strip(y["c"])
                if cond.get("k") == "Binary" and cond["op"] in ("<", "<=", ">", ">=") and (peel_refs(cond["r"]).get("local") == thr or peel_refs(cond["l"]).get("local") == thr):
                    below = (cond["op"] in ("<", "<=") and peel_refs(cond["r"]).get("local") == thr) or (cond["op"] in (">", ">=") and peel_refs(cond["l"]).get("local") == thr)
                    zeros_then = any(z.get("k") == "Call" and (c.dfn(strip(z["f"]).get("def")) or {}).get("name") == "zeros" for z in walk(y["then"]) if strip(z.get("f") or {}).get("k") == "Path")
                    ok = below == zeros_then
        if ok:
            res.ok()
        elif ok is False:
            res.violate("%s : zeros-above-threshold" % key, "the block update returns zeros for blocks whose norm is above the threshold and the shrunk block below it", fn_loc(fn))
        else:
            res.undecided("%s : threshold-test" % key, "the comparison of the block norm with the threshold was not found (fail closed)", fn_loc(fn))
    # the duality gaps: l1_reg = l1_ratio*penalty*n, l2_reg = (1 - l1_ratio)*penalty*n
    for name in ("duality_gap", "duality_gap_mtl"):
        for fn in fns_of(F, "linfa_elasticnet", name):
            if fn["d"].get("self_adt"):
                continue
            c = fn["crate"]
            key = fn_key(fn)
            ps = {b["name"]: b["local"] for p_ in fn["params"] for b in pat_bindings(p_)}
            l1 = ps.get("l1_ratio")
            lets = {}
            for y in walk(fn["body"]):
                if y.get("k") == "LetStmt" and y.get("init") is not None and y["pat"].get("k") == "Bind":
                    lets[y["pat"]["name"]] = y["init"]
            res.instance("%s : l1_reg / l2_reg" % key)
            if l1 is None or "l1_reg" not in lets or "l2_reg" not in lets:
                res.undecided("%s : regularisation-terms" % key, "locals l1_reg / l2_reg not found (fail closed)", fn_loc(fn))
                continue
            a = _l1_terms(c, lets["l1_reg"], l1)
            b = _l1_terms(c, lets["l2_reg"], l1)
            if a == (True, False) and b[1]:
                res.ok()
            else:
                res.violate("%s : gap-terms" % key, "the duality gap builds l1_reg / l2_reg from other factors than l1_ratio and (1 - l1_ratio): it certifies another objective than the one that is minimised", fn_loc(fn))
    return res.finish(5)


def rule_stop(ctx):
    """'up to the stated tolerance ... the reported duality gap': the gap that ends the descent is compared with
    tol * ||y||^2 and is the one that is returned."""
    res = RuleResult("R-C11-stop", "the descents stop on `gap < tol*||y||^2` and return the gap that was compared")
    F = ctx.facts()
    for name in ("coordinate_descent", "block_coordinate_descent"):
        for fn in fns_of(F, "linfa_elasticnet", name):
            c = fn["crate"]
            r = Render(c)
            key = fn_key(fn)
            res.instance(key)
            found = False
            for y in walk(fn["body"]):
                if y.get("k") != "If":
                    continue
                cond = strip(y["c"])
                if cond.get("k") != "Binary" or cond["op"] not in ("<", "<=", ">", ">="):
                    continue
                l, rr = peel_refs(cond["l"]), peel_refs(cond["r"])
                names = (l.get("name"), rr.get("name"))
                if "gap" not in names:
                    continue
                if not any(z.get("k") == "Break" for z in walk(y["then"])):
                    continue
                found = True
                gap_left = l.get("name") == "gap"
                op = cond["op"] if gap_left else {"<": ">", "<=": ">=", ">": "<", ">=": "<="}[cond["op"]]
                other = rr if gap_left else l
                # the tolerance local must be rescaled by the squared norm of y
                scaled = None
                for z in walk(fn["body"]):
                    if z.get("k") != "LetStmt" or z.get("init") is None:
                        continue
                    init = None
                    if z["pat"].get("k") == "Bind" and z["pat"].get("local") == other.get("local"):
                        init = z["init"]
                    elif z["pat"].get("k") == "Tuple" and strip(z["init"]).get("k") == "Tup" and len(z["pat"]["pats"]) == len(strip(z["init"])["es"]):
                        # `let (d_w_tol, gap_tol) = (tol, tol * ..);`
                        for q, e_ in zip(z["pat"]["pats"], strip(z["init"])["es"]):
                            if q.get("k") == "Bind" and q.get("local") == other.get("local"):
                                init = e_
                    if init is not None:
                        ys = set(b["local"] for p_ in fn["params"][1:2] for b in pat_bindings(p_))
                        scaled = any(w.get("k") == "Binary" and w["op"] == "*" for w in walk(init)) and any(w.get("k") == "Path" and (w.get("name") == "y" or w.get("local") in ys) for w in walk(init))
                if scaled is None and other.get("local") in set(b["local"] for p_ in fn["params"] for b in pat_bindings(p_)):
                    scaled = False          # the raw tolerance parameter
                if scaled is None:
                    res.undecided("%s : tolerance-source" % key, "where the tolerance `%s` comes from was not found (fail closed)" % r.e(other)[:20], fn_loc(fn, y["ln"]))
                elif op not in ("<", "<="):
                    res.violate("%s : stop-inverted" % key, "the descent stops when the duality gap is ABOVE the tolerance (`%s`)" % r.e(cond)[:40], fn_loc(fn, y["ln"]))
                elif not scaled:
                    res.violate("%s : tolerance-not-scaled" % key, "the gap is compared with a tolerance that is not scaled by ||y||^2 (documented stopping rule: gap < tol*||y||^2)", fn_loc(fn, y["ln"]))
                else:
                    # the returned tuple carries the same `gap`
                    tail = strip(fn["body"])
                    while tail.get("k") == "Block" and tail.get("e") is not None:
                        tail = strip(tail["e"])
                    gl = (l if gap_left else rr).get("local")
                    if tail.get("k") == "Tup" and any(peel_refs(e).get("local") == gl for e in tail["es"]):
                        res.ok()
                    else:
                        res.violate("%s : reported-gap" % key, "the gap handed back is not the one the stopping rule compared", fn_loc(fn, tail.get("ln")))
            if not found:
                res.undecided("%s : stop-test" % key, "no `if gap < tol { break }` found (fail closed)", fn_loc(fn))
    return res.finish(2)


def rule_ols(ctx):
    """OLS with an intercept fits [X | 1]: the intercept is the coefficient of the ones column and is not also kept among
    the feature coefficients; without an intercept it is zero; predict adds the published intercept."""
    res = RuleResult("R-C11-ols", "OLS: under fit_intercept a ones column is appended along the feature axis, the intercept is the last coefficient and is removed from the parameters; otherwise the intercept is zero; predict adds it")
    F = ctx.facts()
    fits = [f for f in fns_of(F, "linfa_linear", "fit", trait="Fit") if (f["d"].get("self_adt") or "").endswith("LinearRegression")]
    if not fits:
        res.missing_anchor("<LinearRegression as Fit>::fit")
    for fn in fits:
        c = fn["crate"]
        r = Render(c)
        key = fn_key(fn)
        br = None
        for y in walk(fn["body"]):
            if y.get("k") == "If" and y.get("else") is not None and any(z.get("k") == "Field" and z["name"] == "fit_intercept" for z in walk(y["c"])):
                br = y
        res.instance("%s : branch on fit_intercept" % key)
        if br is None:
            res.undecided("%s : intercept-branch" % key, "no if/else on self.fit_intercept (fail closed)", fn_loc(fn))
            continue
        neg = any(z.get("k") == "Unary" and z["op"] == "!" for z in walk(br["c"]))
        with_b, without_b = (br["else"], br["then"]) if neg else (br["then"], br["else"])
        res.ok()
        # with intercept
        res.instance("%s : design gets a ones column" % key)
        cat = [z for z in walk(with_b) if z.get("k") == "Call" and (c.dfn(strip(z["f"]).get("def")) or {}).get("name") in ("concatenate", "stack", "hstack") and strip(z["f"]).get("k") == "Path"]
        ones = any(z.get("k") == "Call" and strip(z["f"]).get("k") == "Path" and (c.dfn(strip(z["f"]).get("def")) or {}).get("name") in ("ones", "from_elem") for z in walk(with_b))
        if cat and ones:
            ax = r.e(cat[0]["args"][0]).replace(" ", "") if cat[0]["args"] else ""
            if "Axis(1)" in ax:
                res.ok()
            else:
                res.violate("%s : ones-appended-along-samples" % key, "the ones are appended along `%s`, not along the feature axis" % ax[-10:], fn_loc(fn, cat[0]["ln"]))
        elif not ones:
            res.violate("%s : no-ones-column" % key, "with fit_intercept no constant column is added to the design: the model is fitted through the origin and an intercept is read from a feature coefficient", fn_loc(fn, with_b.get("ln")))
        else:
            res.undecided("%s : design-shape" % key, "how the ones column joins the design was not recognised (fail closed)", fn_loc(fn))
        res.instance("%s : intercept is the last coefficient and is removed" % key)
        lits = [z for z in walk(with_b) if z.get("k") == "Struct" and any(f_["name"] == "intercept" for f_ in z.get("fields") or [])]
        lets = {}
        for z in walk(with_b):
            if z.get("k") == "LetStmt" and z.get("init") is not None and z["pat"].get("k") == "Bind":
                lets.setdefault(z["pat"]["name"], []).append(z["init"])
        ic = lets.get("intercept", [None])[-1]
        pr = lets.get("params", [None])[-1]
        last_ok = ic is not None and any(z.get("k") == "MethodCall" and z["name"] == "last" for z in walk(ic))
        first_bad = ic is not None and any(z.get("k") == "MethodCall" and z["name"] == "first" for z in walk(ic)) or (ic is not None and any(z.get("k") == "Index" and str(peel_refs(z["i"]).get("v")) == "0" for z in walk(ic)))
        sliced = pr is not None and any(z.get("k") == "MethodCall" and z["name"] in ("slice", "slice_move", "slice_axis") for z in walk(pr)) and any(z.get("k") == "Binary" and z["op"] == "-" for z in walk(pr))
        if not lits:
            res.undecided("%s : model-literal" % key, "model literal not found in the intercept branch (fail closed)", fn_loc(fn))
        elif first_bad:
            res.violate("%s : intercept-from-first-coefficient" % key, "the ones column is appended last but the intercept is read from the first coefficient", fn_loc(fn))
        elif last_ok and sliced:
            res.ok()
        elif last_ok and not sliced:
            res.violate("%s : intercept-kept-among-parameters" % key, "the coefficient of the ones column is published as the intercept and also stays among the feature coefficients", fn_loc(fn))
        else:
            res.undecided("%s : intercept-source" % key, "the source of the intercept was not recognised (fail closed)", fn_loc(fn))
        res.instance("%s : zero intercept without fit_intercept" % key)
        lit0 = [z for z in walk(without_b) if z.get("k") == "Struct" and any(f_["name"] == "intercept" for f_ in z.get("fields") or [])]
        if lit0:
            e = peel_refs(next(f_["e"] for f_ in lit0[0]["fields"] if f_["name"] == "intercept"))
            zero = (e.get("k") == "Call" and ((c.dfn(strip(e["f"]).get("def")) or {}).get("name") in ("zero",) or ((c.dfn(strip(e["f"]).get("def")) or {}).get("name") == "cast" and str(peel_refs(e["args"][0]).get("v")).strip("0._f3264") == ""))) or (e.get("k") == "Lit" and str(e.get("v")).strip("0._f3264") == "")
            if zero:
                res.ok()
            else:
                res.violate("%s : nonzero-intercept-without-fit-intercept" % key, "without fit_intercept the model is built with intercept `%s`" % r.e(e)[:30], fn_loc(fn, lit0[0]["ln"]))
        else:
            res.undecided("%s : model-literal-0" % key, "model literal not found in the no-intercept branch (fail closed)", fn_loc(fn))
    return res.finish(4)


def rule_sweep(ctx):
    """Every sweep visits every feature with a non-zero column; and the residual is only ever changed by the rank-one
    corrections of a single feature - a term built from the whole design matrix and the whole coefficient array is a
    rebuild and has to start from the targets, not from the current residual."""
    from . import rowindex
    from .layout import with_parents
    res = RuleResult("R-C11-sweep", "the coordinate sweeps run over all features (a filtered list, never a prefix / strided / truncated one), and a whole-matrix term is added to the residual only after the residual was reset to the targets")
    F = ctx.facts()
    CUT = {"take_while", "skip_while", "take", "skip", "step_by", "map_while", "nth"}
    n = 0
    for name in ("coordinate_descent", "block_coordinate_descent"):
        for fn in fns_of(F, "linfa_elasticnet", name):
            c = fn["crate"]
            r = Render(c)
            key = fn_key(fn)
            inits = {}
            for y in walk(fn["body"]):
                if y.get("k") == "LetStmt" and y.get("init") is not None and y["pat"].get("k") == "Bind":
                    inits[y["pat"]["local"]] = y["init"]
            from .c17 import for_loops
            ps = [b for p_ in fn["params"] for b in pat_bindings(p_)]
            x_loc = ps[0]["local"]
            for it, pat, body, node in for_loops(fn["body"]):
                touches_r = any((y.get("k") == "MethodCall" and y["name"] == "scaled_add" and peel_refs(y["recv"]).get("name") == "r") or
                                (y.get("k") == "Call" and strip(y["f"]).get("k") == "Path" and (c.dfn(strip(y["f"]).get("def")) or {}).get("name") == "general_mat_mul") for y in walk(body))
                if not touches_r:
                    continue
                n += 1
                res.instance("%s : feature sweep over `%s`" % (key, r.e(it)[:50]))
                chain = rowindex._chain(it, inits)
                cut = [x for x in chain if x in CUT]
                # a filter on the features may only drop empty columns (squared norm zero): screening by anything else - the
                # correlation with the *target*, say - freezes a feature whose partial correlation is large
                screened = None
                srcs = [it]
                i0_ = peel_refs(it)
                if i0_.get("k") == "Path" and i0_.get("local") in inits:
                    srcs.append(inits[i0_["local"]])
                for e_ in srcs:
                    for y in walk(e_):
                        if y.get("k") == "MethodCall" and y["name"] in ("filter", "filter_map") and y["args"] and strip(y["args"][0]).get("k") == "Closure":
                            clo = strip(y["args"][0])
                            own = {b["local"] for p_ in clo["params"] for b in pat_bindings(p_)}
                            for z in walk(clo["body"]):
                                if z.get("k") == "Path" and "local" in z and z["local"] not in own:
                                    ini = inits.get(z["local"])
                                    is_norms = ini is not None and any(w.get("k") == "MethodCall" and w["name"] == "map_axis" for w in walk(ini)) and any(w.get("k") == "MethodCall" and w["name"] == "dot" for w in walk(ini))
                                    if not is_norms and z.get("name") not in ("x",):
                                        screened = (y, z.get("name"))
                if screened:
                    res.violate("%s : feature-sweep-screened:%s" % (key, screened[1]), "the features to visit are filtered by `%s`, a test that involves `%s`: only empty columns may be left out of the sweeps - a feature that is screened out by any other quantity keeps a zero coefficient although its partial correlation may exceed the threshold" % (r.e(screened[0]["args"][0])[:60], screened[1]), fn_loc(fn, node.get("ln")))
                elif cut:
                    res.violate("%s : feature-sweep-truncated:%s" % (key, cut[0]), "the features to visit are selected with `%s`: that keeps a prefix (or a stride) of the features, not all of those with a non-zero column - every feature behind the cut keeps a zero coefficient" % cut[0], fn_loc(fn, node.get("ln")))
                else:
                    res.ok()
            # whole-matrix terms
            for y, anc in with_parents(fn["body"]):
                if y.get("k") != "Call" or strip(y["f"]).get("k") != "Path" or (c.dfn(strip(y["f"]).get("def")) or {}).get("name") != "general_mat_mul" or len(y["args"]) != 5:
                    continue
                if peel_refs(y["args"][4]).get("name") != "r":
                    continue

                def whole(e, want):
                    e = peel_refs(e)
                    while e.get("k") == "MethodCall" and e["name"] in ("view", "t", "reversed_axes", "to_owned"):
                        e = peel_refs(e["recv"])
                    return e.get("k") == "Path" and (e.get("local") == want if isinstance(want, int) else e.get("name") == want)
                if not (whole(y["args"][1], x_loc) and whole(y["args"][2], "w")):
                    continue
                n += 1
                res.instance("%s : whole-matrix term at line %s" % (key, y.get("ln")))
                beta = peel_refs(y["args"][3])
                beta_zero = (beta.get("k") == "Call" and (c.dfn(strip(beta["f"]).get("def")) or {}).get("name") == "zero") or (beta.get("k") == "Lit" and str(beta.get("v")).strip("0.f3264_") == "")
                blk = next((a for a in reversed(anc) if a.get("k") == "Block"), None)
                reset = False
                if blk is not None:
                    for st in blk["stmts"]:
                        if any(z is y for z in walk(st)):
                            break
                        s0 = strip(st)
                        if (s0.get("k") == "MethodCall" and s0["name"] in ("assign", "fill") and peel_refs(s0["recv"]).get("name") == "r") or (s0.get("k") == "Assign" and peel_refs(s0["l"]).get("name") == "r"):
                            reset = True
                if beta_zero or reset:
                    res.ok()
                else:
                    res.violate("%s : residual-rebuilt-by-accumulation" % key, "`%s` adds -X*W to the *current* residual (beta = 1) without resetting it to the targets first: the result is Y - 2XW, not Y - XW" % r.e(y)[:60], fn_loc(fn, y.get("ln")))
    if n < 2:
        res.missing_anchor("feature sweeps of the coordinate descents (found %d)" % n)
    return res.finish(2)


def rule_filtered(ctx):
    from . import rowindex
    res = RuleResult("R-C11-filtered", "no filtered list of column positions is zipped with an unfiltered walk over the columns (the k-th surviving position is not column k)")
    F = ctx.facts()
    n = 0
    for fn in F.all_fns():
        if fn["d"]["krate"] != "linfa_elasticnet" or "tests" in fn["d"]["path"] or fn.get("exp"):
            continue
        if not any(y.get("k") == "Match" and y.get("src") == "ForLoopDesugar" for y in walk(fn["body"])):
            continue
        n += 1
        key = fn_key(fn)
        res.instance(key)
        bad = rowindex.filtered_index_zip(fn)
        if bad:
            res.violate("%s : filtered-positions-zipped-with-walk:%s" % (key, bad[0][1]), "a filtered list of positions is zipped with an unfiltered walk over `%s`: after the first filtered-out position every pair is (position j, element k < j)" % bad[0][1], fn_loc(fn, bad[0][0].get("ln")))
        else:
            res.ok()
    if n < 2:
        res.missing_anchor("loops in linfa-elasticnet (found %d functions)" % n)
    return res.finish(2)


def _ndim(c, n):
    t = c.ty(n.get("at") if "at" in n else n.get("t")) or c.ty(n.get("t")) or ""
    m = re.search(r"Dim<\[usize; ?(\d)\]>", t)
    return int(m.group(1)) if m else None


def rule_gap(ctx):
    """Structural clauses of 'the reported duality gap bounds the suboptimality'.

    (count) the penalties are scaled by the number of *samples*: a float made from `.len()` of a matrix is the number of
    elements, rows times columns.  (dualnorm) the dual of the l2,1 penalty of the multi-task problem is the largest row
    2-norm of X^T R: the max-norm taken on the matrix itself is the largest entry, which is smaller as soon as there are two
    tasks, and the dual point it certifies is not feasible.  (feasible) the residual is rescaled into the dual feasible set
    whenever its dual norm exceeds l1_reg - also for l1_reg = 0, where the feasible set is {0}; the unscaled branch is
    reached only when the dual norm is within the bound."""
    res = RuleResult("R-C11-gap", "duality gaps: sample counts are row counts, the multi-task dual norm is a maximum over row norms, the dual point is rescaled whenever its dual norm exceeds l1_reg")
    F = ctx.facts()
    fns = [f for f in F.all_fns() if f["d"]["krate"] == "linfa_elasticnet" and "tests" not in f["d"]["path"] and not f.get("exp") and "algorithm" in fn_file(f)]
    n_counts = 0
    for fn in fns:
        c = fn["crate"]
        r = Render(c)
        key = fn_key(fn)
        for y in walk(fn["body"]):
            # F::cast(<array>.len()) / <array>.len() as f64
            arg = None
            if y.get("k") == "Call" and len(y["args"]) == 1 and (c.dfn(strip(y["f"]).get("def")) or {}).get("name") in ("cast", "from", "from_usize"):
                arg = y["args"][0]
            elif y.get("k") == "Cast":
                arg = y["e"]
            if arg is None:
                continue
            a = peel_refs(arg)
            if a.get("k") == "MethodCall" and a["name"] in ("len", "nrows", "nsamples", "len_of") and "ArrayBase" in (c.ty(peel_refs(a["recv"]).get("t")) or "") + (c.ty(peel_refs(a["recv"]).get("at")) or ""):
                n_counts += 1
                res.instance("%s : count `%s`" % (key, r.e(a)[:40]))
                nd = _ndim(c, peel_refs(a["recv"]))
                if a["name"] == "len" and nd is not None and nd >= 2:
                    res.violate("%s : element-count-as-sample-count" % key, "`%s` is the number of *elements* of a %d-dimensional array (rows times columns), used as a count in the penalty / gap arithmetic: with more than one column every threshold is scaled by the number of columns" % (r.e(a)[:40], nd), fn_loc(fn, a.get("ln")))
                else:
                    res.ok()
    if n_counts < 3:
        res.missing_anchor("sample counts turned into floats in linfa-elasticnet (found %d)" % n_counts)
    gaps = [f for f in fns if f["d"]["name"] in ("duality_gap", "duality_gap_mtl") and not f["d"].get("self_adt")]
    if len(gaps) < 2:
        res.missing_anchor("duality_gap / duality_gap_mtl")
    for fn in gaps:
        c = fn["crate"]
        r = Render(c)
        key = fn_key(fn)
        inits = {}
        for y in walk(fn["body"]):
            if y.get("k") == "LetStmt" and y.get("init") is not None and y["pat"].get("k") == "Bind":
                inits[y["pat"]["local"]] = (y["pat"]["name"], y["init"])
        # the branch that rescales: its then-block divides l1_reg by the dual norm
        br = None
        for y in walk(fn["body"]):
            if y.get("k") == "If" and y.get("else") is not None and any(z.get("k") == "Binary" and z["op"] == "/" and peel_refs(z["l"]).get("k") == "Path" and peel_refs(z["r"]).get("k") == "Path" for z in walk(y["then"])):
                br = y
                break
        res.instance("%s : rescaling branch" % key)
        if br is None:
            res.undecided("%s : rescale-branch" % key, "no `if .. { l1_reg / dual_norm .. } else ..` (fail closed)", fn_loc(fn))
            continue
        div = next(z for z in walk(br["then"]) if z.get("k") == "Binary" and z["op"] == "/" and peel_refs(z["l"]).get("k") == "Path" and peel_refs(z["r"]).get("k") == "Path")
        num, den = peel_refs(div["l"]).get("local"), peel_refs(div["r"]).get("local")
        cond = strip(br["c"])
        while cond.get("k") in ("DropTemps", "Paren"):
            cond = strip(cond["e"])
        if cond.get("k") == "Binary" and cond["op"] in (">", ">=", "<", "<=") and {peel_refs(cond["l"]).get("local"), peel_refs(cond["r"]).get("local")} == {num, den}:
            gt = (cond["op"] in (">", ">=") and peel_refs(cond["l"]).get("local") == den) or (cond["op"] in ("<", "<=") and peel_refs(cond["r"]).get("local") == den)
            if gt:
                res.ok()
            else:
                res.violate("%s : rescale-condition-reversed" % key, "`%s`: the residual is rescaled when its dual norm is *within* the bound and left alone when it exceeds it" % r.e(cond)[:50], fn_loc(fn, br.get("ln")))
        elif cond.get("k") == "Binary" and cond["op"] == "&&":
            res.violate("%s : rescale-condition-narrowed" % key, "`%s`: the rescaling into the dual feasible set is skipped although the dual norm exceeds l1_reg (for l1_reg = 0 the feasible set is {0}): the unscaled residual is not dual feasible and the value reported is not an upper bound of the suboptimality" % r.e(cond)[:70], fn_loc(fn, br.get("ln")))
        else:
            res.undecided("%s : rescale-condition" % key, "`%s` (fail closed)" % r.e(cond)[:50], fn_loc(fn, br.get("ln")))
        # the dual norm
        res.instance("%s : dual norm" % key)
        if den not in inits:
            res.undecided("%s : dual-norm" % key, "the dual norm is not a local with an initialiser (fail closed)", fn_loc(fn))
            continue
        nm, init = inits[den]
        nmx = next((z for z in walk(init) if z.get("k") == "MethodCall" and z["name"] in ("norm_max", "norm_l1", "norm_l2", "norm")), None)
        if nmx is None:
            # the maximum written as a fold over per-lane norms: `xta.axis_iter(Axis(a)).map(|v| v.dot(&v).sqrt()).fold(0, max)`.
            # The lanes have to be the rows of X^T R (one per feature, running over the tasks): `axis_iter(Axis(0))` / `rows()` /
            # `outer_iter()`.  `axis_iter(Axis(1))` / `columns()` takes the norm over the features for each task.
            lanes = next((z for z in walk(init) if z.get("k") == "MethodCall" and z["name"] in ("axis_iter", "rows", "genrows", "outer_iter", "columns", "gencolumns", "lanes")), None)
            has_max = any((z.get("k") == "Path" and (c.dfn(z.get("def")) or {}).get("name") == "max") or (z.get("k") == "MethodCall" and z["name"] in ("max", "max_by", "fold")) for z in walk(init))
            if lanes is not None and has_max and fn["d"]["name"] == "duality_gap_mtl":
                axis = None
                if lanes["name"] == "axis_iter" and lanes["args"]:
                    a0 = peel_refs(lanes["args"][0])
                    if a0.get("k") == "Call" and a0["args"] and peel_refs(a0["args"][0]).get("k") == "Lit":
                        axis = str(peel_refs(a0["args"][0]).get("v")).rstrip("usize_")
                rows = lanes["name"] in ("rows", "genrows", "outer_iter") or axis == "0"
                cols = lanes["name"] in ("columns", "gencolumns") or axis == "1"
                if rows:
                    res.ok()
                elif cols:
                    res.violate("%s : dual-norm-over-columns" % key, "`%s` walks the columns of X^T R - l2 W (one per task) and takes each one's norm over the features: the dual norm of the l2,1 penalty is the largest *row* norm (one row per feature, the norm over the tasks); with more tasks than active features the value is too small or too large and the reported gap is not a bound" % r.e(lanes)[:50], fn_loc(fn, lanes.get("ln")))
                else:
                    res.undecided("%s : dual-norm-form" % key, "`%s` (fail closed)" % r.e(init)[:50], fn_loc(fn))
                continue
            res.undecided("%s : dual-norm-form" % key, "`%s` (fail closed)" % r.e(init)[:50], fn_loc(fn))
            continue
        nd = _ndim(c, peel_refs(nmx["recv"]))
        if nmx["name"] != "norm_max":
            res.violate("%s : dual-norm-kind:%s" % (key, nmx["name"]), "the dual norm is taken with `%s`: the dual of the l1 (l2,1) penalty is a maximum norm" % nmx["name"], fn_loc(fn, nmx.get("ln")))
        elif nd is not None and nd >= 2:
            res.violate("%s : dual-norm-over-entries" % key, "`%s` is the largest absolute *entry* of a matrix; the dual norm of the multi-task penalty is the largest row 2-norm, which is larger as soon as there are two tasks: the certified dual point is not feasible and the reported gap is too small" % r.e(nmx)[:50], fn_loc(fn, nmx.get("ln")))
        elif nd == 1:
            res.ok()
        else:
            res.undecided("%s : dual-norm-rank" % key, "rank of `%s` unknown (fail closed)" % r.e(nmx["recv"])[:40], fn_loc(fn, nmx.get("ln")))
    # the l2,1 norm of W: the square root is taken per row, then the rows are summed
    for fn in [f for f in gaps if f["d"]["name"] == "duality_gap_mtl"]:
        c = fn["crate"]
        r = Render(c)
        key = fn_key(fn)
        inits = {}
        for y in walk(fn["body"]):
            if y.get("k") == "LetStmt" and y.get("init") is not None and y["pat"].get("k") == "Bind":
                inits[y["pat"]["local"]] = (y["pat"]["name"], y["init"])
        res.instance("%s : l2,1 norm" % key)
        cand = None
        for y in walk(fn["body"]):
            if y.get("k") == "Binary" and y["op"] == "*":
                for a, b in ((y["l"], y["r"]), (y["r"], y["l"])):
                    a0, b0 = peel_refs(a), peel_refs(b)
                    if a0.get("k") == "Path" and b0.get("k") == "Path" and a0.get("local") in inits and b0.get("local") in inits:
                        ia = inits[a0["local"]][1]
                        ib = inits[b0["local"]][1]
                        if any(w.get("k") == "Path" and w.get("name") == "l1_ratio" for w in walk(ia)) and any(w.get("k") == "MethodCall" and w["name"] == "sqrt" for w in walk(ib)):
                            cand = (b0, ib)
        if cand is None:
            res.undecided("%s : l21-term" % key, "the `l1_reg * ||W||_2,1` term was not found (fail closed)", fn_loc(fn))
            continue
        top = peel_refs(cand[1])
        if top.get("k") == "MethodCall" and top["name"] == "sqrt" and any(w.get("k") == "MethodCall" and w["name"] == "sum" for w in walk(top["recv"])):
            res.violate("%s : l21-norm-root-after-row-sum" % key, "`%s`: the square root is taken after the sum over the rows - that is the Frobenius norm, smaller than the l2,1 norm as soon as two rows are non-zero; the reported gap is then too small (negative) and no upper bound" % r.e(top)[:60], fn_loc(fn, top.get("ln")))
        elif top.get("k") == "MethodCall" and top["name"] == "sum":
            res.ok()
        else:
            res.undecided("%s : l21-form" % key, "`%s` (fail closed)" % r.e(top)[:50], fn_loc(fn, top.get("ln")))
    return res.finish(6)


def rule_blocksoft(ctx):
    """The block soft-threshold is x * (1 - t / ||x||) outside the ball of radius t and zero inside *and on* it.  The
    threshold is l1_ratio * penalty * n, zero for ridge and for penalty 0 (both in the documented range), and ||x|| is zero
    for a feature orthogonal to every residual column: with a strict test the point ||x|| = t = 0 takes the division,
    0 / 0, and every coefficient becomes NaN."""
    res = RuleResult("R-C11-blocksoft", "block_soft_thresholding returns zero for ||x|| <= threshold (the boundary included, so that 0 / 0 is never formed)")
    F = ctx.facts()
    fns = [f for f in F.all_fns() if f["d"]["krate"] == "linfa_elasticnet" and f["d"]["name"] == "block_soft_thresholding"]
    if not fns:
        res.missing_anchor("block_soft_thresholding")
    for fn in fns:
        c = fn["crate"]
        r = Render(c)
        key = fn_key(fn)
        res.instance(key)
        div = next((y for y in walk(fn["body"]) if y.get("k") == "Binary" and y["op"] == "/" and peel_refs(y["r"]).get("k") == "Path" and "local" in peel_refs(y["r"])), None)
        if div is None:
            res.undecided("%s : division" % key, "no `threshold / norm` (fail closed)", fn_loc(fn))
            continue
        den = peel_refs(div["r"])["local"]
        num = peel_refs(div["l"]).get("local")
        guard = None
        for y in walk(fn["body"]):
            if y.get("k") == "If" and (y.get("ln") or 0) <= (div.get("ln") or 0) and any(z.get("k") == "Ret" for z in walk(y["then"])):
                cond = strip(y["c"])
                while cond.get("k") in ("DropTemps", "Paren"):
                    cond = strip(cond["e"])
                if cond.get("k") == "Binary" and {peel_refs(cond["l"]).get("local"), peel_refs(cond["r"]).get("local")} == {den, num}:
                    guard = cond
        negate = False
        if guard is None:
            # the same test as an if / else expression: the division sits in the branch that the zero region does not take
            from .layout import with_parents
            for y, anc in with_parents(fn["body"]):
                if y is not div:
                    continue
                for a in anc:
                    if a.get("k") != "If" or a.get("else") is None:
                        continue
                    cond = strip(a["c"])
                    while cond.get("k") in ("DropTemps", "Paren"):
                        cond = strip(cond["e"])
                    if cond.get("k") == "Binary" and {peel_refs(cond["l"]).get("local"), peel_refs(cond["r"]).get("local")} == {den, num}:
                        in_else = any(z is div for z in walk(a["else"]))
                        in_then = any(z is div for z in walk(a["then"]))
                        if in_else or in_then:
                            guard, negate = cond, in_then
        if guard is None:
            res.violate("%s : division-unguarded" % key, "`%s` is formed without an early return for norm <= threshold" % r.e(div)[:40], fn_loc(fn, div.get("ln")))
            continue
        op = guard["op"] if peel_refs(guard["l"]).get("local") == den else {"<": ">", "<=": ">=", ">": "<", ">=": "<=", "==": "==", "!=": "!="}[guard["op"]]
        if negate:
            # the division is taken when `den op num` holds: the zero region is the complement
            op = {">": "<=", ">=": "<", "<": ">=", "<=": ">", "==": "!=", "!=": "=="}[op]
        if op == "<=":
            res.ok()
        elif op == "<":
            res.violate("%s : boundary-takes-the-division" % key, "`%s` leaves norm == threshold to the division: for threshold 0 (ridge, penalty 0) and a feature orthogonal to the residuals this is 0 / 0, and the NaN spreads to every coefficient" % r.e(guard)[:40], fn_loc(fn, guard.get("ln")))
        else:
            res.violate("%s : guard-reversed" % key, "`%s` does not return zero inside the ball" % r.e(guard)[:40], fn_loc(fn, guard.get("ln")))
    return res.finish(1)


def rules(tier):
    from . import carry, precision, layout, c04, zeroskip, axisrole
    from . import inplace, sizeroute
    return [sizeroute.make_rule("R-C11-sizeroute", lambda f: f["d"]["krate"] in ("linfa_elasticnet", "linfa_linear"), "the linear models"),
            inplace.make_rule("R-C11-overwrite", lambda f: f["d"]["krate"] in ("linfa_elasticnet", "linfa_linear"), 3, "the linear models (elastic net, multi-task elastic net, OLS, isotonic, GLM)"),
            rule_gap, rule_blocksoft, zeroskip.make_rule("R-C11-zeroskip", lambda f: f["d"]["krate"] == "linfa_elasticnet" and f["d"]["name"] in ("coordinate_descent", "block_coordinate_descent"), ("r",), 4, "the residual in the coordinate descents"),
            zeroskip.make_exact_rule("R-C11-scale", lambda f: f["d"]["krate"] == "linfa_elasticnet" and f["d"]["name"] in ("coordinate_descent", "block_coordinate_descent"), ("r",), 6, "the residual"),
            rule_sweep, axisrole.make_rule("R-C11-axes", "linfa_elasticnet", {"duality_gap_mtl": {"x": ("samples", "features"), "y": ("samples", "tasks"), "w": ("features", "tasks"), "r": ("samples", "tasks")},
                                                                               "duality_gap": {"x": ("samples", "features"), "y": ("samples",), "w": ("features",), "r": ("samples",)}}, 2, "the duality gaps of linfa-elasticnet"),
            rule_filtered, carry.make_default_rule("R-C11-default", {"linfa_elasticnet", "linfa_linear"}, 1),
            rule_intercept, rule_zero_terms, rule_stop, rule_ols,
            carry.make_clone_rule("R-C11-clone", {"linfa_elasticnet", "linfa_linear"}, 6), carry.make_setter_rule("R-C11-override", {"linfa_elasticnet", "linfa_linear"}, 4),
            carry.make_accessor_rule("R-C11-accessor", {"linfa_elasticnet", "linfa_linear"}, 6), carry.make_ctor_rule("R-C11-ctor", {"linfa_elasticnet", "linfa_linear"}, 1),
            c04.make_carry_rule("R-C11-carry", {"ElasticNetParamsBase"}, 4),
            precision.make_rule("R-C11-precision", lambda f: f["d"]["krate"] == "linfa_elasticnet" or (f["d"]["krate"] == "linfa_linear" and "ols" in fn_file(f)), 30, "linfa-elasticnet and OLS"),
            layout.make_rule("R-C11-memorder", "raw memory-order buffers are used by position only behind a standard-layout test", lambda f: f["d"]["krate"] == "linfa_elasticnet" or (f["d"]["krate"] == "linfa_linear" and "ols" in fn_file(f)), "linfa-elasticnet and OLS")]
