"""Counts, indices and sizes narrowed to a small integer type.

A `usize` / `u64` quantity that counts samples, classes, features, documents or iterations is bounded by memory only.  An
`as u8` / `as u16` / `as u32` / `as i32` on it wraps silently beyond the small type's range: class 256 becomes class 0, the
65536th occurrence of a word restarts its counter, an iteration budget of 2^32 + m runs m iterations.  The tests stay far
below these sizes.

Rule: no `as` cast from usize / u64 / i64 / isize (or from a float that holds such a count) to an integer type of at most
32 bits, unless the value is (a) a literal or named constant, (b) visibly bounded (`% c`, `.min(c)`, `& mask` with a
constant), or (c) the exponent of `powi` (an i32 by signature; degrees and dimensions).  Narrow *storage* counts as a cast
too: an accumulator of a narrow type that is incremented per element."""
from .core import RuleResult
from .facts import fn_key, fn_loc, walk, strip, peel_refs, Render
from .taint import parent_map

WIDE = {"usize", "u64", "i64", "isize", "u128", "i128"}
NARROW = {"u8", "u16", "u32", "i8", "i16", "i32"}


def make_rule(rid, select, what, allow=None):
    allow = allow or {}

    def rule(ctx):
        res = RuleResult(rid, "no count, index or size of %s is narrowed to an integer type of at most 32 bits" % what)
        F = ctx.facts()
        n_fns = 0
        for fn in F.all_fns():
            if not select(fn) or fn.get("exp") or "tests" in fn["d"]["path"]:
                continue
            n_fns += 1
            c = fn["crate"]
            r = Render(c)
            key = fn_key(fn)
            pm = None
            for y in walk(fn["body"]):
                if y.get("k") == "AssignOp" and y["op"] == "+":
                    lt = (c.ty(y["l"].get("t")) or "").strip().lstrip("&").strip()
                    if lt in ("u8", "u16", "i8", "i16"):
                        res.instance("%s : counter `%s`" % (key, r.e(y)[:40]))
                        res.violate("%s : narrow-counter:%s" % (key, lt), "`%s` accumulates in a %s: the %s occurrence overflows (a panic with overflow checks, a restart from zero without)" % (r.e(y)[:40], lt, {"u8": "256th", "i8": "128th", "u16": "65536th", "i16": "32768th"}[lt]), fn_loc(fn, y.get("ln")))
                    continue
                if y.get("k") != "Cast":
                    continue
                tt = (c.ty(y.get("t")) or "").strip()
                src = peel_refs(y["e"])
                st = (c.ty(src.get("t")) or "").strip().lstrip("&").strip()
                if tt in ("i32", "i16", "i8") and st in ("f32", "f64") and not any(z.get("k") == "Lit" for z in [src]):
                    # counts kept as floats (confusion-matrix cells) turned into a narrow signed integer for exact arithmetic
                    if any(z.get("k") in ("Index", "MethodCall", "Path") for z in [src]) and not (src.get("k") == "MethodCall" and src["name"] in ("round", "floor", "ceil", "trunc", "signum")):
                        res.instance("%s : `%s`" % (key, r.e(y)[:40]))
                        res.violate("%s : count-narrowed:%s->%s" % (key, st, tt), "`%s` turns a float-held count into an %s: products and sums of such counts overflow from a few ten thousand samples on" % (r.e(y)[:50], tt), fn_loc(fn, y.get("ln")))
                    continue
                if tt not in NARROW or st not in WIDE:
                    continue
                if src.get("k") == "Lit":
                    continue
                if src.get("k") == "Path" and "def" in src and str((c.dfn(src["def"]) or {}).get("kind", "")).startswith(("Const", "AssocConst")):
                    continue
                res.instance("%s : `%s`" % (key, r.e(y)[:40]))
                bounded = any((z.get("k") == "Binary" and z["op"] in ("%", "&") and peel_refs(z["r"]).get("k") == "Lit") or (z.get("k") == "MethodCall" and z["name"] in ("min", "clamp", "rem_euclid") and z["args"]) for z in walk(src))
                if pm is None:
                    pm = parent_map(fn["body"])
                up = pm.get(id(y))
                while up is not None and up.get("k") in ("Paren", "DropTemps", "Ref", "Unary"):
                    up = pm.get(id(up))
                exponent = up is not None and up.get("k") in ("MethodCall", "Call") and (up.get("name") in ("powi", "pow", "checked_pow", "wrapping_pow") or (up.get("k") == "Call" and (c.dfn(strip(up["f"]).get("def")) or {}).get("name") in ("powi", "pow")))
                why = allow.get("%s : %s" % (key, r.e(y)[:40])) or allow.get(key)
                if bounded or exponent or why:
                    res.ok()
                else:
                    res.violate("%s : count-narrowed:%s->%s" % (key, st, tt), "`%s` narrows a %s to %s: beyond %s's range the value wraps silently (class 256 becomes class 0, a counter restarts, a budget of 2^32 + m becomes m) - sizes the tests never reach" % (r.e(y)[:50], st, tt, tt), fn_loc(fn, y.get("ln")))
        res.instance("%d functions of %s scanned" % (n_fns, what))
        if n_fns:
            res.ok()
        else:
            res.missing_anchor("functions of %s" % what)
        return res.finish(1)
    rule.__name__ = "rule_" + rid.replace("-", "_")
    return rule
