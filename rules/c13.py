"""C13 — SVM SMO solver: the bookkeeping that shrinking relies on."""
import re

from . import layout
from .core import RuleResult
from .facts import fn_file, fn_key, fn_loc, walk, strip, peel_refs, pat_bindings, Render, children

LEVEL = ("Static analysis of linfa-svm's SolverState: (swap) every per-variable container that any method indexes by a variable "
         "position is permuted by swap(i, j); (bound) no counted loop over positions reads its upper bound once from a field that "
         "its own body decrements; (space) in solve, position-indexed containers are never indexed with sample-space indices "
         "(values read from the position->sample map, or counters over dataset rows) and vice versa; (sv) the three 'is support "
         "vector' predicates are the same expression. Necessary conditions of 'fitting terminates with a model', 'published "
         "coefficients are feasible' and 'the permutation used by shrinking is undone on write-back' for every dataset and "
         "setting with shrinking enabled, which the test suite never does. KKT conditions and rho are not decided.")
ASSUME = ["rustc resolution/typeck; HIR faithfully dumped", "the dual coefficients published in Svm.alpha are indexed by sample, as the property states"]


def solver_fns(F):
    return [f for f in F.all_fns() if f["d"]["krate"] == "linfa_svm" and (f["d"].get("self_adt") or "").endswith("SolverState")]


def self_field(n):
    n = peel_refs(n)
    if n.get("k") == "Field":
        b = peel_refs(n["e"])
        if b.get("k") == "Path" and b.get("name") == "self":
            return n["name"]
    return None


def rule_swap(ctx):
    res = RuleResult("R-C13-swap", "every per-variable container indexed by position in SolverState is permuted by swap(i, j)")
    F = ctx.facts()
    fns = solver_fns(F)
    sw = [f for f in fns if f["d"]["name"] == "swap"]
    if not sw:
        res.missing_anchor("SolverState::swap")
        return res.finish(7)
    swapped = set()
    for n in walk(sw[0]["body"]):
        if n.get("k") == "MethodCall" and n["name"] in ("swap", "swap_indices") and len(n["args"]) == 2:
            f = self_field(n["recv"])
            if f:
                swapped.add(f)
    indexed = {}
    for fn in fns:
        if fn["d"]["name"] in ("new", "swap"):
            continue
        c = fn["crate"]
        for n in walk(fn["body"]):
            f = None
            if n.get("k") == "Index":
                f = self_field(n["e"])
                ity = c.ty(strip(n["i"]).get("t")) or ""
                if f and "Range" in ity:
                    f = None
            elif n.get("k") == "MethodCall" and n["name"] in ("distances", "self_distance"):
                f = self_field(n["recv"])
            if f:
                indexed.setdefault(f, set()).add(fn["d"]["name"])
    key = fn_key(sw[0])
    # per-variable containers: Vec-typed fields (and the permutable kernel)
    for f in sorted(indexed):
        if f in ("dataset",):
            continue
        res.instance("%s : field `%s` indexed by position in %s" % (key, f, sorted(indexed[f])))
        if f in swapped:
            res.ok()
        else:
            res.violate("%s : field-not-swapped:%s" % (key, f),
                        "`self.%s` is read by variable position in %s but swap(i, j) does not permute it: after shrinking swaps two variables, position i reads the other variable's `%s`" % (f, sorted(indexed[f]), f), fn_loc(sw[0]))
    res.sample({"swapped": sorted(swapped), "indexed_by_position": sorted(indexed)})
    return res.finish(7)


def rule_permute(ctx):
    """The permutable kernels keep `kernel_indices`, the table from a variable's *position* to its row of the kernel matrix;
    `swap_indices` permutes that table.  A per-variable field that swap_indices permutes too (`signs`) lives in position
    space and is read by position; a field it leaves alone (`targets`, `kernel_diag`, the kernel itself) lives in sample
    space and is read through the table.  Reading a sample-space field by position (or the reverse) is right only until the
    first swap - i.e. until shrinking moves a variable."""
    res = RuleResult("R-C13-permute", "in the Permutable impls a field left alone by swap_indices is read through kernel_indices, a field it permutes is read by position")
    F = ctx.facts()
    impls = {}
    for fn in F.all_fns():
        d = fn["d"]
        if d["krate"] == "linfa_svm" and (d.get("trait") or "").endswith("Permutable") and d.get("self_adt") and not fn.get("exp"):
            impls.setdefault(d["self_adt"], []).append(fn)
    if len(impls) < 3:
        res.missing_anchor("the three Permutable impls (found %d)" % len(impls))
    for adt, fns in sorted(impls.items()):
        sw = [f for f in fns if f["d"]["name"] == "swap_indices"]
        if not sw:
            continue
        swapped = set()
        for n in walk(sw[0]["body"]):
            if n.get("k") == "MethodCall" and n["name"] == "swap" and len(n["args"]) == 2 and self_field(n["recv"]):
                swapped.add(self_field(n["recv"]))
        table = "kernel_indices"
        if table not in swapped:
            res.instance("%s : position table" % fn_key(sw[0]))
            res.undecided("%s : position-table" % fn_key(sw[0]), "swap_indices does not swap `kernel_indices` (fail closed)", fn_loc(sw[0]))
            continue
        for fn in fns:
            if fn["d"]["name"] == "swap_indices":
                continue
            c = fn["crate"]
            r = Render(c)
            key = fn_key(fn)
            inits = {}
            for y in walk(fn["body"]):
                if y.get("k") == "LetStmt" and y.get("init") is not None and y["pat"].get("k") == "Bind":
                    inits[y["pat"]["local"]] = y["init"]

            def through(e, depth=0):
                for y in walk(e):
                    if y.get("k") == "Index" and self_field(y["e"]) == table:
                        return True
                    if y.get("k") == "MethodCall" and y["name"] in ("get", "get_unchecked") and self_field(y["recv"]) == table:
                        return True
                    if y.get("k") == "Path" and y.get("local") in inits and depth < 4 and through(inits[y["local"]], depth + 1):
                        return True
                return False
            # positions by contract: the usize parameters of the trait method, and what ranges over `0..length`
            pos_locals = {b["local"] for p_ in fn["params"][1:] for b in pat_bindings(p_)}
            for y in walk(fn["body"]):
                if y.get("k") == "MethodCall" and y["name"] in ("map", "for_each", "filter", "filter_map", "fold") and y["args"] and strip(y["args"][0]).get("k") == "Closure":
                    rv = peel_refs(y["recv"])
                    while rv.get("k") in ("Paren", "DropTemps"):
                        rv = peel_refs(rv["e"])
                    if rv.get("k") == "Struct" and "Range" in (c.ty(rv.get("t")) or ""):
                        for p_ in strip(y["args"][0])["params"]:
                            pos_locals |= {b["local"] for b in pat_bindings(p_)}

            def is_position(e):
                e = peel_refs(e)
                return e.get("k") == "Path" and e.get("local") in pos_locals
            for y in walk(fn["body"]):
                f = ix = None
                if y.get("k") == "Index":
                    f, ix = self_field(y["e"]), y["i"]
                    if f and "Range" in (c.ty(strip(ix).get("t")) or ""):
                        f = None
                elif y.get("k") == "MethodCall" and y["name"] in ("column", "row", "get", "get_unchecked") and len(y["args"]) == 1:
                    f, ix = self_field(y["recv"]), y["args"][0]
                if not f or f == table:
                    continue
                res.instance("%s : `%s` read with `%s`" % (key, f, r.e(ix)[:30]))
                thr = through(ix)
                if f in swapped and thr:
                    res.violate("%s : swapped-field-read-through-table:%s" % (key, f), "`self.%s` is permuted by swap_indices (it is in position space) but read with `%s`, which goes through kernel_indices: after a swap it is the entry of another variable" % (f, r.e(ix)[:40]), fn_loc(fn, y.get("ln")))
                elif f not in swapped and not thr and not is_position(ix):
                    # an index of unknown space (the parameter of a closure that a helper calls with whatever it computed):
                    # neither a position by the trait's contract nor visibly taken from the table
                    res.undecided("%s : index-space:%s" % (key, f), "`self.%s[%s]`: whether `%s` is a position or a sample index is not visible here (fail closed)" % (f, r.e(ix)[:30], r.e(ix)[:30]), fn_loc(fn, y.get("ln")))
                elif f not in swapped and not thr:
                    res.violate("%s : unswapped-field-read-by-position:%s" % (key, f), "`self.%s` is left alone by swap_indices (it is in sample space) but read with `%s`, a position that did not go through kernel_indices: right until the first swap only, i.e. until shrinking moves a variable" % (f, r.e(ix)[:40]), fn_loc(fn, y.get("ln")))
                else:
                    res.ok()
    return res.finish(5)


def rule_precombine(ctx):
    """The solver folds the support vectors into one hyperplane when the kernel is linear - and only then: `is_linear()` is
    the one definition of that (R-C13-islinear pins it to the linear kernel).  A second definition inside `solve` (degree-one
    polynomials, say) drops the kernel's constant from the stored hyperplane while rho keeps it; for the one-class problem
    (sum alpha = nu l, not 0) the decision values are off by c * nu * l."""
    res = RuleResult("R-C13-precombine", "SolverState::solve pre-combines the support vectors exactly when `is_linear()` says so")
    F = ctx.facts()
    fns = [f for f in solver_fns(F) if f["d"]["name"] == "solve"]
    if not fns:
        res.missing_anchor("SolverState::solve")
    for fn in fns:
        c = fn["crate"]
        r = Render(c)
        key = fn_key(fn)
        res.instance(key)
        inits = {}
        for y in walk(fn["body"]):
            if y.get("k") == "LetStmt" and y.get("init") is not None and y["pat"].get("k") == "Bind":
                inits[y["pat"]["local"]] = (y["pat"]["name"], y["init"])
        branch = None
        for loc, (nm, ini) in inits.items():
            i0 = strip(ini)
            if nm == "sep_hyperplane" and i0.get("k") == "If":
                branch = i0
        if branch is None:
            for y in walk(fn["body"]):
                if y.get("k") == "If" and y.get("else") is not None and any(z.get("k") == "MethodCall" and z["name"] == "scaled_add" for z in walk(y["then"])) and any(z.get("k") == "MethodCall" and z["name"] in ("push", "to_owned", "select") for z in walk(y["else"])):
                    branch = y
        if branch is None:
            res.undecided("%s : branch" % key, "the linear / non-linear branch was not found (fail closed)", fn_loc(fn))
            continue
        cnd = strip(branch["c"])
        while cnd.get("k") in ("DropTemps", "Paren"):
            cnd = strip(cnd["e"])
        src = cnd
        if cnd.get("k") == "Path" and cnd.get("local") in inits:
            src = strip(inits[cnd["local"]][1])
        inlined_linear = False
        if src.get("k") == "Match":
            # `matches!(method, KernelMethod::Linear)` / a match that is true for the linear kernel only
            true_for = set()
            readable = True
            for a in src["arms"]:
                p_ = a["pat"]
                while p_.get("k") == "Ref":
                    p_ = p_["pat"]
                vn = (c.dfn(p_.get("def")) or {}).get("name") if p_.get("k") in ("Path", "TupleStruct", "Struct") else ("_" if p_.get("k") == "Wild" else None)
                b_ = strip(a["body"])
                while b_.get("k") == "Block" and not b_.get("stmts") and b_.get("e") is not None:
                    b_ = strip(b_["e"])
                if b_.get("k") == "Lit" and str(b_.get("v")) in ("true", "false") and vn is not None:
                    if str(b_.get("v")) == "true":
                        true_for.add(vn)
                else:
                    readable = False
            inlined_linear = readable and true_for == {"Linear"}
        if (src.get("k") == "MethodCall" and src["name"] == "is_linear") or inlined_linear:
            res.ok()
        elif src.get("k") in ("Match", "Binary", "If") or (src.get("k") == "MethodCall" and src["name"] != "is_linear"):
            res.violate("%s : precombination-not-keyed-on-is-linear" % key, "the branch that folds the support vectors into one hyperplane is taken under `%s`, not under `is_linear()`: a kernel with a constant term (polynomial of degree one) is folded without that constant while rho keeps it" % r.e(src)[:60], fn_loc(fn, branch.get("ln")))
        else:
            res.undecided("%s : branch-condition" % key, "`%s` (fail closed)" % r.e(src)[:40], fn_loc(fn, branch.get("ln")))
    return res.finish(1)


def rule_bound(ctx):
    res = RuleResult("R-C13-bound", "no counted loop over positions takes its bound once from a field that its own body decrements")
    F = ctx.facts()
    fns = solver_fns(F)
    getters = {}   # method name -> field it returns
    for fn in fns:
        f = self_field(strip(fn["body"]))
        if f and len(fn["params"]) == 1:
            getters[fn["d"]["name"]] = f
    n_loops = 0
    for fn in fns:
        c = fn["crate"]
        key = fn_key(fn)
        for n in walk(fn["body"]):
            if n.get("k") != "Match" or n.get("src") != "ForLoopDesugar":
                continue
            sc = strip(n["scrut"])
            if sc.get("k") != "Call" or not sc["args"]:
                continue
            rng = strip(sc["args"][0])
            if rng.get("k") != "Struct":
                continue
            end = [x["e"] for x in rng["fields"] if x["name"] == "end"]
            if not end:
                continue
            bound_fields = set()
            for x in walk(end[0]):
                f = self_field(x) if x.get("k") == "Field" else None
                if f:
                    bound_fields.add(f)
                if x.get("k") == "MethodCall" and x["name"] in getters and peel_refs(x["recv"]).get("name") == "self":
                    bound_fields.add(getters[x["name"]])
            if not bound_fields:
                continue
            n_loops += 1
            written = {}
            body = n["arms"][0]["body"]
            for x in walk(body):
                if x.get("k") in ("Assign", "AssignOp"):
                    f = self_field(x["l"])
                    if f:
                        written.setdefault(f, x)
            inst = "%s : for .. in ..%s" % (key, "/".join(sorted(bound_fields)))
            res.instance(inst)
            hit = bound_fields & set(written)
            if hit:
                f = sorted(hit)[0]
                res.violate("%s : stale-loop-bound:%s" % (key, f),
                            "`for i in 0..<%s>` reads its bound once, but the loop body changes `self.%s` (line %d): the induction variable keeps running past the shrunken bound (the C original re-reads it every iteration); with every remaining variable shrinkable the field underflows" % (
                                f, f, written[f]["ln"]), fn_loc(fn, n["ln"]))
            else:
                res.ok()
    res.info.append("%d counted loops bounded by a SolverState field" % n_loops)
    return res.finish(10)


POSITION_RANGES = ("nactive", "ntotal")


def rule_space(ctx):
    res = RuleResult("R-C13-space", "position-indexed solver state is never indexed with sample-space indices in solve (and the published alpha is sample-indexed)")
    F = ctx.facts()
    fns = solver_fns(F)
    sw = [f for f in fns if f["d"]["name"] == "swap"]
    solve = [f for f in fns if f["d"]["name"] == "solve"]
    if not sw or not solve:
        res.missing_anchor("SolverState::swap / SolverState::solve")
        return res.finish(3)
    # inferred from the code's own swap: permuted fields are position-indexed; a permuted Vec<usize> maps position -> sample
    pos_fields, maps = set(), set()
    for n in walk(sw[0]["body"]):
        if n.get("k") == "MethodCall" and n["name"] in ("swap", "swap_indices") and len(n["args"]) == 2:
            f = self_field(n["recv"])
            if f:
                pos_fields.add(f)
                if "Vec<usize>" in (sw[0]["crate"].ty(peel_refs(n["recv"]).get("t")) or ""):
                    maps.add(f)
    # accessors that index a position field by their parameter: target(idx) -> targets[idx]
    pos_accessors = {}
    for fn in fns:
        if len(fn["params"]) == 2 and fn["params"][1].get("k") == "Bind":
            pid = fn["params"][1]["local"]
            for n in walk(fn["body"]):
                if n.get("k") == "Index" and self_field(n["e"]) in pos_fields and peel_refs(n["i"]).get("local") == pid:
                    pos_accessors[fn["d"]["name"]] = self_field(n["e"])
    fn = solve[0]
    c = fn["crate"]
    key = fn_key(fn)
    r = Render(c)
    res.info.append("position-indexed (inferred from swap): %s; position->sample maps: %s; accessors: %s" % (sorted(pos_fields), sorted(maps), pos_accessors))
    # tag index variables
    tag = {}   # local id -> 'position' | 'sample'

    def tag_of_range_end(e):
        for x in walk(e):
            if x.get("k") == "MethodCall" and x["name"] in POSITION_RANGES and peel_refs(x["recv"]).get("name") == "self":
                return "position"
            if x.get("k") == "MethodCall" and x["name"] == "len" and self_field(x["recv"]) in pos_fields:
                return "position"
            if x.get("k") == "MethodCall" and x["name"] in ("len_of", "nrows", "nsamples") and self_field(x["recv"]) == "dataset":
                return "sample"
        return None

    def bind_iter(pat_ids, it):
        """tag loop/closure variables from the iterator expression"""
        it = strip(it)
        chain = []
        cur = it
        while cur.get("k") == "MethodCall":
            chain.append(cur["name"])
            cur = strip(cur["recv"])
        cur = peel_refs(cur)
        t = None
        if cur.get("k") == "Struct":      # range
            end = [x["e"] for x in cur["fields"] if x["name"] == "end"]
            if end:
                t = tag_of_range_end(end[0])
            if t and pat_ids:
                tag[pat_ids[0]] = t
        elif self_field(cur) == "dataset" and "enumerate" in chain and pat_ids:
            tag[pat_ids[0]] = "sample"      # counter over dataset rows
        elif self_field(cur) in maps and pat_ids and not any(nm in chain for nm in ("zip", "map", "rev", "skip", "chain")):
            # `self.active_set.iter().map(|&sample| ..)`: what comes out of the map are sample indices; with `enumerate()` the
            # counter in front of them is a position
            if "enumerate" in chain and len(pat_ids) >= 2:
                tag[pat_ids[0]] = "position"
                tag[pat_ids[1]] = "sample"
            elif "enumerate" not in chain:
                tag[pat_ids[0]] = "sample"
    for n in walk(fn["body"]):
        if n.get("k") == "Match" and n.get("src") == "ForLoopDesugar":
            sc = strip(n["scrut"])
            if sc.get("k") == "Call" and sc["args"]:
                loop = next((x for x in walk(n["arms"][0]["body"]) if x.get("k") == "Loop"), None)
                if loop is None:
                    continue
                inner = strip(loop["body"]["e"] if loop["body"].get("e") else loop["body"]["stmts"][0])
                for a in inner.get("arms", []):
                    if a["pat"].get("pats") or a["pat"].get("fields"):
                        p = a["pat"]["pats"][0] if a["pat"].get("pats") else a["pat"]["fields"][0]["pat"]
                        ids = [b["local"] for b in pat_bindings(p)]
                        bind_iter(ids, sc["args"][0])
        if n.get("k") == "MethodCall" and n["name"] in ("map", "for_each", "filter") and n["args"]:
            clo = strip(n["args"][0])
            if clo.get("k") == "Closure" and clo["params"]:
                ids = [b["local"] for b in pat_bindings(clo["params"][0])]
                bind_iter(ids, n["recv"])

    def index_tag(e):
        e = peel_refs(e)
        if e.get("k") == "Path" and e.get("local") in tag:
            return tag[e["local"]]
        if e.get("k") == "Index" and self_field(e["e"]) in maps:
            return "sample"           # value read from the position -> sample map
        if e.get("k") == "Binary" and e["op"] in ("+", "-"):
            return index_tag(e["l"]) or index_tag(e["r"])
        return None
    # locals that flow into the published `alpha`: sample-indexed
    sample_locals = set()
    lits = [n for n in walk(fn["body"]) if n.get("k") == "Struct" and (c.dfn(n.get("def")) or {}).get("path", "").endswith("Svm")]
    names = {}
    for n in walk(fn["body"]):
        if n.get("k") == "LetStmt":
            for b in pat_bindings(n["pat"]):
                names.setdefault(b["name"], []).append(b["local"])
    if lits:
        for f in lits[-1]["fields"]:
            if f["name"] == "alpha":
                e = peel_refs(f["e"])
                if e.get("k") == "Path" and "local" in e:
                    sample_locals |= set(names.get(e["name"], [e["local"]]))
    n_sites = 0
    for n in walk(fn["body"]):
        cont, idx, what = None, None, None
        if n.get("k") == "Index":
            f = self_field(n["e"])
            base = peel_refs(n["e"])
            if f in pos_fields:
                cont, idx, what = "position", n["i"], "self.%s" % f
            elif base.get("k") == "Path" and base.get("local") in sample_locals:
                cont, idx, what = "sample", n["i"], base["name"]
        elif n.get("k") == "MethodCall" and n["name"] in pos_accessors and peel_refs(n["recv"]).get("name") == "self" and n["args"]:
            cont, idx, what = "position", n["args"][0], "self.%s(..)" % n["name"]
        if cont is None:
            continue
        t = index_tag(idx)
        n_sites += 1
        inst = "%s : %s[%s]" % (key, what, r.e(idx)[:50])
        res.instance(inst)
        if t is None or t == cont:
            res.ok()
            if t:
                res.sample({"site": inst, "container": cont, "index": t})
        else:
            res.violate("%s : %s-indexed-by-%s:%s" % (key, cont, t, what),
                        "%s is %s-indexed but is indexed with a %s-space index `%s`: when shrinking has permuted the variables this reads another variable's entry (the permutation is not undone / is applied in the wrong direction)" % (
                            what, cont, t, r.e(idx)[:60]), fn_loc(fn, n["ln"]))
    return res.finish(8)


def _sv_normal_form(F, fn, body, elem_locals, depth=0):
    """`|a| REL number * eps` as a canonical string: locals are followed to their initialisers, argument-less helper
    functions of the crate are inlined, `cast(100.)` / `cast(100u8)` are the number 100; None when the predicate has
    another shape (the caller falls back to comparing the text)"""
    c = fn["crate"]
    inits = {}
    for y in walk(fn["body"]):
        if y.get("k") == "LetStmt" and y.get("init") is not None and y["pat"].get("k") == "Bind":
            inits[y["pat"]["local"]] = y["init"]
    b = peel_refs(body)
    while b.get("k") == "Block" and not b["stmts"] and b.get("e") is not None:
        b = peel_refs(b["e"])
    if b.get("k") != "Binary" or b["op"] not in (">", ">=", "<", "<="):
        return None

    def is_abs(e):
        e = peel_refs(e)
        return e.get("k") == "MethodCall" and e["name"] == "abs" and peel_refs(e["recv"]).get("local") in elem_locals
    flip = {">": "<", "<": ">", ">=": "<=", "<=": ">="}
    if is_abs(b["l"]):
        op, thr = b["op"], b["r"]
    elif is_abs(b["r"]):
        op, thr = flip[b["op"]], b["l"]
    else:
        return None

    def factors(e, fn_, inits_, d=0):
        e = peel_refs(e)
        if d > 6:
            return None
        k_ = e.get("k")
        if k_ == "Path" and e.get("local") in inits_:
            return factors(inits_[e["local"]], fn_, inits_, d + 1)
        if k_ == "Binary" and e["op"] == "*":
            a, b_ = factors(e["l"], fn_, inits_, d + 1), factors(e["r"], fn_, inits_, d + 1)
            return None if a is None or b_ is None else a + b_
        if k_ == "Lit":
            try:
                return [float(re.sub(r"(_?[fiu](8|16|32|64|128|size))$", "", str(e.get("v")).replace("_", "")))]
            except ValueError:
                return None
        if k_ == "Call" and strip(e["f"]).get("k") == "Path":
            d0 = fn_["crate"].dfn(strip(e["f"]).get("def")) or {}
            nm = d0.get("name")
            if nm == "epsilon" and not e["args"]:
                return ["eps"]
            if nm in ("cast", "from") and len(e["args"]) == 1:
                return factors(e["args"][0], fn_, inits_, d + 1)
            if nm == "one" and not e["args"]:
                return [1.0]
            if not e["args"] and d0.get("krate") == fn_["d"]["krate"]:
                for g in F.all_fns():
                    if g["d"]["krate"] == d0.get("krate") and g["d"]["path"] == d0.get("path") and g["d"]["name"] == nm and not g["params"]:
                        gi = {}
                        for y in walk(g["body"]):
                            if y.get("k") == "LetStmt" and y.get("init") is not None and y["pat"].get("k") == "Bind":
                                gi[y["pat"]["local"]] = y["init"]
                        t = strip(g["body"])
                        while t.get("k") == "Block" and t.get("e") is not None:
                            t = strip(t["e"])
                        return factors(t, g, gi, d + 1)
        return None
    fs = factors(thr, fn, inits)
    if fs is None:
        return None
    num = 1.0
    for x in fs:
        if not isinstance(x, str):
            num *= x
    return "|a| %s %g*%s" % (op, num, "*".join(sorted(x for x in fs if isinstance(x, str))) or "1")


def rule_sv(ctx):
    res = RuleResult("R-C13-sv", "the 'is support vector' predicate is the same expression in solve, weighted_sum and nsupport")
    F = ctx.facts()
    preds = {}
    for fn in F.all_fns():
        d = fn["d"]
        if d["krate"] != "linfa_svm" or d["name"] not in ("solve", "weighted_sum", "nsupport"):
            continue
        c = fn["crate"]
        r = Render(c)
        for n in walk(fn["body"]):
            if n.get("k") == "MethodCall" and n["name"] == "filter" and n["args"]:
                clo = strip(n["args"][0])
                if clo.get("k") != "Closure":
                    continue
                body = strip(clo["body"])
                if not any(x.get("k") == "MethodCall" and x["name"] == "abs" for x in walk(body)):
                    continue
                ids = {b["local"]: "a" for p in clo["params"] for b in pat_bindings(p)}
                s = _sv_normal_form(F, fn, body, set(ids))
                if s is None:
                    s = r.e(body)
                    for p in clo["params"]:
                        for b in pat_bindings(p):
                            s = re.sub(r"\b%s\b" % re.escape(b["name"]), "a", s)
                    s = s.replace("*", "").replace("&", "")
                preds[fn_key(fn)] = (s, fn, n["ln"])
    for k_, (s, fn, ln) in sorted(preds.items()):
        res.instance("%s : %s" % (k_, s))
    if len(preds) < 3:
        res.missing_anchor("support-vector predicates in solve / weighted_sum / nsupport (found %d)" % len(preds))
    elif len(set(s for s, _, _ in preds.values())) == 1:
        res.ok()
        res.sample({"predicate": list(preds.values())[0][0], "sites": sorted(preds)})
    else:
        res.violate("linfa_svm : support-vector-predicates-differ", "the support-vector predicates differ: %s" % {k_: v[0] for k_, v in preds.items()},
                    fn_loc(list(preds.values())[0][1], list(preds.values())[0][2]))
    return res.finish(3)


def rule_sib(ctx):
    """Sibling agreement inside the solver (deviant-behaviour rules; instances confirmed by reading and
    against the reference SMO implementation)."""
    res = RuleResult("R-C13-sib", "sibling code sites of the solver agree: reconstruct_gradient is always followed by nactive = ntotal; the i/j blocks of update are equal up to renaming; is-free guard and summand use the same variable; shrink tests negate the gradient exactly at the upper bound")
    F = ctx.facts()
    fns = {f["d"]["name"]: f for f in solver_fns(F)}
    # (1) reconstruct_gradient(); must be followed by self.nactive = self.ntotal() before nactive is read again
    n_sites = 0
    for name, fn in sorted(fns.items()):
        if name == "reconstruct_gradient":
            continue
        r = Render(fn["crate"])
        for blk in walk(fn["body"]):
            if blk.get("k") != "Block":
                continue
            stmts = blk["stmts"] + ([blk["e"]] if blk.get("e") else [])
            for i, st in enumerate(stmts):
                x = strip(st)
                if x.get("k") == "MethodCall" and x["name"] == "reconstruct_gradient":
                    n_sites += 1
                    inst = "%s : reconstruct_gradient() #%d" % (fn_key(fn), n_sites)
                    res.instance(inst)
                    nxt = strip(stmts[i + 1]) if i + 1 < len(stmts) else None
                    ok = False
                    if nxt is not None and nxt.get("k") == "Assign" and self_field(nxt["l"]) == "nactive":
                        rhs = strip(nxt["r"])
                        ok = rhs.get("k") == "MethodCall" and rhs["name"] == "ntotal"
                    if ok:
                        res.ok()
                    else:
                        res.violate("%s : reconstruct-without-unshrink" % fn_key(fn),
                                    "reconstruct_gradient() is not followed by `self.nactive = self.ntotal()` here (it is at the other call sites): the following code still works on the shrunken active set", fn_loc(fn, x["ln"]))
    if n_sites < 4:
        res.missing_anchor("reconstruct_gradient call sites (expected 4, found %d)" % n_sites)
    # (2) update(): the i-block and the j-block that maintain gradient_fixed are equal up to i <-> j
    fn = fns.get("update")
    if fn is None:
        res.missing_anchor("SolverState::update")
    else:
        r = Render(fn["crate"])
        inits = {}
        for n in walk(fn["body"]):
            if n.get("k") == "LetStmt" and n.get("init") is not None and n["pat"].get("k") == "Bind":
                inits[n["pat"]["local"]] = n["init"]
        blocks = []
        for n in walk(fn["body"]):
            if n.get("k") == "If" and any(x.get("k") == "Field" and x["name"] == "gradient_fixed" for x in walk(n["then"])):
                if not any(n is not b and any(y is n for y in walk(b)) for b in blocks):
                    blocks.append(n)
        blocks = [b for b in blocks if not any(b is not o and any(y is b for y in walk(o["then"])) for o in blocks)]
        res.instance("%s : %d gradient_fixed maintenance blocks" % (fn_key(fn), len(blocks)))

        def resolve_calls(e, depth=0, seen=None):
            """(locals X of self.bound(X), locals Y of distances(Y, _)) reachable from expression e through let-bound locals"""
            seen = seen if seen is not None else set()
            bs, ds = set(), set()
            for x in walk(e):
                if x.get("k") == "MethodCall" and x["name"] == "bound" and len(x["args"]) == 1:
                    a0 = peel_refs(x["args"][0])
                    if a0.get("k") == "Path" and "local" in a0:
                        bs.add(a0["local"])
                if x.get("k") == "MethodCall" and x["name"] == "distances" and len(x["args"]) == 2:
                    a0 = peel_refs(x["args"][0])
                    if a0.get("k") == "Path" and "local" in a0:
                        ds.add(a0["local"])
                if x.get("k") == "Path" and x.get("local") in inits and x["local"] not in seen and depth < 4:
                    seen.add(x["local"])
                    b2, d2 = resolve_calls(inits[x["local"]], depth + 1, seen)
                    bs |= b2
                    ds |= d2
            return bs, ds

        def summarise(blk):
            """(X, snapshot local U, {then/else/always: set of ops}, bound-args, distances-args) of one maintenance block"""
            cond = strip(blk["c"])
            X = U = None
            for x in walk(cond):
                if x.get("k") == "MethodCall" and x["name"] == "reached_upper":
                    rc = peel_refs(x["recv"])
                    if rc.get("k") == "Index" and self_field(rc["e"]) == "alpha":
                        i0 = peel_refs(rc["i"])
                        if i0.get("k") == "Path" and "local" in i0:
                            X = i0["local"]
            if cond.get("k") == "Binary":
                for side in (cond["l"], cond["r"]):
                    t = peel_refs(side)
                    if t.get("k") == "Path" and "local" in t:
                        U = t["local"]
            from .layout import with_parents
            signs = {}
            bs, ds = set(), set()
            for x, anc in with_parents(blk["then"]):
                if x.get("k") != "AssignOp" or x["op"] not in ("+", "-"):
                    continue
                lhs_gf = any(self_field(y) == "gradient_fixed" for y in walk(x["l"]))
                loops = [a_ for a_ in anc if a_.get("k") == "Match" and a_.get("src") == "ForLoopDesugar" and len(a_["arms"]) == 1]
                via_iter = bool(loops) and any(self_field(y) == "gradient_fixed" for y in walk(loops[-1]["scrut"]))
                if not (lhs_gf or via_iter):
                    continue
                pol = "always"
                for j_, a_ in enumerate(anc):
                    if a_.get("k") == "If" and peel_refs(a_["c"]).get("k") == "Path" and peel_refs(a_["c"]).get("local") == U:
                        nxt = anc[j_ + 1] if j_ + 1 < len(anc) else x
                        pol = "then" if nxt is a_["then"] else "else"
                signs.setdefault(pol, set()).add(x["op"])
                b2, d2 = resolve_calls(x["r"])
                bs |= b2
                ds |= d2
                for lp in loops:
                    b3, d3 = resolve_calls(lp["scrut"])
                    bs |= b3
                    ds |= d3
            return X, U, signs, bs, ds
        if len(blocks) == 2:
            sums = [summarise(b) for b in blocks]
            bad = False
            for (X, U, signs, bs, ds), blk in zip(sums, blocks):
                if X is None or not signs:
                    res.undecided("%s : block-form" % fn_key(fn), "a gradient_fixed maintenance block was not understood (variable or writes not found)", fn_loc(fn, blk["ln"]))
                    bad = True
                    continue
                if (bs and bs != {X}) or (ds and ds != {X}):
                    res.violate("%s : block-operand-of-other-variable" % fn_key(fn), "the block guarded by the status change of one working-set variable updates gradient_fixed with the bound or the kernel column of the other one", fn_loc(fn, blk["ln"]))
                    bad = True
            if not bad:
                s0, s1 = sums[0][2], sums[1][2]
                if "always" in s0 or "always" in s1:
                    if s0 == s1:
                        res.ok()
                    else:
                        res.undecided("%s : sign-form" % fn_key(fn), "the signs of the two maintenance blocks are expressed differently and cannot be compared", fn_loc(fn, blocks[1]["ln"]))
                elif s0 == s1:
                    res.ok()
                else:
                    res.violate("%s : i-j-blocks-differ" % fn_key(fn), "the blocks for variable i and variable j apply opposite signs for the same status change: %s vs %s" % (sorted((k_, sorted(v)) for k_, v in s0.items()), sorted((k_, sorted(v)) for k_, v in s1.items())), fn_loc(fn, blocks[1]["ln"]))
        else:
            res.undecided("%s : blocks-not-found" % fn_key(fn), "expected two gradient_fixed maintenance blocks in update, found %d" % len(blocks), fn_loc(fn))
    # (3) reconstruct_gradient: guard `alpha[X].free_floating()` and the summand `alpha[Y].val()` use the same X
    fn = fns.get("reconstruct_gradient")
    if fn is None:
        res.missing_anchor("SolverState::reconstruct_gradient")
    else:
        n_g = 0
        for n in walk(fn["body"]):
            if n.get("k") != "If":
                continue
            c = strip(n["c"])
            if c.get("k") == "MethodCall" and c["name"] == "free_floating":
                rc = peel_refs(c["recv"])
                if rc.get("k") == "Index" and self_field(rc["e"]) == "alpha":
                    gx = peel_refs(rc["i"]).get("local")
                    vals = []
                    for x in walk(n["then"]):
                        if x.get("k") == "MethodCall" and x["name"] == "val":
                            rv = peel_refs(x["recv"])
                            if rv.get("k") == "Index" and self_field(rv["e"]) == "alpha":
                                vals.append((peel_refs(rv["i"]).get("local"), x))
                    n_g += 1
                    inst = "%s : is-free guard #%d" % (fn_key(fn), n_g)
                    res.instance(inst)
                    bad = [x for lid, x in vals if lid != gx]
                    if bad:
                        res.violate("%s : free-guard-other-variable" % fn_key(fn), "the is-free test reads one variable but the alpha that is added belongs to another", fn_loc(fn, bad[0]["ln"]))
                    else:
                        res.ok()
        if n_g < 2:
            res.missing_anchor("is-free guards in reconstruct_gradient (expected 2, found %d)" % n_g)
    # (4) shrink tests: gradient negated exactly in the reached_upper branches
    for name in ("should_shrunk", "should_shrunk_nu"):
        fn = fns.get(name)
        if fn is None:
            res.missing_anchor("SolverState::%s" % name)
            continue
        def leaves(n, status):
            n = strip(n)
            if n.get("k") == "If":
                c = strip(n["c"])
                st = status
                if c.get("k") == "MethodCall" and c["name"] in ("reached_upper", "reached_lower"):
                    st = c["name"]
                yield from leaves(n["then"], st)
                if n.get("else"):
                    yield from leaves(n["else"], status if st != status and c.get("k") == "MethodCall" and c["name"] in ("reached_upper", "reached_lower") else st)
            elif n.get("k") == "Block":
                if n.get("e"):
                    yield from leaves(n["e"], status)
            elif n.get("k") == "Binary" and n["op"] in (">", ">=", "<", "<="):
                l = strip(n["l"])
                neg = l.get("k") == "Unary" and l["op"] == "-"
                yield (status, neg, n)
        for status, neg, node in leaves(fn["body"], None):
            inst = "%s : %s branch compares %sgradient" % (fn_key(fn), status, "-" if neg else "")
            res.instance(inst)
            if status == "reached_upper" and neg or status == "reached_lower" and not neg:
                res.ok()
            elif status is None:
                res.ok()
            else:
                res.violate("%s : sign:%s" % (fn_key(fn), status), "at the %s bound the shrink test compares %s the gradient, unlike its sibling branches (upper: -G_i > Gmax, lower: G_i > Gmax)" % (status.replace("reached_", ""), "the negation of" if neg else "the un-negated"), fn_loc(fn, node["ln"]))
    return res.finish(14)


def rule_snapshot(ctx):
    """A 'did the status change?' test `before != self.alpha[i].reached_upper()` only means something if `before` was
    read before the variable was modified: Alpha's status is computed from its value, so a snapshot taken after the
    writes compares the new status with itself, the test is never true, and gradient_fixed (G_bar) is never maintained -
    reconstruct_gradient then rebuilds the gradient of the shrunken variables from stale sums."""
    from .sym import Tracer
    res = RuleResult("R-C13-snapshot", "every status-change test compares against a snapshot taken before the first write to the state it re-reads, with a write in between")
    F = ctx.facts()
    n_tests = 0
    for fn in solver_fns(F):
        r = Render(fn["crate"])
        lets = {}
        for n in walk(fn["body"]):
            if n.get("k") == "LetStmt" and n.get("init") is not None and n["pat"].get("k") == "Bind":
                lets[n["pat"]["local"]] = n
        tests = []
        for n in walk(fn["body"]):
            if n.get("k") != "If":
                continue
            c = strip(n["c"])
            if c.get("k") != "Binary" or c["op"] not in ("!=", "=="):
                continue
            for a, b in ((c["l"], c["r"]), (c["r"], c["l"])):
                pa = peel_refs(a)
                if pa.get("k") == "Path" and pa.get("local") in lets:
                    init = lets[pa["local"]]["init"]
                    fields = set(x["name"] for x in walk(init) if x.get("k") == "Field" and self_field(x) == x["name"])
                    if fields and r.e(peel_refs(init)) == r.e(peel_refs(b)):
                        tests.append((n, pa, lets[pa["local"]], b, fields))
        if not tests:
            continue
        tr = Tracer(fn).run()
        order_of = {}
        for e in tr.events:
            if e.kind == "let":
                order_of[id(e.node)] = e.order
            if e.kind == "call":
                order_of.setdefault(id(e.node), e.order)
        writes = [e for e in tr.events if e.kind in ("assign", "assignop")]
        for ifn, loc, let, reread, fields in tests:
            n_tests += 1
            key = fn_key(fn)
            inst = "%s : `%s` %s re-read of `%s`" % (key, loc.get("name"), strip(ifn["c"])["op"], r.e(peel_refs(reread))[:50])
            res.instance(inst)
            o_let = order_of.get(id(let))
            rr = next((x for x in walk(reread) if x.get("k") == "MethodCall" and id(x) in order_of), None)
            o_cmp = order_of.get(id(rr)) if rr is not None else None
            if o_let is None or o_cmp is None:
                res.undecided("%s : snapshot-order-unknown:%s" % (key, loc.get("name")), "cannot order the snapshot and its re-read (fail closed)", fn_loc(fn, ifn["ln"]))
                continue
            w = [e for e in writes if any(("field:%s(" % f) in e.lhs or ("self.%s[" % f) in e.lhs or e.lhs.endswith("self.%s" % f) or ("self.%s." % f) in e.lhs for f in fields)]
            # writes that merely re-wrap the element are recognised by their right-hand side mentioning the element's own value
            before = [e for e in w if e.order < o_let]
            between = [e for e in w if o_let < e.order < o_cmp]
            if before:
                res.violate("%s : snapshot-after-write:%s" % (key, loc.get("name")),
                            "`%s` is read after `%s` has already been written (first write at line %d): the later test compares the new status with itself, is never true, and the block it guards (maintenance of gradient_fixed) never runs" % (loc.get("name"), "/".join(sorted(fields)), before[0].node["ln"]), fn_loc(fn, let["ln"]))
            elif not between:
                res.violate("%s : snapshot-without-write:%s" % (key, loc.get("name")), "nothing writes `%s` between the snapshot and its re-read: the test is vacuous" % "/".join(sorted(fields)), fn_loc(fn, ifn["ln"]))
            else:
                res.ok()
                res.sample({"test": inst, "writes_between": len(between)})
    if n_tests < 2:
        res.missing_anchor("status-change tests of SolverState::update (expected 2, found %d)" % n_tests)
    return res.finish(2)


def _inf_sign(c, n):
    """+1 for F::infinity()/max_value(), -1 for -F::infinity()/neg_infinity()/min_value(), else 0"""
    n = peel_refs(n)
    sign = 1
    while n.get("k") == "Unary" and n["op"] == "-":
        sign = -sign
        n = peel_refs(n["e"])
    if n.get("k") == "Call" and not n["args"]:
        d = c.dfn(strip(n["f"]).get("def")) if strip(n["f"]).get("k") == "Path" else None
        nm = d["name"] if d else None
        if nm in ("infinity", "max_value"):
            return sign
        if nm in ("neg_infinity", "min_value"):
            return -sign
    return 0


def rule_rho(ctx):
    """(a) A running bound that starts at +infinity can only be tightened by `min`, one that starts at -infinity only by
    `max`: with the other operation the start value is absorbing and the update never has an effect (the bound stays
    infinite and the mid-point (ub + lb)/2 used when no variable is free is not finite). (b) In calculate_rho every branch
    of the (status, label) case analysis must feed the same quantity y_i*G_i into the bounds and the free sum; under a
    test of the label the literal sign may replace y_i."""
    from .sym import Tracer, as_poly, as_term, k
    res = RuleResult("R-C13-rho", "running bounds initialised at +/-infinity are tightened by min/max respectively; all branches of calculate_rho use y_i*G_i")
    F = ctx.facts()
    n_upd = 0
    for fn in solver_fns(F):
        c = fn["crate"]
        r = Render(c)
        inits = {}
        for n in walk(fn["body"]):
            if n.get("k") != "LetStmt" or n.get("init") is None:
                continue
            pat, init = n["pat"], strip(n["init"])
            if pat.get("k") == "Bind":
                sg = _inf_sign(c, init)
                if sg:
                    inits[pat["local"]] = (sg, pat["name"])
            elif pat.get("k") == "Tuple" and init.get("k") == "Tup":
                for q, e in zip(pat["pats"], init["es"]):
                    if q.get("k") == "Bind":
                        sg = _inf_sign(c, e)
                        if sg:
                            inits[q["local"]] = (sg, q["name"])
        if not inits:
            continue
        key = fn_key(fn)
        for n in walk(fn["body"]):
            if n.get("k") != "Assign":
                continue
            tgt = peel_refs(n["l"])
            if tgt.get("k") != "Path" or tgt.get("local") not in inits:
                continue
            rhs = strip(n["r"])
            op = None
            args = []
            if rhs.get("k") == "Call":
                d = c.dfn(strip(rhs["f"]).get("def")) if strip(rhs["f"]).get("k") == "Path" else None
                op, args = (d["name"] if d else None), rhs["args"]
            elif rhs.get("k") == "MethodCall":
                op, args = rhs["name"], [rhs["recv"]] + rhs["args"]
            if op not in ("max", "min") or not any(peel_refs(a).get("local") == tgt["local"] for a in args):
                continue
            sg, name = inits[tgt["local"]]
            n_upd += 1
            inst = "%s : `%s` (starts at %sinfinity) updated by %s" % (key, name, "+" if sg > 0 else "-", op)
            res.instance(inst)
            if (sg > 0 and op == "min") or (sg < 0 and op == "max"):
                res.ok()
            else:
                res.violate("%s : absorbing-start:%s" % (key, name), "`%s` starts at %sinfinity and is updated with `%s`: the start value is absorbing, the update never changes it and the bound stays infinite" % (name, "+" if sg > 0 else "-", op), fn_loc(fn, n["ln"]))
    if n_upd < 8:
        res.missing_anchor("running-bound updates in calculate_rho / calculate_rho_nu (expected 8, found %d)" % n_upd)
    # (c) the two bounds are combined only under a finiteness test: each is tightened only by variables of one kind, so
    # one of them is still infinite when no variable of that kind exists (nu = 1: every variable at its upper bound)
    from .layout import with_parents
    FIN = ("is_finite", "is_infinite", "is_nan", "is_normal")

    def guarded(anc, node):
        for i_, a in enumerate(anc):
            if a.get("k") == "If" and any(y.get("k") == "MethodCall" and y["name"] in FIN for y in walk(a["c"])):
                return True
            if a.get("k") == "Match" and a.get("src", "Normal") == "Normal" and any(y.get("k") == "MethodCall" and y["name"] in FIN for y in walk(a["scrut"])):
                return True
        return False

    def unguarded_sums(fn, pos, neg):
        """`a + b` / `a - b` with one operand a +inf-started bound and the other a -inf-started one, not under a finiteness test"""
        out = []
        for n, anc in with_parents(fn["body"]):
            if n.get("k") == "Binary" and n["op"] in ("+", "-"):
                l, r_ = peel_refs(n["l"]), peel_refs(n["r"])
                ls, rs = l.get("local"), r_.get("local")
                if ls is None or rs is None:
                    continue
                if (ls in pos and rs in neg) or (ls in neg and rs in pos):
                    out.append((n, guarded(anc, n)))
        return out
    n_mid = 0
    for fn in solver_fns(F):
        c = fn["crate"]
        inits = {}
        for n in walk(fn["body"]):
            if n.get("k") != "LetStmt" or n.get("init") is None:
                continue
            pat, init = n["pat"], strip(n["init"])
            if pat.get("k") == "Bind" and _inf_sign(c, init):
                inits[pat["local"]] = _inf_sign(c, init)
            elif pat.get("k") == "Tuple" and init.get("k") == "Tup":
                for q, e in zip(pat["pats"], init["es"]):
                    if q.get("k") == "Bind" and _inf_sign(c, e):
                        inits[q["local"]] = _inf_sign(c, e)
        pos = set(l for l, sg in inits.items() if sg > 0)
        neg = set(l for l, sg in inits.items() if sg < 0)
        if not pos or not neg:
            continue
        key = fn_key(fn)
        for n, ok_ in unguarded_sums(fn, pos, neg):
            n_mid += 1
            res.instance("%s : bounds combined in place" % key)
            if ok_:
                res.ok()
            else:
                res.violate("%s : unbounded-midpoint" % key, "the running bounds (started at +infinity and -infinity, each tightened only by variables of one kind) are combined without a finiteness test: when no variable of one kind exists - every variable at its upper bound, as for nu = 1 - one of them is still infinite and the threshold becomes infinite or NaN", fn_loc(fn, n["ln"]))
        # ... or handed to a helper of the crate
        for n in walk(fn["body"]):
            if n.get("k") != "Call":
                continue
            f0 = strip(n["f"])
            if f0.get("k") != "Path":
                continue
            args = [peel_refs(a).get("local") for a in n["args"]]
            if not (any(a in pos for a in args) and any(a in neg for a in args)):
                continue
            g = next((x for x in c.fns if x["def"] == f0.get("inst", f0.get("def"))), None)
            n_mid += 1
            res.instance("%s : bounds handed to %s" % (key, (c.dfn(f0.get("def")) or {}).get("name")))
            if g is None:
                res.undecided("%s : midpoint-helper" % key, "the function the two running bounds are handed to is not in the workspace (fail closed)", fn_loc(fn, n["ln"]))
                continue
            gp = [[b["local"] for b in pat_bindings(p_)] for p_ in g["params"]]
            gpos = set(l for a, ls in zip(args, gp) if a in pos for l in ls)
            gneg = set(l for a, ls in zip(args, gp) if a in neg for l in ls)
            sums = unguarded_sums(g, gpos, gneg)
            bad = [x for x, ok_ in sums if not ok_]
            if bad:
                res.violate("%s : unbounded-midpoint" % key, "`%s` combines the two running bounds without a finiteness test: with no variable of one kind one of them is still infinite and the threshold becomes infinite or NaN" % g["d"]["name"], fn_loc(g, bad[0]["ln"]))
            else:
                res.ok()
    if n_mid < 3:
        res.missing_anchor("places where the running bounds of calculate_rho / calculate_rho_nu are combined (expected 3, found %d)" % n_mid)
    # (b) one quantity in every branch of calculate_rho
    for fn in [f for f in solver_fns(F) if f["d"]["name"] == "calculate_rho"]:
        key = fn_key(fn)
        tr = Tracer(fn).run()
        leaves = []
        for e in tr.events:
            if not e.loops:
                continue
            if e.kind == "assign" and e.lhs.startswith("local:"):
                v = as_term(e.val)
                if v is not None and v.is_call("max", "min") and len(v.args) == 2:
                    leaves.append((e, v.args[1]))
            elif e.kind == "assignop" and e.op == "+" and e.lhs.startswith("local:") and as_poly(e.val) is not None and as_poly(e.val).atoms():
                leaves.append((e, e.val))
        n_leaf = 0
        for e, x in leaves:
            px = as_poly(x)
            if px is None:
                continue
            atoms = list(px.atoms())
            if not any("gradient" in a for a in atoms):
                continue
            n_leaf += 1
            res.instance("%s : branch value `%s`" % (key, k(x)[:60]))
            # label sign known from an enclosing test of targets[i]?
            sgn = None
            for g in e.guards:
                if g[1].startswith("index(field:targets(") or g[1].startswith("not(index(field:targets("):
                    pos = (g[0] == "+") != g[1].startswith("not(")
                    sgn = 1 if pos else -1
            has_y = any("call:target(" in a for a in atoms)
            grad_only = len(px.t) == 1 and all(len(m) == 1 for m in px.t)
            coef = list(px.t.values())[0] if len(px.t) == 1 else None
            if has_y and len(px.t) == 1 and coef == 1:
                res.ok()            # y_i * G_i itself
            elif grad_only and sgn is not None and coef == sgn:
                res.ok()            # literal sign of the label under a test of the label
            else:
                res.violate("%s : branch-sign" % key, "a branch of calculate_rho feeds `%s` into the bounds / free sum%s; every branch must use y_i*G_i (sign of the label times the gradient)" % (k(x)[:60], " under a label test where y_i = %+d" % sgn if sgn is not None else ""), fn_loc(fn, e.node["ln"]))
        if n_leaf < 5:
            res.missing_anchor("the five branch values of calculate_rho (found %d)" % n_leaf)
    return res.finish(16)


def rule_rescale(ctx):
    """'The decision value of any sample equals sum_i alpha_i*K(x_i, x) - rho computed from the published coefficients':
    a fit routine that rescales the published alpha and rho after the solver returned (nu-SVC divides both by r) must
    rescale the pre-combined linear hyperplane too - it was built from the unscaled coefficients."""
    res = RuleResult("R-C13-rescale", "a fit routine that rescales alpha and rho after solving also rescales the pre-combined separating hyperplane")
    F = ctx.facts()
    n = 0
    for fn in F.all_fns():
        if fn["d"]["krate"] != "linfa_svm" or fn["d"]["name"] not in ("fit_nu", "fit_c", "fit_one_class", "fit_epsilon"):
            continue
        rescaled = set()
        for x in walk(fn["body"]):
            if x.get("k") == "AssignOp" and x["op"] in ("/", "*"):
                t = strip(x["l"])
                if t.get("k") == "Field" and t["name"] in ("rho", "alpha"):
                    rescaled.add(t["name"])
            if x.get("k") == "Assign":
                t = strip(x["l"])
                if t.get("k") == "Field" and t["name"] == "alpha" and any(y.get("k") == "Binary" and y["op"] in ("/", "*") for y in walk(x["r"])):
                    rescaled.add("alpha")
        if not {"rho", "alpha"} <= rescaled:
            continue
        n += 1
        key = "%s (%s)" % (fn_key(fn), fn_loc(fn).split("/")[-1].split(":")[0])
        res.instance("%s : rescales alpha and rho" % key)
        touches = any(x.get("k") == "Field" and x["name"] == "sep_hyperplane" for x in walk(fn["body"]))
        c = fn["crate"]
        variants = set()
        for x in walk(fn["body"]):
            q = None
            if x.get("k") == "Let":
                q = x.get("pat")
            if x.get("k") == "Match":
                for a_ in x["arms"]:
                    qq = a_["pat"]
                    while qq is not None and qq.get("k") == "Ref":
                        qq = qq.get("pat")
                    if qq is not None and qq.get("k") in ("TupleStruct", "Struct", "Path"):
                        variants.add((c.dfn(qq.get("def")) or {}).get("name"))
            while q is not None and q.get("k") == "Ref":
                q = q.get("pat")
            if q is not None and q.get("k") in ("TupleStruct", "Struct"):
                variants.add((c.dfn(q.get("def")) or {}).get("name"))
        if touches:
            res.ok()
            res.sample({"fn": key, "also": "sep_hyperplane"})
            # the support vectors of a non-linear kernel were selected with an absolute threshold on the unscaled
            # coefficients; the decision function zips them with the *rescaled* coefficients above the same threshold
            res.instance("%s : support vectors re-selected after the rescaling" % key)
            if "WeightedCombination" in variants:
                res.ok()
            else:
                res.violate("%s : support-vectors-not-reselected" % key, "alpha is rescaled after the solver selected the support vectors (abs(alpha) above an absolute threshold), and weighted_sum pairs the stored vectors with the rescaled coefficients above the same threshold: coefficients that cross the threshold by the rescaling shift the pairing, so support vectors get other samples' coefficients", fn_loc(fn))
        else:
            res.instance("%s : support vectors re-selected after the rescaling" % key)
            res.violate("%s : hyperplane-not-rescaled" % key, "alpha and rho are rescaled after the solver returned, but the pre-combined linear hyperplane (built from the unscaled alpha) is left as it was: with a linear kernel the decision value is w.x - rho with w and rho on different scales", fn_loc(fn))
    if n < 1:
        res.missing_anchor("the nu-SVC fit routine that rescales alpha and rho by 1/r")
    return res.finish(2)


rule_memorder = layout.make_rule("R-C13-memorder", "raw memory-order buffers (as_slice_memory_order, into_raw_vec, as_ptr) of records, targets and kernel matrices are used by position only behind an is_standard_layout() test", lambda f: f["d"]["krate"] in ("linfa_svm", "linfa_kernel"), "linfa-svm and linfa-kernel")

def rule_kernel(ctx):
    """The decision function evaluates KernelMethod::distance between a query and the support vectors; the solver optimised
    against the entries of the training kernel matrix.  The model is a solution of the problem it is used for only if the
    two are the same function of the data.  That is so by construction while the matrix entries are produced by
    KernelMethod::distance; a separate formula for the matrix - in particular the expanded square |a|^2 + |b|^2 - 2<a,b>,
    which cancels catastrophically away from the origin - makes them two different functions."""
    from . import cancel
    res = RuleResult("R-C13-kernel", "the training kernel matrix is filled from KernelMethod::distance (the function prediction evaluates), not from a separate expanded-square formula")
    F = ctx.facts()
    fns = [f for f in F.all_fns() if f["d"]["krate"] == "linfa_kernel" and f["d"]["name"] in ("dense_from_fn", "sparse_from_fn")]
    if len(fns) < 2:
        res.missing_anchor("linfa_kernel::dense_from_fn / sparse_from_fn (found %d)" % len(fns))
    for fn in fns:
        c = fn["crate"]
        key = fn_key(fn)
        calls = [n for n in walk(fn["body"]) if n.get("k") == "MethodCall" and n["name"] == "distance" and "KernelMethod" in ((c.dfn(n.get("def")) or {}).get("path") or "")]
        exp = cancel.sites(fn)
        res.instance("%s : %d kernel evaluations through KernelMethod::distance, %d expanded-square expressions" % (key, len(calls), len(exp)))
        if exp:
            res.violate("%s : kernel-entry-by-expansion" % key, "kernel matrix entries are computed from `%s` (a %s) instead of KernelMethod::distance: away from the origin the subtraction cancels, so the matrix the solver optimises against is not the kernel that prediction evaluates" % (Render(c).e(exp[0][0])[:70], exp[0][1]), fn_loc(fn, exp[0][0].get("ln")))
        elif calls:
            res.ok()
        else:
            res.undecided("%s : kernel-source" % key, "the kernel matrix is not filled through KernelMethod::distance and no known formula was recognised", fn_loc(fn))
    return res.finish(2)


def rule_extent(ctx):
    """G_bar (gradient_fixed) is the contribution of the variables at their upper bound to the gradient of *every*
    variable, shrunk ones included: reconstruct_gradient rebuilds the gradient of the shrunk variables from it.  When a
    variable enters or leaves its bound in update(), the maintenance therefore ranges over all positions 0..ntotal();
    ranging over the active ones (a loop to nactive(), or a zip with a kernel column fetched for nactive() entries, which
    silently truncates) leaves the entries of the shrunk variables stale."""
    res = RuleResult("R-C13-extent", "the maintenance of gradient_fixed in update() covers all ntotal() positions (loop bound, and length of every zipped kernel column)")
    F = ctx.facts()
    fns = {f["d"]["name"]: f for f in solver_fns(F)}
    fn = fns.get("update")
    if fn is None:
        res.missing_anchor("SolverState::update")
        return res.finish(2)
    key = fn_key(fn)
    r = Render(fn["crate"])
    inits = {}
    for n in walk(fn["body"]):
        if n.get("k") == "LetStmt" and n.get("init") is not None and n["pat"].get("k") == "Bind":
            inits[n["pat"]["local"]] = n["init"]

    def count_name(e, depth=0):
        """'ntotal' / 'nactive' / None for an extent expression"""
        e = peel_refs(e)
        if e.get("k") == "MethodCall" and e["name"] in ("ntotal", "nactive") and self_field(e) is None:
            return e["name"]
        if e.get("k") == "Field" and self_field(e) in ("nactive",):
            return "nactive"
        if e.get("k") == "MethodCall" and e["name"] == "len" and self_field(e["recv"]) in ("alpha", "gradient_fixed", "gradient", "p", "bounds", "targets"):
            return "ntotal"
        if e.get("k") == "Path" and e.get("local") in inits and depth < 3:
            return count_name(inits[e["local"]], depth + 1)
        return None

    def extent_of(e, depth=0):
        """set of extent names an iterator expression is limited by (the shortest wins)"""
        e = strip(e)
        k = e.get("k")
        if k == "Ref" or (k == "Unary" and e["op"] == "*"):
            return extent_of(e["e"], depth)
        if k == "Call" and len(e["args"]) == 1:
            return extent_of(e["args"][0], depth)
        if k == "Struct" and (fn["crate"].dfn(e.get("def")) or {}).get("path", "").endswith("Range"):
            fs = {x["name"]: x["e"] for x in e["fields"]}
            cn = count_name(fs.get("end")) if fs.get("end") is not None else None
            return {cn or "?"}
        if k == "MethodCall":
            nm = e["name"]
            if nm == "zip" and len(e["args"]) == 1:
                return extent_of(e["recv"], depth) | extent_of(e["args"][0], depth)
            if nm == "take" and len(e["args"]) == 1:
                return extent_of(e["recv"], depth) | {count_name(e["args"][0]) or "?"}
            if nm in ("iter", "iter_mut", "into_iter", "enumerate", "rev", "copied", "cloned", "by_ref"):
                return extent_of(e["recv"], depth)
            if nm == "distances" and len(e["args"]) == 2:
                return {count_name(e["args"][1]) or "?"}
            return {"?"}
        if k == "Field" and self_field(e) in ("gradient_fixed", "alpha", "gradient", "p", "bounds"):
            return {"ntotal"}
        if k == "Path" and e.get("local") in inits and depth < 3:
            return extent_of(inits[e["local"]], depth + 1)
        return {"?"}
    n_sites = 0
    for m in walk(fn["body"]):
        if m.get("k") != "Match" or m.get("src") != "ForLoopDesugar" or len(m["arms"]) != 1:
            continue
        loop = None
        for x in walk(m["arms"][0]["body"]):
            if x.get("k") == "Loop":
                loop = x
                break
        if loop is None:
            continue
        # innermost loops only: a loop whose body writes gradient_fixed (indexed or through an element of its iter_mut)
        if any(y.get("k") == "Loop" for y in walk(loop["body"])):
            continue
        writes_gf = any(x.get("k") in ("Assign", "AssignOp") and any(self_field(y) == "gradient_fixed" for y in walk(x["l"])) for x in walk(loop["body"]))
        iter_gf = any(self_field(y) == "gradient_fixed" for y in walk(m["scrut"]))
        writes_elem = iter_gf and any(x.get("k") in ("Assign", "AssignOp") for x in walk(loop["body"]))
        if not (writes_gf or writes_elem):
            continue
        n_sites += 1
        ext = extent_of(m["scrut"])
        res.instance("%s : gradient_fixed maintenance loop #%d ranges over %s" % (key, n_sites, sorted(ext)))
        if "nactive" in ext:
            res.violate("%s : maintenance-over-active-set" % key, "the loop `%s` that maintains gradient_fixed is limited by nactive() (loop bound, take(..), or the length of a zipped kernel column fetched with distances(_, nactive())): the entries of the shrunk variables stay stale and reconstruct_gradient rebuilds their gradient from them" % r.e(m["scrut"])[:100], fn_loc(fn, m["ln"]))
        elif ext == {"ntotal"}:
            res.ok()
        else:
            res.undecided("%s : maintenance-extent" % key, "extent of the gradient_fixed maintenance loop `%s` not classified" % r.e(m["scrut"])[:100], fn_loc(fn, m["ln"]))
    if n_sites == 0:
        res.undecided("%s : maintenance-not-found" % key, "no loop maintaining gradient_fixed found in update()", fn_loc(fn))
    return res.finish(2)


def rule_reselect(ctx):
    """solve() selects a working set, and after un-shrinking selects again and continues with the second selection.  What
    one selection returns belongs together (the pair and everything computed for it): when the locals of the first
    selection are overwritten from the second, a component the second destructuring discards (`_`) while the first one's
    binding is still used afterwards is stale - it describes the first pair, the step is made for the second."""
    res = RuleResult("R-C13-reselect", "when a selection is repeated and its results replace the first one's, no component of the first selection stays in use")
    F = ctx.facts()
    n_pairs = 0
    for fn in solver_fns(F):
        c = fn["crate"]
        lets = []
        for n in walk(fn["body"]):
            if n.get("k") == "LetStmt" and n.get("init") is not None and n["pat"].get("k") == "Tuple":
                e = peel_refs(n["init"])
                callee = None
                if e.get("k") == "MethodCall":
                    callee = e["name"]
                elif e.get("k") == "Call" and strip(e["f"]).get("k") == "Path":
                    callee = (c.dfn(strip(e["f"]).get("def")) or {}).get("name")
                if callee:
                    lets.append((n, callee))
        key = fn_key(fn)
        for a_i, (a, ca) in enumerate(lets):
            for b, cb in lets[a_i + 1:]:
                if ca != cb or len(a["pat"]["pats"]) != len(b["pat"]["pats"]):
                    continue
                n_pairs += 1
                res.instance("%s : `%s` selected twice" % (key, ca))
                pa, pb = a["pat"]["pats"], b["pat"]["pats"]
                # locals of the first selection overwritten from the second
                replaced = False
                for qa, qb in zip(pa, pb):
                    if qa.get("k") == "Bind" and qb.get("k") == "Bind":
                        for y in walk(fn["body"]):
                            if y.get("k") == "Assign" and peel_refs(y["l"]).get("local") == qa["local"] and peel_refs(y["r"]).get("local") == qb["local"]:
                                replaced = True
                stale = None
                if replaced:
                    for qa, qb in zip(pa, pb):
                        if qa.get("k") == "Bind" and qb.get("k") == "Wild":
                            uses = [y for y in walk(fn["body"]) if y.get("k") == "Path" and y.get("local") == qa["local"] and (y.get("ln") or 0) > (b.get("ln") or 0)]
                            if uses:
                                stale = (qa, uses[0])
                if stale:
                    res.violate("%s : stale-selection-component:%s" % (key, stale[0]["name"]), "`%s` is selected a second time and the pair is replaced by the second result, but `%s` of the first selection stays in use (the second one is discarded with `_`): the step is taken for the new pair with data computed for the old one" % (ca, stale[0]["name"]), fn_loc(fn, stale[1].get("ln")))
                else:
                    res.ok()
    if n_pairs < 1:
        res.missing_anchor("the repeated working-set selection in SolverState::solve")
    return res.finish(1)


def rule_islinear(ctx):
    """solve() pre-combines the support vectors into one weight vector, and weighted_sum evaluates w.x, when the kernel
    `is_linear()`: that is the decision function only for K(x, y) = <x, y>.  A kernel with a constant term (polynomial of
    degree one, c != 0) is linear *in the features* but K(x, y) = <x, y> + c; where the coefficients do not sum to zero
    (one-class) the constant is lost."""
    res = RuleResult("R-C13-islinear", "KernelMethod::is_linear is true for the Linear variant only (the consumers take it to mean K(x, y) = <x, y>)")
    F = ctx.facts()
    fns = [f for f in F.all_fns() if f["d"]["krate"] == "linfa_kernel" and f["d"]["name"] == "is_linear" and (f["d"].get("self_adt") or "").endswith("KernelMethod")]
    if not fns:
        res.missing_anchor("KernelMethod::is_linear")
    for fn in fns:
        c = fn["crate"]
        key = fn_key(fn)
        res.instance(key)
        trues = []
        decided = False
        for y in walk(fn["body"]):
            if y.get("k") != "Match":
                continue
            for a in y["arms"]:
                body = strip(a["body"])
                while body.get("k") == "Block" and body.get("e") is not None:
                    body = strip(body["e"])
                if body.get("k") == "Lit" and str(body.get("v")) == "true":
                    decided = True
                    pats = [a["pat"]]
                    while pats:
                        q = pats.pop()
                        while q.get("k") == "Ref":
                            q = q.get("pat")
                        if q.get("k") == "Or":
                            pats.extend(q.get("pats") or [])
                        else:
                            trues.append((c.dfn(q.get("def")) or {}).get("name") or q.get("k"))
                elif body.get("k") == "Lit":
                    decided = True
                elif body.get("k") not in ("Lit",) and a.get("guard") is None and body.get("k") in ("Binary", "MethodCall", "If"):
                    trues.append("<computed: %s>" % body.get("k"))
                    decided = True
        if not decided:
            res.undecided("%s : shape" % key, "is_linear is not a match on the kernel variant with literal arms (fail closed)", fn_loc(fn))
        elif set(trues) <= {"Linear"} and trues:
            res.ok()
        else:
            other = [t for t in trues if t != "Linear"]
            res.violate("%s : nonlinear-kernel-declared-linear" % key, "is_linear() is also true for %s: the solver then stores one pre-combined weight vector and the decision function evaluates <w, x>, which is not sum_i alpha_i K(x_i, x) for a kernel with a constant or non-linear term" % other, fn_loc(fn))
    return res.finish(1)


def rule_decision(ctx):
    """'The decision value of any sample equals sum_i alpha_i*K(x_i, x) - rho': every calling form of predict - the batch
    form, the owned and the borrowed single-sample forms that a macro generates per float type - subtracts rho from
    weighted_sum."""
    from .layout import with_parents
    res = RuleResult("R-C13-decision", "every predict form of Svm computes weighted_sum(x) - rho (batch, owned and borrowed single-sample forms, all float types)")
    F = ctx.facts()
    n = 0
    for fn in F.all_fns():
        d = fn["d"]
        if d["krate"] != "linfa_svm" or d["name"] not in ("predict", "predict_inplace") or not (d.get("self_adt") or "").endswith("Svm"):
            continue
        c = fn["crate"]
        r = Render(c)
        for y, anc in with_parents(fn["body"]):
            if y.get("k") != "MethodCall" or y["name"] != "weighted_sum":
                continue
            n += 1
            key = "%s[%s]" % (fn_key(fn), (fn.get("inputs") or ["", ""])[1].replace(" ", "")[:40] if len(fn.get("inputs") or []) > 1 else "")
            res.instance("%s : weighted_sum site" % key)
            i = len(anc) - 1
            while i >= 0 and anc[i].get("k") in ("Ref", "Unary", "Cast"):
                i -= 1
            par = anc[i] if i >= 0 else {}
            has_rho = lambda e: any(z.get("k") == "Field" and z["name"] == "rho" for z in walk(e))
            if par.get("k") == "Binary" and par["op"] == "-" and has_rho(par["r"]) and any(z is y for z in walk(par["l"])):
                res.ok()
            elif par.get("k") == "Binary" and par["op"] == "+" and (has_rho(par["r"]) or has_rho(par["l"])):
                res.violate("%s : rho-added" % key, "this predict form computes `%s`: rho is added instead of subtracted, so it differs from the other calling forms by 2*rho" % r.e(par)[:60], fn_loc(fn, y["ln"]))
            elif not any(has_rho(a) for a in anc[max(0, len(anc) - 4):]):
                res.violate("%s : rho-missing" % key, "this predict form returns weighted_sum(x) without subtracting rho: it differs from the other calling forms by rho", fn_loc(fn, y["ln"]))
            else:
                res.undecided("%s : decision-form" % key, "how rho enters `%s` was not classified (fail closed)" % r.e(par)[:60], fn_loc(fn, y["ln"]))
    if n < 6:
        res.missing_anchor("weighted_sum sites in the predict forms of Svm (found %d)" % n)
    return res.finish(8)


def rule_nusetup(ctx):
    """The nu formulations with two classes of variables (nu-SVC: the two labels; nu-SVR: alpha and alpha*) have a second
    equality constraint, sum of all variables = C*nu*l, besides y^T alpha = const; only the nu variant of the solver
    (select_working_set_nu picks both variables from the same class, calculate_rho_nu) keeps it.  The plain solver moves
    weight between the classes, so the published coefficients no longer satisfy the constraint and do not depend on nu.
    One-class SVM has a single class of variables and a single constraint: the plain solver is right for it.  Siblings
    are cross-checked: a set-up that takes `nu` and fills the target signs with both values must ask for the nu solver,
    every other set-up must not."""
    res = RuleResult("R-C13-nusetup", "problem set-ups: nu formulations with two classes of variables request the nu-constrained solver, all others the plain one")
    F = ctx.facts()
    n = 0
    for fn in F.all_fns():
        if fn["d"]["krate"] != "linfa_svm" or fn.get("exp"):
            continue
        c = fn["crate"]
        calls = []
        for y in walk(fn["body"]):
            if y.get("k") == "Call" and strip(y["f"]).get("k") == "Path":
                d0 = c.dfn(strip(y["f"]).get("def")) or {}
                if d0.get("name") == "new" and (d0.get("self_adt") or "").endswith("SolverState") and len(y["args"]) == 8:
                    calls.append(y)
        if not calls or "tests" in fn["d"]["path"]:
            continue
        key = fn_key(fn)
        pnames = [b["name"] for p_ in fn["params"] for b in pat_bindings(p_)]
        has_nu = "nu" in pnames
        for call in calls:
            n += 1
            res.instance("%s : SolverState::new" % key)
            flag = peel_refs(call["args"][7])
            if flag.get("k") != "Lit" or str(flag.get("v")) not in ("true", "false"):
                res.undecided("%s : solver-kind" % key, "the nu_constraint argument is not a literal (fail closed)", fn_loc(fn, call["ln"]))
                continue
            want_nu = str(flag.get("v")) == "true"
            # are both signs present among the targets handed to the solver?
            t = peel_refs(call["args"][2])
            while t.get("k") == "MethodCall" and t["name"] in ("to_vec", "clone", "to_owned"):
                t = peel_refs(t["recv"])
            inits = {}
            for y in walk(fn["body"]):
                if y.get("k") == "LetStmt" and y.get("init") is not None and y["pat"].get("k") == "Bind":
                    inits[y["pat"]["local"]] = y["init"]
            tl = t.get("local")
            src = inits.get(tl) if tl is not None else t

            def uniform(e):
                e = peel_refs(e) if e is not None else None
                if e is None:
                    return None
                lits = [str(z.get("v")) for z in walk(e) if z.get("k") == "Lit" and str(z.get("v")) in ("true", "false")]
                calls_ = [z for z in walk(e) if z.get("k") == "Call"]
                if len(lits) == 1 and any((c.dfn(strip(z["f"]).get("def")) or {}).get("name") == "from_elem" for z in calls_ if strip(z["f"]).get("k") == "Path"):
                    return lits[0]
                return None
            u = uniform(src)
            signs = set([u]) if u else set()
            if tl is not None:
                for y in walk(fn["body"]):
                    if y.get("k") == "Assign":
                        l = strip(y["l"])
                        if l.get("k") == "Index" and peel_refs(l["e"]).get("local") == tl:
                            v = peel_refs(y["r"])
                            signs.add(str(v.get("v")) if v.get("k") == "Lit" else "?")
            two_classes = (u is None) or len(signs) > 1
            if has_nu and two_classes and not want_nu:
                res.violate("%s : nu-setup-without-nu-solver" % key, "`%s` sets the problem up from `nu` with variables of both signs but requests the plain solver (nu_constraint = false): the second equality constraint, sum of all variables = C*nu*l, is not maintained, so the published coefficients are infeasible for the nu problem and do not depend on nu" % fn["d"]["name"], fn_loc(fn, call["ln"]))
            elif want_nu and not (has_nu and two_classes):
                res.violate("%s : plain-setup-with-nu-solver" % key, "`%s` requests the nu-constrained solver for a problem with %s" % (fn["d"]["name"], "a single class of variables" if has_nu else "no nu constraint"), fn_loc(fn, call["ln"]))
            else:
                res.ok()
    if n < 5:
        res.missing_anchor("SVM problem set-ups calling SolverState::new (fit_c, fit_nu x2, fit_one_class, fit_epsilon; found %d)" % n)
    return res.finish(5)


def rule_nufraction(ctx):
    """One-class SVM starts from a feasible point: sum(alpha) = nu * l, with floor(nu * l) variables at their upper bound and
    the *fractional remainder* nu * l - floor(nu * l) on one more.  The solver's steps keep the sum, so a starting point built
    from the truncated count alone (`n` ones, the rest zero) solves the problem for nu' = floor(nu * l) / l: for nu * l < 1 a
    model without any support vector."""
    res = RuleResult("R-C13-nufraction", "a starting point that is laid out by a truncated `nu * l` also depends on nu itself (the fractional remainder is placed, not dropped)")
    F = ctx.facts()
    n = 0
    TRUNC = ("to_usize", "floor", "trunc", "round", "ceil", "to_u32", "to_u64", "to_i32", "to_i64", "to_isize")
    for fn in F.all_fns():
        d = fn["d"]
        if d["krate"] != "linfa_svm" or fn.get("exp") or "tests" in d["path"]:
            continue
        c = fn["crate"]
        nu = [b for p_ in fn["params"] for b in pat_bindings(p_) if b.get("name") == "nu"]
        if not nu:
            continue
        lets = [y for y in walk(fn["body"]) if y.get("k") == "LetStmt" and y.get("init") is not None and y["pat"].get("k") == "Bind"]

        def truncates(e):
            return any((z.get("k") == "MethodCall" and z["name"] in TRUNC) or (z.get("k") == "Cast" and (c.ty(z.get("t")) or "").strip() in ("usize", "u32", "u64", "i32", "i64", "isize")) for z in walk(e))
        fl = set(b["local"] for b in nu)        # float quantities derived from nu
        tr = set()                               # truncated counts derived from nu
        changed = True
        while changed:
            changed = False
            for y in lets:
                l_ = y["pat"]["local"]
                if l_ in fl or l_ in tr:
                    continue
                refs = set(z.get("local") for z in walk(y["init"]) if z.get("k") == "Path" and "local" in z)
                if refs & fl and truncates(y["init"]):
                    tr.add(l_)
                    changed = True
                elif refs & fl and not ("Vec<" in (c.ty(y["pat"].get("t")) or "")):
                    fl.add(l_)
                    changed = True
        if not tr:
            continue
        # the starting point: a Vec local whose construction mentions the truncated count
        for y in lets:
            if "Vec<" not in (c.ty(y["pat"].get("t")) or ""):
                continue
            l_ = y["pat"]["local"]
            parts = [y["init"]] + [st for st in walk(fn["body"]) if st.get("k") in ("MethodCall", "Assign", "AssignOp") and any(z.get("k") == "Path" and z.get("local") == l_ for z in walk(st.get("recv") or st.get("l") or {}))]
            refs = set(z.get("local") for p_ in parts for z in walk(p_) if z.get("k") == "Path" and "local" in z)
            if not (refs & tr):
                continue
            n += 1
            key = fn_key(fn)
            res.instance("%s : `%s` laid out by a truncated count" % (key, y["pat"].get("name")))
            if refs & fl:
                res.ok()
            else:
                res.violate("%s : fraction-of-nu-dropped:%s" % (key, y["pat"].get("name")), "`%s` is filled from the truncated count of `nu * l` alone: the fractional remainder is not placed on any variable, so sum(alpha) = floor(nu * l) and the solver - which keeps that sum - fits another nu (none at all for nu * l < 1)" % y["pat"].get("name"), fn_loc(fn, y.get("ln")))
    if n < 1:
        res.missing_anchor("a starting point in linfa-svm that is laid out by a truncated nu * l")
    return res.finish(1)


def rule_fixedcache(ctx):
    """`gradient_fixed` caches sum_k C_k Q_k over the variables that sit *at* their upper bound; the gradient of the shrunk
    variables is reconstructed from it.  The cache is right only if a variable's term is added when the variable is at the
    bound after the step and taken out when it has left it.  Each `+=` / `-=` on the cache sits under tests of a
    `reached_upper()` status; the status is dated (read before or after the assignment of the new alpha; through a flag
    parameter: at the call site) and, together with the `old != new` test around it, gives the status *now*."""
    from .taint import parent_map
    res = RuleResult("R-C13-fixedcache", "a term is added to the cached gradient of the bounded variables (gradient_fixed) where the variable is at its upper bound after the step, and subtracted where it has left it")
    F = ctx.facts()
    fns = [f for f in F.all_fns() if f["d"]["krate"] == "linfa_svm" and not f.get("exp") and f.get("body") is not None]
    n = 0

    def is_upper_call(e):
        e = peel_refs(e)
        return e.get("k") == "MethodCall" and e["name"] == "reached_upper"

    def alpha_writes(fn):
        out = []
        for y in walk(fn["body"]):
            if y.get("k") == "Assign":
                l = peel_refs(y["l"])
                while l.get("k") == "Index":
                    l = peel_refs(l["e"])
                if self_field(l) == "alpha":
                    out.append(y.get("ln") or 0)
        return out

    def dated(fn, e, at_ln, depth=0):
        """-> list of (polarity_of_e_meaning_upper, when) with when in before/now, or None when not a status"""
        e = peel_refs(e)
        neg = False
        while e.get("k") == "Unary" and e.get("op") == "!":
            neg = not neg
            e = peel_refs(e["e"])
        if is_upper_call(e):
            ln = e.get("ln") or 0
            w = "before" if any(ln <= a <= at_ln for a in alpha_writes(fn)) and not any(a < ln for a in alpha_writes(fn)) else "now"
            if any(ln <= a <= at_ln for a in alpha_writes(fn)) and any(a < ln for a in alpha_writes(fn)):
                return None
            return [(not neg, w)]
        if e.get("k") == "Path" and "local" in e:
            for y in walk(fn["body"]):
                if y.get("k") == "LetStmt" and y.get("init") is not None and y["pat"].get("k") == "Bind" and y["pat"]["local"] == e["local"]:
                    r = dated(fn, y["init"], at_ln, depth)
                    if r is None:
                        return None
                    return [((p_ if not neg else not p_), w) for p_, w in r]
            # a parameter: dated at every call site
            idx = None
            k = 0
            for p_ in fn["params"]:
                bs = list(pat_bindings(p_))
                if len(bs) == 1 and bs[0]["local"] == e["local"]:
                    idx = k
                k += 1
            if idx is None or depth >= 2:
                return None
            out = []
            has_self = any(b.get("name") == "self" for p_ in fn["params"] for b in pat_bindings(p_))
            for g in fns:
                for y in walk(g["body"]):
                    if y.get("k") in ("MethodCall", "Call") and fn["def"] in (y.get("def"), y.get("inst")) or (y.get("k") == "Call" and peel_refs(y["f"]).get("k") == "Path" and fn["def"] in (peel_refs(y["f"]).get("def"), peel_refs(y["f"]).get("inst"))):
                        args = ([y["recv"]] + list(y["args"])) if y.get("k") == "MethodCall" else list(y["args"])
                        if idx >= len(args):
                            return None
                        sub = dated(g, args[idx], y.get("ln") or 0, depth + 1)
                        if sub is None:
                            return None
                        # the condition around the call site (old != new) belongs to the site
                        out += [((p_ if not neg else not p_), w, g, y) for p_, w in sub]
            return out or None
        return None

    def changed_test(fn, node, pm):
        """the site sits under `flag != x.reached_upper()` (the status has changed)"""
        a = pm.get(id(node))
        while a is not None:
            if a.get("k") == "If":
                c_ = peel_refs(a["c"])
                if c_.get("k") == "Binary" and c_["op"] in ("!=", "^"):
                    return True
            a = pm.get(id(a))
        return False

    for fn in fns:
        sites = []
        for y in walk(fn["body"]):
            if y.get("k") == "AssignOp" and y["op"] in ("+", "-", "+=", "-="):
                l = peel_refs(y["l"])
                while l.get("k") == "Index":
                    l = peel_refs(l["e"])
                if self_field(l) == "gradient_fixed" or (l.get("k") == "Path" and l.get("name") == "gradient_fixed"):
                    sites.append(y)
        if not sites:
            continue
        pm = parent_map(fn["body"])
        key = fn_key(fn)
        for y in sites:
            n += 1
            plus = y["op"].startswith("+")
            inst = "%s : gradient_fixed %s= #%d" % (key, "+" if plus else "-", n)
            res.instance(inst)
            # status tests around the site
            verdicts = []
            child, a = y, pm.get(id(y))
            unknown = False
            while a is not None:
                if a.get("k") == "If" and child is not a.get("c"):
                    pol = child is a.get("then")
                    c_ = peel_refs(a["c"])
                    if not (c_.get("k") == "Binary" and c_["op"] in ("!=", "^")):
                        r = dated(fn, a["c"], y.get("ln") or 0)
                        if r is not None:
                            for t in r:
                                means_upper = t[0] if pol else not t[0]
                                if len(t) == 4:
                                    ch = changed_test(t[2], t[3], parent_map(t[2]["body"]))
                                else:
                                    ch = changed_test(fn, y, pm)
                                if t[1] == "now":
                                    verdicts.append(means_upper)
                                elif ch:
                                    verdicts.append(not means_upper)
                                else:
                                    unknown = True
                child, a = a, pm.get(id(a))
            if not verdicts or unknown:
                res.undecided("%s : status-not-dated" % key, "the update of gradient_fixed is not governed by a reached_upper() status this rule can date", fn_loc(fn, y.get("ln")))
                continue
            bad = [v for v in verdicts if v != plus]
            if bad:
                res.violate("%s : sign-against-status" % key, "gradient_fixed is %s by the variable's term where the variable %s: the cache no longer holds the sum over the variables at their bound, the gradient reconstructed from it for shrunk variables is wrong and the returned point violates the KKT conditions when shrinking is enabled" % ("increased" if plus else "decreased", "has left its upper bound" if plus else "has just reached its upper bound"), fn_loc(fn, y.get("ln")))
            else:
                res.ok()
    if n < 3:
        res.missing_anchor("updates of gradient_fixed in linfa-svm (one in the constructor and an add / subtract pair in update at least; found %d)" % n)
    return res.finish(3)


def rule_nufeasible(ctx):
    """nu-classification hands each class a total weight of nu * l / 2 with at most one per sample; when the smaller class
    has fewer samples than that, the excess is dropped, the starting point violates y'alpha = 0 and SMO keeps that sum:
    the published coefficients are infeasible.  `fit_nu` returns a model, not a Result, so the refusal has to happen
    before it is called: every call of the classification `fit_nu` must be preceded, in its own function, by a `?` on a
    test that relates the very `nu` it is handed to counts taken from the very targets it is handed, with an Err exit."""
    from .taint import parent_map
    res = RuleResult("R-C13-nufeasible", "every call of the nu-classification set-up is preceded by a test, with an error exit, of nu against counts of the targets it is called with")
    F = ctx.facts()
    fns = [f for f in F.all_fns() if f["d"]["krate"] == "linfa_svm" and f.get("body") is not None]
    target = [f for f in fns if f["d"]["name"] == "fit_nu" and fn_file(f).endswith("classification.rs")]
    if not target:
        res.missing_anchor("linfa_svm::classification::fit_nu")
        return res.finish(2)
    tdef = target[0]["def"]
    # which parameters of fit_nu are the targets and nu
    names = [next((b["name"] for b in pat_bindings(p_)), None) for p_ in target[0]["params"]]
    if "nu" not in names or "targets" not in names:
        res.missing_anchor("parameters `targets` and `nu` of classification::fit_nu")
        return res.finish(2)
    i_nu, i_t = names.index("nu"), names.index("targets")
    by_def = {f["def"]: f for f in fns}

    def root(e):
        e = peel_refs(e)
        while e.get("k") in ("MethodCall", "Field", "Index", "Unary", "Cast"):
            e = peel_refs(e.get("recv") or e.get("e"))
        return e.get("local") if e.get("k") == "Path" else None

    def tests_feasibility(g, nu_idx, t_idx):
        """g compares something derived from its nu parameter with something derived from a count over its targets
        parameter, and has an Err exit"""
        ps = [next((b["local"] for b in pat_bindings(p_)), None) for p_ in g["params"]]
        if nu_idx >= len(ps) or t_idx >= len(ps):
            return False
        nu_l, t_l = ps[nu_idx], ps[t_idx]
        # locals derived from the targets through a count / len
        counts = set()
        grew = True
        while grew:
            grew = False
            for y in walk(g["body"]):
                if y.get("k") == "LetStmt" and y.get("init") is not None and y["pat"].get("k") == "Bind" and y["pat"]["local"] not in counts:
                    ini = y["init"]
                    direct = any(z.get("k") == "MethodCall" and z["name"] in ("count", "len", "sum") and any(w.get("k") == "Path" and w.get("local") == t_l for w in walk(z["recv"])) for z in walk(ini))
                    derived = any(z.get("k") == "Path" and z.get("local") in counts for z in walk(ini))
                    if direct or derived:
                        counts.add(y["pat"]["local"])
                        grew = True
        has_err = any(z.get("k") == "Call" and (g["crate"].dfn(strip(z["f"]).get("def")) or {}).get("name") == "Err" for z in walk(g["body"]) if strip(z.get("f") or {}).get("k") == "Path")
        for y in walk(g["body"]):
            if y.get("k") == "Binary" and y["op"] in ("<", ">", "<=", ">="):
                sides = [set(z.get("local") for z in walk(y[s_]) if z.get("k") == "Path" and "local" in z) for s_ in ("l", "r")]
                cnt = [bool(sd & counts) or any(z.get("k") == "MethodCall" and z["name"] in ("count", "len") and any(w.get("k") == "Path" and w.get("local") == t_l for w in walk(z["recv"])) for z in walk(y[s_])) for sd, s_ in zip(sides, ("l", "r"))]
                nus = [nu_l in sd for sd in sides]
                if has_err and ((nus[0] and cnt[1]) or (nus[1] and cnt[0])):
                    return True
        return False

    n = 0
    seen = set()
    for fn in fns:
        calls = [y for y in walk(fn["body"]) if y.get("k") == "Call" and strip(y["f"]).get("k") == "Path" and tdef in (strip(y["f"]).get("def"), strip(y["f"]).get("inst"))]
        if not calls:
            continue
        pm = parent_map(fn["body"])
        key = fn_key(fn)
        for call in calls:
            n += 1
            inst = "%s : call of classification::fit_nu" % key
            res.instance(inst)
            nu_arg, t_arg = root(call["args"][i_nu]), root(call["args"][i_t])
            ok = False
            child, a = call, pm.get(id(call))
            while a is not None and not ok:
                if a.get("k") == "Block":
                    for st in a.get("stmts", []):
                        if st is child or any(z is child for z in walk(st)):
                            break
                        for y in walk(st):
                            if y.get("k") == "Match" and y.get("src") == "TryDesugar":
                                for z in walk(y["scrut"]):
                                    if z.get("k") == "Call" and strip(z["f"]).get("k") == "Path":
                                        g = by_def.get(strip(z["f"]).get("inst")) or by_def.get(strip(z["f"]).get("def"))
                                        if g is None:
                                            continue
                                        roots = [root(a_) for a_ in z["args"]]
                                        if nu_arg in roots and t_arg in roots and nu_arg is not None and t_arg is not None:
                                            if tests_feasibility(g, roots.index(nu_arg), roots.index(t_arg)):
                                                ok = True
                child, a = a, pm.get(id(a))
            if ok:
                res.ok()
            elif key not in seen:
                seen.add(key)
                res.violate("%s : nu-feasibility-not-tested" % key, "classification::fit_nu is called without a preceding `?` on a test of this nu against counts of these targets: when nu * l / 2 exceeds the size of the smaller class the excess weight is dropped, the starting point has y'alpha != 0 and the published coefficients violate the equality constraint of the dual", fn_loc(fn, call.get("ln")))
    if n < 2:
        res.missing_anchor("calls of classification::fit_nu (found %d)" % n)
    return res.finish(2)


def rules(tier):
    from . import carry, c04
    from . import precision
    from . import inplace, blockmean
    return [blockmean.make_tile_rule("R-C13-tiles", lambda f: f["d"]["krate"] in ("linfa_svm", "linfa_kernel"), "linfa-svm and linfa-kernel (kernel matrix construction)"),
            inplace.make_rule("R-C13-overwrite", lambda f: f["d"]["krate"] == "linfa_svm", 2, "the support vector machines"),
            rule_precombine, rule_permute, rule_fixedcache, rule_nufeasible, rule_nufraction, rule_nusetup, rule_reselect, rule_islinear, rule_decision, rule_swap, rule_bound, rule_space, rule_sv, rule_sib, rule_snapshot, rule_rho, rule_rescale, rule_memorder, rule_extent, rule_kernel,
            carry.make_clone_rule("R-C13-clone", {"linfa_svm", "linfa_kernel"}, 6), carry.make_setter_rule("R-C13-override", {"linfa_svm"}, 6), c04.make_carry_rule("R-C13-carry", {"SvmParams"}, 6),
            precision.make_rule("R-C13-precision", lambda f: f["d"]["krate"] in ("linfa_svm", "linfa_kernel"), 100, "linfa-svm and linfa-kernel"),
            carry.make_accessor_rule("R-C13-accessor", {"linfa_svm", "linfa_kernel"}, 3), carry.make_ctor_rule("R-C13-ctor", {"linfa_svm", "linfa_kernel"}, 3)]
