"""C16 — scalers and whiteners: metadata pass-through, empty-input rejection, zero-guarded data-derived divisors."""
from . import layout
from .core import RuleResult
from .facts import fn_key, fn_loc, fn_file, walk, strip, peel_refs, pat_bindings, Render, children
from .sym import Tracer, Term, Cmp, k, as_term, walk_terms
from .taint import parent_map

LEVEL = ("Static analysis of linfa-preprocessing's scalers and whiteners: (meta) each dataset-level transform builds its output "
         "from the input's own targets, weights, feature names and target names, unselected, and replaces only the records by "
         "the array-level transform of the same object; (empty) every fit routine tests the sample count against zero and "
         "returns an error before the first reduction over the records; (div) in the scalers every division whose divisor is "
         "derived from the data (standard deviation, max-min, max-abs, row norm) is control-dependent on a zero test of that "
         "divisor - the 'constant columns are only centred', 'non-zero column' and 'keeps all output finite' clauses; (affine) LinearScaler::transform applies only affine per-element arithmetic - no "
         "clamp/min/max/abs and no branch on element values. Achieved "
         "means/variances/covariances are not decided.")
ASSUME = ["rustc resolution/typeck; HIR faithfully dumped", "whitening is claimed on full-rank data only (property text), so divisions by singular values are outside the div rule"]

REDUCTIONS = {"mean_axis", "std_axis", "var_axis", "fold_axis", "map_axis", "sum_axis", "svd", "mean", "sum", "std", "var", "cholesky", "cholesky_into", "dot", "norm_max", "norm_l1", "norm_l2"}
COUNT_WORDS = ("call:dim(", "call:nsamples(", "call:nrows(", "call:len_of(", "call:shape(")


PARTS = ("records", "targets", "weights", "feature_names", "target_names")


def is_rowcount_atom(a):
    """an atom that reads the number of samples: dim().0, nsamples(), nrows(), len_of(Axis(0)), shape()[0] - not the column count"""
    if not any(w in a for w in COUNT_WORDS):
        return False
    if "proj:1(call:dim(" in a or "Axis(1)" in a or "index(call:shape(" in a and a.rstrip(")").endswith(", 1"):
        return False
    return True


def is_colcount_atom(a):
    return "proj:1(call:dim(" in a or "call:ncols(" in a or "call:nfeatures(" in a or ("call:len_of(" in a and "Axis(1)" in a)


def builder_summaries(F):
    """{method name: {part: 'self' | ('arg', i) | 'fresh'}} for the DatasetBase builder methods, read off their bodies:
    a struct literal `DatasetBase { records, targets: self.targets, weights: Array1::zeros(0), .. }` or
    `self.f = <expr over a parameter>; self`."""
    out = {}
    for fn in F.all_fns():
        d = fn["d"]
        if d["krate"] != "linfa" or not (d.get("self_adt") or "").endswith("DatasetBase") or d["name"] not in ("new", "with_records", "with_targets", "with_weights", "with_feature_names", "with_target_names"):
            continue
        params = [p_ for p_ in fn["params"] if p_.get("k") == "Bind"]
        pidx = {p_["local"]: i for i, p_ in enumerate(params)}
        self_local = next((p_["local"] for p_ in params if p_["name"] == "self"), None)
        summ = {}
        body = fn["body"]
        lit = next((x for x in walk(body) if x.get("k") == "Struct" and (fn["crate"].dfn(x.get("def")) or {}).get("path", "").endswith("DatasetBase")), None)

        alias = {}
        for x in walk(body):
            if x.get("k") == "LetStmt" and x.get("init") is not None and x["pat"].get("k") == "Bind":
                i0 = peel_refs(x["init"])
                if i0.get("k") == "Path" and "local" in i0:
                    alias[x["pat"]["local"]] = i0["local"]

        def src(e):
            e0 = strip(e)
            # a conditional value keeps the part only if every branch does (`if uniform { zeros(0) } else { weights }`
            # drops the weights on one path)
            if e0.get("k") == "If" and e0.get("else") is not None:
                a, b = src(e0["then"]), src(e0["else"])
                return a if (a is not None and a == b) else None
            if e0.get("k") == "Match" and e0.get("src", "Normal") == "Normal" and e0.get("arms"):
                vs = [src(a_["body"]) for a_ in e0["arms"]]
                return vs[0] if all(v is not None and v == vs[0] for v in vs) else None
            if e0.get("k") == "Block" and e0.get("e") is not None and e0["stmts"]:
                return src(e0["e"])
            locs = [y for y in walk(e) if y.get("k") == "Path" and "local" in y]
            for y in locs:
                l = y["local"]
                for _ in range(4):
                    if l in alias:
                        l = alias[l]
                if l in pidx and l != self_local:
                    return ("arg", pidx[l])
            return None
        if lit is not None:
            for f_ in lit["fields"]:
                e = peel_refs(f_["e"])
                if e.get("k") == "Field" and peel_refs(e["e"]).get("local") == self_local and e["name"] == f_["name"]:
                    summ[f_["name"]] = "self"
                else:
                    summ[f_["name"]] = src(f_["e"]) or "fresh"
        else:
            summ = {p_: "self" for p_ in PARTS}
            for x in walk(body):
                if x.get("k") == "Assign":
                    t = strip(x["l"])
                    if t.get("k") == "Field" and peel_refs(t["e"]).get("local") == self_local and t["name"] in PARTS:
                        summ[t["name"]] = src(x["r"]) or "fresh"
        if set(summ) >= set(PARTS):
            out[d["name"]] = summ
    return out


def dataset_parts(v, summaries, depth=0):
    """{part: term | 'fresh'} of a dataset-valued term built with the DatasetBase builder methods, or None"""
    t = as_term(v)
    if t is None or depth > 8:
        return None
    if t.op.startswith("param:"):
        return {p_: Term("field:%s" % p_, (t,)) for p_ in PARTS}
    if t.op.startswith("struct:") and t.op.endswith("DatasetBase"):
        got = {a.op[1:]: a.args[0] for a in t.args if isinstance(a, Term) and a.op.startswith("=") and a.args}
        return {p_: got.get(p_, "fresh") for p_ in PARTS}
    if t.op.startswith("call:") and t.name in summaries:
        summ = summaries[t.name]
        args = list(t.args)
        has_self = any(v_ == "self" for v_ in summ.values()) or t.name != "new"
        base = dataset_parts(args[0], summaries, depth + 1) if (has_self and args) else None
        if has_self and base is None and t.name != "new":
            return None
        out = {}
        for p_ in PARTS:
            sv = summ[p_]
            if sv == "self":
                out[p_] = base[p_] if base else "fresh"
            elif sv == "fresh":
                out[p_] = "fresh"
            else:
                i = sv[1] if t.name != "new" else sv[1]
                out[p_] = args[i] if i < len(args) else "fresh"
        return out
    return None


def rule_meta(ctx):
    res = RuleResult("R-C16-meta", "dataset-level transforms pass targets, weights, feature names and target names through unchanged and replace only the records")
    F = ctx.facts()
    summaries = builder_summaries(F)
    if len(summaries) < 5:
        res.missing_anchor("DatasetBase builder methods new/with_records/with_weights/with_feature_names/with_target_names (summarised %s)" % sorted(summaries))
    fns = [f for f in F.find_fns(name="transform", krate="linfa_preprocessing", trait="Transformer") if "DatasetBase" in f["output"]]
    for fn in fns:
        key = fn_key(fn)
        tr = Tracer(fn, inline=ctx.inliner()).run()
        parts = dataset_parts(tr.result, summaries)
        if parts is None:
            res.instance("%s : result shape" % key)
            res.undecided("%s : result-shape" % key, "cannot read the result as a dataset built from the input with the DatasetBase builder methods: %s" % k(tr.result)[:120], fn_loc(fn))
            continue
        x = "param:%s" % (fn["params"][1]["name"] if len(fn["params"]) > 1 and fn["params"][1].get("k") == "Bind" else "x")
        want = {
            "targets": ["field:targets(%s)" % x, "call:targets(%s)" % x],
            "weights": ["field:weights(%s)" % x, "call:weights(%s)" % x],
            "feature_names": ["call:feature_names(%s)" % x, "field:feature_names(%s)" % x],
            "target_names": ["call:target_names(%s)" % x, "field:target_names(%s)" % x],
        }
        for what, accepted in want.items():
            res.instance("%s : %s" % (key, what))
            val = parts[what]
            if val == "fresh":
                res.violate("%s : dropped:%s" % (key, what), "the transformed dataset does not carry the input's %s: the builder calls used reset it (C16: metadata pass through unchanged)" % what, fn_loc(fn))
            elif k(val) in accepted:
                res.ok()
                res.sample({"fn": key, "part": what, "source": k(val)})
            else:
                res.violate("%s : altered:%s" % (key, what), "%s of the output is `%s`, not the input's own" % (what, k(val)[:100]), fn_loc(fn))
        res.instance("%s : records" % key)
        rk = k(parts["records"]) if parts["records"] != "fresh" else "fresh"
        if rk in ("call:transform(param:self, field:records(%s))" % x, "call:transform(param:self, call:records(%s))" % x):
            res.ok()
        else:
            res.violate("%s : records" % key, "records of the output are not `self.transform(<input records>)`: %s" % rk[:120], fn_loc(fn))
    return res.finish(15)


def rule_empty(ctx):
    res = RuleResult("R-C16-empty", "every fit routine rejects an empty matrix (sample count == 0 -> Err) before the first reduction over the records")
    F = ctx.facts()
    cands = [f for f in F.all_fns() if f["d"]["krate"] == "linfa_preprocessing" and fn_file(f).endswith(("linear_scaling.rs", "whitening.rs"))]
    for fn in cands:
        if "Result<" not in fn["output"]:
            continue
        tr = Tracer(fn).run()
        params = ["param:%s" % p["name"] for p in fn["params"] if p.get("k") == "Bind" and p["name"] != "self"]
        reds = [e for e in tr.events if e.kind == "call" and e.name in REDUCTIONS and e.recv is not None and any(p in k(e.recv) for p in params) and e.closure_depth == 0]
        if not reds:
            continue
        key = fn_key(fn)
        res.instance("%s : first reduction `%s`" % (key, reds[0].name))
        first = min(e.order for e in reds)

        def empty_guards(tr_, before, site=None):
            """count == 0 -> Err exits before `before`; with `site` (a call event) only exits on the site's own path count:
            every other condition the exit sits under must also hold at the site"""
            site_g = set((g[0], g[1]) for g in site.guards) if site is not None else None

            def on_path(e, cmp_key):
                if site_g is None:
                    return True
                return all((g[0], g[1]) in site_g for g in e.guards if g[1] != cmp_key)
            out_ = []
            for e in tr_.events:
                if e.kind not in ("ret", "iret") or e.order > before:
                    continue
                v = as_term(e.val)
                if v is None or not v.is_call("Err"):
                    continue
                for g in e.guards:
                    for t in walk_terms(g[3]):
                        if isinstance(t, Cmp) and t.cop == "==" and g[0] == "+" and any(is_rowcount_atom(a) for a in t.poly.atoms()) and t.poly.t.get((), 0) == 0 and on_path(e, g[1]):
                            out_.append(t)
            # `if n == 0 { Err(..) } else { Ok(()) }` as the value of a helper, propagated by the caller's `?`
            for e in tr_.events:
                if e.kind != "call" or e.name != "Err" or e.order > before:
                    continue
                for g in e.guards:
                    for t in walk_terms(g[3]):
                        if isinstance(t, Cmp) and t.cop == "==" and g[0] == "+" and any(is_rowcount_atom(a) for a in t.poly.atoms()) and t.poly.t.get((), 0) == 0:
                            ek = k(e.val)
                            if on_path(e, g[1]) and any(x.kind == "try" and e.order < x.order <= before and ek in k(x.val) for x in tr_.events):
                                out_.append(t)
            return out_
        guards = empty_guards(tr, first)
        if not guards:
            # the test may sit in a private helper called first (`ensure_samples(x)?`) ...
            tr_i = Tracer(fn, inline=ctx.inliner()).run()
            reds_i = [e for e in tr_i.events if e.kind == "call" and e.name in REDUCTIONS and e.recv is not None and any(p in k(e.recv) for p in params) and e.closure_depth == 0]
            if reds_i:
                guards = empty_guards(tr_i, min(e.order for e in reds_i))
        if not guards:
            # ... or in every caller, before the call (the dispatcher checks once for all methods)
            callers = []
            for g_ in cands:
                if g_ is fn:
                    continue
                trg = Tracer(g_, inline=ctx.inliner(keep=(fn["d"]["name"],))).run()
                sites_ = [e for e in trg.events if e.kind == "call" and e.name == fn["d"]["name"] and e.node.get("k") in ("Call", "MethodCall")]
                for e in sites_:
                    callers.append((g_, bool(empty_guards(trg, e.order, site=e))))
            if callers and all(okc for _, okc in callers):
                guards = ["checked by every caller: %s" % sorted(set(fn_key(g_) for g_, _ in callers))]
        if guards:
            res.ok()
            res.sample({"fn": key, "guard": guards[0].key() if hasattr(guards[0], "key") else guards[0], "before": reds[0].name})
        elif any(e.kind in ("ret", "iret") and as_term(e.val) is not None and as_term(e.val).is_call("Err") and e.order <= first and any(isinstance(t, Cmp) and t.cop == "==" and any(is_colcount_atom(a) for a in t.poly.atoms()) for g in e.guards for t in walk_terms(g[3])) for e in tr.events):
            res.violate("%s : empty-test-on-columns" % key, "the emptiness test before the first reduction (`%s`) compares the number of *columns* with zero: a (0, p) matrix is not rejected and the reductions run over no rows" % reds[0].name, fn_loc(fn, reds[0].node["ln"]))
        else:
            res.violate("%s : no-empty-guard" % key, "no `sample count == 0 -> return Err(..)` test dominates the first reduction over the records (`%s`)" % reds[0].name, fn_loc(fn, reds[0].node["ln"]))
    return res.finish(4)


def is_zero_const(c, n):
    n = peel_refs(n)
    if n.get("k") == "Lit" and n.get("lk") in ("int", "float"):
        try:
            return float(n["v"].replace("_", "")) == 0.0
        except ValueError:
            return False
    if n.get("k") == "Call" and not n["args"]:
        f = strip(n["f"])
        d = c.dfn(f.get("def")) if f.get("k") == "Path" else None
        return bool(d and d["name"] == "zero")
    return False


def rule_div(ctx):
    res = RuleResult("R-C16-div", "every division by a data-derived quantity in the scalers is control-dependent on a zero test of that divisor")
    F = ctx.facts()
    cands = [f for f in F.all_fns() if f["d"]["krate"] == "linfa_preprocessing" and fn_file(f).endswith(("linear_scaling.rs", "norm_scaling.rs"))]
    for fn in cands:
        c = fn["crate"]
        r = Render(c)
        key = fn_key(fn)
        pm = None
        idx = 0
        for n in walk(fn["body"]):
            if n.get("k") not in ("Binary", "AssignOp") or n["op"] != "/":
                continue
            d = peel_refs(n["r"])
            # constants and casts of counts are not data-derived divisors
            if d.get("k") == "Lit" or (d.get("k") == "Call" and (c.dfn(strip(d["f"]).get("def")) or {}).get("name") in ("cast", "from", "one", "from_usize")):
                continue
            idx += 1
            dtxt = r.e(d)
            inst = "%s : #%d `.. / %s`" % (key, idx, dtxt[:40])
            res.instance(inst)
            if pm is None:
                pm = parent_map(fn["body"])
            guarded = False

            def zero_polarity(cond):
                """True: the condition holding means divisor == 0; False: means divisor != 0; None: not a zero test of it"""
                cond = strip(cond)
                pol = None
                ops = []
                if cond.get("k") == "Unary" and cond["op"] == "!":
                    inner = strip(cond["e"])
                    neg = True
                else:
                    inner, neg = cond, False
                if inner.get("k") in ("MethodCall", "Call"):
                    nm = inner["name"] if inner["k"] == "MethodCall" else (c.dfn(strip(inner["f"]).get("def")) or {}).get("name")
                    args = ([inner["recv"]] if inner["k"] == "MethodCall" else []) + inner["args"]
                    if nm in ("eq", "abs_diff_eq", "relative_eq", "ulps_eq"):
                        pol, ops = True, args
                    elif nm in ("ne", "abs_diff_ne"):
                        pol, ops = False, args
                    elif nm == "is_zero":
                        pol, ops = True, args + [None]
                elif inner.get("k") == "Binary" and inner["op"] in ("==", "!=", ">", "<"):
                    pol = inner["op"] == "=="
                    ops = [inner["l"], inner["r"]]
                if pol is None:
                    return None
                if neg:
                    pol = not pol
                has_div = any(o is not None and r.e(peel_refs(o)) == dtxt for o in ops)
                has_zero = any(o is None or is_zero_const(c, o) for o in ops)
                return pol if (has_div and has_zero) else None
            cur = n
            while id(cur) in pm and not guarded:
                par = pm[id(cur)]
                # an earlier statement of an enclosing block that leaves (continue / return / break) when the divisor is zero
                if par.get("k") == "Block":
                    for st in par["stmts"]:
                        st0 = strip(st)
                        if st0 is cur or any(x is cur for x in walk(st0)):
                            break
                        if st0.get("k") == "If" and not st0.get("else") and zero_polarity(st0["c"]) is True:
                            leaves = [x for x in walk(st0["then"]) if x.get("k") in ("Continue", "Ret", "Break")]
                            if leaves:
                                guarded = True
                cur = par
            cur = n
            while id(cur) in pm and not guarded:
                par = pm[id(cur)]
                if par.get("k") == "If":
                    in_then = any(x is cur for x in walk(par["then"]))
                    cond = strip(par["c"])
                    pol = None   # True: condition true means divisor == 0
                    ops = []
                    if cond.get("k") == "Unary" and cond["op"] == "!":
                        inner = strip(cond["e"])
                        neg = True
                    else:
                        inner, neg = cond, False
                    if inner.get("k") in ("MethodCall", "Call"):
                        nm = inner["name"] if inner["k"] == "MethodCall" else (c.dfn(strip(inner["f"]).get("def")) or {}).get("name")
                        args = ([inner["recv"]] if inner["k"] == "MethodCall" else []) + inner["args"]
                        if nm in ("eq", "abs_diff_eq", "relative_eq", "ulps_eq"):
                            pol, ops = True, args
                        elif nm in ("ne", "abs_diff_ne"):
                            pol, ops = False, args
                        elif nm == "is_zero":
                            pol, ops = True, args + [None]
                    elif inner.get("k") == "Binary" and inner["op"] in ("==", "!=", ">", "<"):
                        pol = inner["op"] == "=="
                        ops = [inner["l"], inner["r"]]
                    if pol is not None:
                        if neg:
                            pol = not pol
                        has_div = any(o is not None and r.e(peel_refs(o)) == dtxt for o in ops)
                        has_zero = any(o is None or is_zero_const(c, o) for o in ops)
                        if has_div and has_zero and ((pol and not in_then) or (not pol and in_then)):
                            guarded = True
                            break
                cur = par
            if guarded:
                res.ok()
                res.sample({"site": inst, "guard": "zero test of the divisor"})
            else:
                res.violate("%s : unguarded-division:%s" % (key, dtxt[:30]),
                            "division by the data-derived `%s` is not guarded by a zero test of that divisor: an all-zero row/column yields NaN/inf (C16: 'keeps all output finite')" % dtxt[:50], fn_loc(fn, n["ln"]))
    return res.finish(4)


NONAFFINE = {"clamp", "max", "min", "abs", "floor", "ceil", "round", "powi", "powf", "sqrt", "exp", "ln", "signum", "rem_euclid", "mul_add_noop", "trunc", "fract", "recip"}


def rule_affine(ctx):
    res = RuleResult("R-C16-affine", "LinearScaler::transform applies only affine per-element arithmetic with the fitted offsets/scales (no clamp/min/max/abs, no branch on element values)")
    F = ctx.facts()
    fns = [f for f in F.find_fns(name="transform", krate="linfa_preprocessing", trait="Transformer") if (f["d"].get("self_adt") or "").endswith("LinearScaler") and "DatasetBase" not in f["inputs"][1]]
    if not fns:
        res.missing_anchor("<LinearScaler as Transformer<Array2,..>>::transform")
    for fn in fns:
        c = fn["crate"]
        r = Render(c)
        key = fn_key(fn)
        xparam = fn["params"][1]["local"] if fn["params"][1].get("k") == "Bind" else None
        # element-valued locals: parameters of closures passed to mapv/mapv_inplace/map_inplace
        elem = set()
        for n in walk(fn["body"]):
            if n.get("k") == "MethodCall" and n["name"] in ("mapv_inplace", "mapv", "map_inplace", "mapv_into", "map") and n["args"]:
                clo = strip(n["args"][0])
                if clo.get("k") == "Closure":
                    for p in clo["params"]:
                        for b in pat_bindings(p):
                            elem.add(b["local"])
        res.instance("%s : %d element closures" % (key, len(elem)))
        bad = None
        for n in walk(fn["body"]):
            if n.get("k") == "MethodCall" and n["name"] in NONAFFINE:
                recv_locals = set(x["local"] for x in walk(n["recv"]) if x.get("k") == "Path" and "local" in x)
                arr_names = [x.get("name") for x in walk(n["recv"]) if x.get("k") == "Path" and "local" in x]
                if recv_locals & elem or (xparam is not None and xparam in recv_locals):
                    bad = (n, "`%s` is applied to the data: the transform is no longer the fitted affine map on unseen rows" % r.e(n)[:60])
            if n.get("k") == "If":
                cl = set(x["local"] for x in walk(n["c"]) if x.get("k") == "Path" and "local" in x)
                if cl & elem:
                    bad = (n, "a branch on the element value `%s`: the map is not affine" % r.e(n["c"])[:60])
        if bad:
            res.violate("%s : non-affine-operation" % key, bad[1], fn_loc(fn, bad[0]["ln"]))
        else:
            res.ok()
    return res.finish(1)


def rule_extrema(ctx):
    """'min-max scaling maps each non-constant column onto the requested range with both ends attained', 'max-abs gives
    every non-zero column maximum absolute value one': the column minima / maxima the scales are computed from are real
    extrema only if the running extremum starts from its identity element (rules/extrema.py)."""
    from . import extrema
    res = RuleResult("R-C16-extrema", "every running column/row extremum in the scalers starts from the identity element of its own operation (-inf/min_value for max, +inf/max_value for min) or from data")
    F = ctx.facts()
    n = 0
    for fn in F.all_fns():
        if fn["d"]["krate"] != "linfa_preprocessing" or not fn_file(fn).endswith(("linear_scaling.rs", "norm_scaling.rs", "whitening.rs")):
            continue
        key = fn_key(fn)
        i = 0
        for node, op, kind, text, what in extrema.sites(fn):
            i += 1
            v = extrema.verdict(op, kind)
            if v is None:
                continue
            n += 1
            inst = "%s : running %s #%d %s" % (key, op, i, what)
            res.instance(inst)
            if v:
                res.ok()
                res.sample({"site": inst, "start": text})
            else:
                res.violate("%s : extremum-start:%s#%d" % (key, op, i), "a running %s starts from `%s`, which is not the identity element of %s: for columns entirely on the other side of it (e.g. all-negative values against min_positive_value) the reported extremum is the start value, not a data value" % (op, text, op), fn_loc(fn, node["ln"]))
    if n < 2:
        res.missing_anchor("the column minimum / maximum folds of ScalingMethod::min_max (found %d)" % n)
    return res.finish(2)


rule_memorder = layout.make_rule("R-C16-memorder", "raw memory-order buffers (as_slice_memory_order, into_raw_vec, as_ptr) of record matrices are used by position only behind an is_standard_layout() test", lambda f: (f["d"]["krate"] == "linfa_preprocessing" and any(x in fn_file(f) for x in ("linear_scaling", "norm_scaling", "whitening"))) or (f["d"]["krate"] == "linfa" and fn_file(f).endswith("lapack_bounds.rs")), "linfa-preprocessing scalers and whiteners and the linfa::dataset lapack adapters they call")

BATCH_REDUCTIONS = {"mean", "sum", "std", "var", "product", "mean_axis", "sum_axis", "std_axis", "var_axis", "fold", "fold_axis", "min", "max",
              "norm_l1", "norm_l2", "norm_max", "norm", "quantile_axis_mut", "quantile_mut"}


def _if_ancestors(root, node):
    """the `If` nodes that enclose `node`"""
    from .layout import with_parents
    for n_, anc in with_parents(root):
        if n_ is node:
            return [a for a in anc if a.get("k") == "If"]
    return []


def rule_fitted(ctx):
    """A fitted scaler / whitener applies the statistics of the data it was *fitted* on: `transform` of a matrix is a
    function of the fitted offsets, scales and matrix and of each sample alone.  A statistic taken across the samples of
    the matrix being transformed (a column mean, a column sum ..) makes the result depend on which other samples are in the
    batch - for the fitting data the two coincide, which is all the tests look at."""
    res = RuleResult("R-C16-fitted", "`transform` of a fitted scaler / whitener takes no statistic across the samples of the matrix it transforms")
    F = ctx.facts()
    fns = [f for f in F.all_fns() if f["d"]["krate"] == "linfa_preprocessing" and f["d"]["name"] == "transform" and not f.get("exp")
           and fn_file(f).endswith(("linear_scaling.rs", "whitening.rs")) and "DatasetBase" not in (f["inputs"][1] if len(f["inputs"]) > 1 else "")]
    if len(fns) < 2:
        res.missing_anchor("the matrix `transform` of LinearScaler and FittedWhitener (found %d)" % len(fns))

    def axis_of(call):
        for a in call["args"]:
            a = peel_refs(a)
            if a.get("k") == "Call" and a["args"] and peel_refs(a["args"][0]).get("k") == "Lit":
                return str(peel_refs(a["args"][0]).get("v"))
        return None
    for fn in fns:
        c = fn["crate"]
        r = Render(c)
        key = fn_key(fn)
        res.instance(key)
        whole = {b["local"] for p_ in fn["params"][1:] for b in pat_bindings(p_)}
        cols = set()
        changed = True
        while changed:
            changed = False
            for y in walk(fn["body"]):
                if y.get("k") == "LetStmt" and y.get("init") is not None and y["pat"].get("k") == "Bind":
                    i0 = peel_refs(y["init"])
                    while i0.get("k") == "MethodCall" and i0["name"] in ("view", "view_mut", "to_owned", "clone", "into_owned", "reborrow"):
                        i0 = peel_refs(i0["recv"])
                    if i0.get("k") == "Path" and i0.get("local") in whole and y["pat"]["local"] not in whole:
                        whole.add(y["pat"]["local"])
                        changed = True
        # closure parameters fed by a walk over the columns of the input
        for y in walk(fn["body"]):
            if y.get("k") != "MethodCall":
                continue
            cls = [strip(a) for a in y["args"] if strip(a).get("k") == "Closure"]
            if not cls:
                continue
            spans = False
            for z in walk(y["recv"]):
                if z.get("k") == "MethodCall" and peel_refs(z["recv"]).get("local") in whole:
                    if z["name"] in ("columns", "columns_mut", "gencolumns", "gencolumns_mut") or (z["name"] in ("axis_iter", "axis_iter_mut", "lanes", "lanes_mut") and axis_of(z) == ("1" if z["name"].startswith("axis_iter") else "0")):
                        spans = True
            if spans:
                for cl in cls:
                    for p_ in cl["params"]:
                        for b in pat_bindings(p_):
                            if "ArrayBase" in (c.ty(b.get("t")) or "ArrayBase"):
                                cols.add(b["local"])
        bad = None
        for y in walk(fn["body"]):
            if y.get("k") != "MethodCall" or y["name"] not in BATCH_REDUCTIONS:
                continue
            rv = peel_refs(y["recv"])
            while rv.get("k") == "MethodCall" and rv["name"] in ("view", "view_mut", "to_owned", "clone", "iter", "mapv", "map"):
                rv = peel_refs(rv["recv"])
            if rv.get("k") != "Path" or "local" not in rv:
                continue
            if rv["local"] in cols:
                bad = (y, "a column of the input")
            elif rv["local"] in whole and not (y["name"].endswith("_axis") and axis_of(y) == "1"):
                bad = (y, "the input")
            if bad:
                break
        # the input is handed back untouched for an empty matrix only: any other shortcut (a scaler that "looks like the
        # identity") skips what follows the per-column pass - the map onto the requested min-max range
        unscaled = None
        for y in walk(fn["body"]):
            if y.get("k") != "If":
                continue
            rets = [z for z in walk(y["then"]) if z.get("k") == "Ret" and z.get("e") is not None and peel_refs(z["e"]).get("k") == "Path" and peel_refs(z["e"]).get("local") in whole]
            if not rets:
                continue
            cnd = strip(y["c"])
            while cnd.get("k") in ("DropTemps", "Paren"):
                cnd = strip(cnd["e"])
            only_empty = cnd.get("k") == "MethodCall" and cnd["name"] == "is_empty" and peel_refs(cnd["recv"]).get("local") in whole
            if cnd.get("k") == "Binary" and cnd["op"] == "==" and any(z.get("k") == "MethodCall" and z["name"] in ("nrows", "len", "len_of", "nsamples", "ncols") and peel_refs(z["recv"]).get("local") in whole for z in walk(cnd)) and any(peel_refs(s_).get("k") == "Lit" and str(peel_refs(s_).get("v")).rstrip("usize_") == "0" for s_ in (cnd["l"], cnd["r"])):
                only_empty = True
            # a branch that rewrites the input in place before handing it back (a fast path over `as_slice_mut()`) returns the
            # scaled input, not the input as it is
            MUTS = ("as_slice_mut", "as_slice_memory_order_mut", "iter_mut", "mapv_inplace", "map_inplace", "columns_mut", "rows_mut", "axis_iter_mut", "view_mut", "row_mut", "column_mut", "outer_iter_mut", "par_mapv_inplace", "assign", "fill")
            cond_and_then = [y["c"], y["then"]] + [a_["c"] for a_ in _if_ancestors(fn["body"], y)]
            rewritten = any(z.get("k") == "MethodCall" and z["name"] in MUTS and peel_refs(z["recv"]).get("local") in whole for e_ in cond_and_then for z in walk(e_))
            if not only_empty and not rewritten and fn_file(fn).endswith("linear_scaling.rs"):
                unscaled = (y, cnd)
        if unscaled and not bad:
            res.violate("%s : input-returned-unscaled" % key, "`%s`: the input is returned as it is under a condition other than `x.is_empty()`: the steps after the per-column pass (the map onto the requested range) are skipped for non-empty data" % r.e(unscaled[1])[:60], fn_loc(fn, unscaled[0].get("ln")))
        elif bad:
            res.violate("%s : transform-uses-batch-statistic:%s" % (key, bad[0]["name"]), "`%s` is taken over %s, across the samples being transformed: what a sample is mapped to then depends on the rest of the batch, not on the fitted statistics alone" % (r.e(bad[0])[:50], bad[1]), fn_loc(fn, bad[0].get("ln")))
        else:
            res.ok()
    return res.finish(2)


def rule_normarms(ctx):
    """The three row norms are norms: sums / maxima of *absolute* values.  An arm that reduces the signed entries (a plain
    maximum) agrees with the norm for rows whose dominant entry is positive - and divides by a negative number, or by
    zero, otherwise."""
    res = RuleResult("R-C16-normarms", "every arm of NormScaler's norm dispatcher computes a norm: norm_l1 / norm_l2 / norm_max, or a reduction over absolute values")
    F = ctx.facts()
    fns = [f for f in F.all_fns() if f["d"]["krate"] == "linfa_preprocessing" and f["d"]["name"] == "transform" and fn_file(f).endswith("norm_scaling.rs") and not f.get("exp")]
    n = 0
    for fn in fns:
        c = fn["crate"]
        r = Render(c)
        key = fn_key(fn)
        for y in walk(fn["body"]):
            if y.get("k") != "Match" or y.get("src", "Normal") != "Normal":
                continue
            if not any(z.get("k") == "Field" and z["name"] == "norm" for z in walk(y["scrut"])):
                continue
            for a in y["arms"]:
                p_ = a["pat"]
                while p_.get("k") == "Ref":
                    p_ = p_["pat"]
                vn = (c.dfn(p_.get("def")) or {}).get("name")
                if not vn:
                    continue
                n += 1
                res.instance("%s : arm %s" % (key, vn))
                calls = [z["name"] for z in walk(a["body"]) if z.get("k") == "MethodCall"]
                if any(nm in ("norm_l1", "norm_l2", "norm_max", "norm") for nm in calls) or "abs" in calls:
                    res.ok()
                elif any(nm in ("fold", "max", "min", "reduce", "sum", "max_by", "min_by") for nm in calls):
                    res.violate("%s : norm-without-absolute-value:%s" % (key, vn), "the `%s` arm reduces the signed entries (`%s`): for a row whose dominant entry is negative this is not the norm - the row is divided by a negative number or by zero" % (vn, r.e(a["body"])[:50]), fn_loc(fn, a["body"].get("ln")))
                else:
                    res.undecided("%s : arm-form:%s" % (key, vn), "arm not recognised (fail closed)", fn_loc(fn, a["body"].get("ln")))
    if n < 3:
        res.missing_anchor("the three arms of NormScaler's norm dispatcher (found %d)" % n)
    return res.finish(3)


def rule_normzero(ctx):
    """`norm scaling gives every non-zero row unit norm`: a row is left alone only when its norm is zero, and a norm (a sum or
    maximum of absolute values, or the root of a sum of squares) is zero exactly when every entry is.  A zero test with an
    absolute tolerance (`abs_diff_eq!(norm, 0)`: the machine epsilon) also catches non-zero rows measured in a small unit,
    which then come back unscaled."""
    from .zeroskip import zero_test_kind
    res = RuleResult("R-C16-normzero", "NormScaler leaves a row unscaled only under an exact comparison of its norm with zero")
    F = ctx.facts()
    fns = [f for f in F.all_fns() if f["d"]["krate"] == "linfa_preprocessing" and f["d"]["name"] == "transform" and fn_file(f).endswith("norm_scaling.rs") and not f.get("exp")]
    n = 0
    for fn in fns:
        c = fn["crate"]
        key = fn_key(fn)
        for y in walk(fn["body"]):
            if y.get("k") != "If":
                continue
            kind = zero_test_kind(c, y["c"])
            if kind is None:
                continue
            n += 1
            res.instance("%s : zero test `%s`" % (key, Render(c).e(strip(y["c"]))[:50]))
            if kind == "exact":
                res.ok()
            else:
                res.violate("%s : norm-zero-test-with-absolute-tolerance" % key, "`%s` decides whether the row is divided by its norm with an absolute tolerance (the machine epsilon): a non-zero row whose norm is below it (a row measured in a small unit) is returned unscaled instead of with unit norm" % Render(c).e(strip(y["c"]))[:60], fn_loc(fn, y.get("ln")))
    if n < 1:
        res.missing_anchor("the zero test on the row norm in NormScaler::transform")
    return res.finish(1)


def make_absfloor_rule(rid, select, what):
    def rule(ctx):
        return _absfloor(ctx, rid, select, what)
    return rule


def rule_absfloor(ctx):
    return _absfloor(ctx, "R-C16-absfloor", lambda f: f["d"]["krate"] == "linfa_preprocessing" and f["d"]["name"] == "fit" and fn_file(f).endswith("whitening.rs") and not f.get("exp"), "Whitener::fit")


def _absfloor(ctx, rid, select, what_fn):
    """`whitening gives identity sample covariance on full-rank data`, whatever the unit of the data.  The spectrum of the
    (centred) data scales with that unit, so a floor on it - or on its inverse - that is an absolute constant binds for data
    that is small (large) enough, full rank or not, and the whitened covariance is no longer the identity.  Each clamp of a
    spectrum value by a positive literal in Whitener::fit is a site; it is keyed by the arm it sits in and by what is clamped
    (the value that is inverted afterwards, or the inverse itself)."""
    res = RuleResult(rid, "no singular value / eigenvalue (or its inverse) is clamped by an absolute constant in %s" % what_fn)
    F = ctx.facts()
    fns = [f for f in F.all_fns() if select(f)]
    n = 0
    from .layout import with_parents
    for fn in fns:
        c = fn["crate"]
        key = fn_key(fn)
        n += 1
        res.instance("%s : spectrum clamps" % key)
        found = False
        for y, anc in with_parents(fn["body"]):
            if y.get("k") not in ("MethodCall", "Call"):
                continue
            nm = y.get("name") if y.get("k") == "MethodCall" else (c.dfn(strip(y["f"]).get("def")) or {}).get("name")
            if nm not in ("max", "min", "clamp"):
                continue
            operands = ([y["recv"]] + list(y["args"])) if y.get("k") == "MethodCall" else list(y["args"])
            lits = []
            for o in operands:
                o = peel_refs(o)
                while o.get("k") == "Call" and len(o.get("args", [])) == 1 and (c.dfn(strip(o["f"]).get("def")) or {}).get("name") in ("cast", "from", "from_f64", "from_f32"):
                    o = peel_refs(o["args"][0])
                if o.get("k") == "MethodCall" and o["name"] == "unwrap":
                    o = peel_refs(o["recv"])
                    while o.get("k") == "Call" and len(o.get("args", [])) == 1:
                        o = peel_refs(o["args"][0])
                if o.get("k") == "Lit" and o.get("lk") in ("float", "int"):
                    from .facts import lit_float
                    if lit_float(o.get("v")) not in (0.0, None):      # `x.max(0.)` only removes a negative rounding residue
                        lits.append(o)
            if not lits or not any(a.get("k") == "Closure" for a in anc):
                continue
            # which arm of the method dispatcher
            arm = "?"
            for a in anc:
                if a.get("k") == "Match" and a.get("src", "Normal") == "Normal":
                    for ar in a["arms"]:
                        if any(z is y for z in walk(ar["body"])):
                            p_ = ar["pat"]
                            while p_.get("k") == "Ref":
                                p_ = p_["pat"]
                            arm = (c.dfn(p_.get("def")) or {}).get("name") or arm
            others = [peel_refs(o) for o in operands if peel_refs(o) not in lits]
            inv = any(z.get("k") == "Binary" and z["op"] == "/" for o in operands for z in walk(o)) or any(z.get("k") == "MethodCall" and z["name"] == "recip" for o in operands for z in walk(o))
            what = "inverse" if inv else "value"
            found = True
            k2 = "%s : absolute-floor:%s:%s" % (key, arm, what)
            res.violate(k2, "in the %s arm a spectrum %s is clamped with the absolute constant %s: the spectrum scales with the unit of the data, so for full-rank data that is %s enough the clamp binds and the whitened covariance is not the identity" % (arm, "value's inverse" if inv else "value", lits[0].get("v"), "large" if inv else "small"), fn_loc(fn, y.get("ln")))
        if not found:
            res.ok()
    if n < 1:
        res.missing_anchor(what_fn)
    return res.finish(1)


def rule_ends(ctx):
    """'min-max scaling maps each non-constant column onto the requested range with both ends attained', 'max-abs scaling
    gives every non-zero column maximum absolute value one', 'standard scaling yields zero mean and unit variance': for a
    non-constant column the fitted offset and scale, read as formulas of the column's mean / standard deviation / minimum /
    maximum / largest absolute value (rules/formula.py), composed with the element map of transform, give
        min-max:   T(min) = lo and T(max) = hi,
        max-abs:   T(x) = x / maxabs,
        standard:  T(x) = (x - mean) / std   (with_mean, with_std)."""
    from .formula import Formula, V
    from .calc import Unsupported, Rat, Poly
    res = RuleResult("R-C16-ends", "fit and transform of the linear scalers compose to the documented maps: min-max sends the column minimum to the lower and the maximum to the upper end of the range, max-abs divides by the largest absolute value, standard scaling is (x - mean) / std")
    F = ctx.facts()
    sel = lambda nm: next((f for f in F.all_fns() if f["d"]["krate"] == "linfa_preprocessing" and f["d"]["name"] == nm and fn_file(f).endswith("linear_scaling.rs") and not f.get("exp") and (f["d"].get("self_adt") or "").endswith("ScalingMethod") and not f["d"].get("trait")), None)   # noqa: E731
    fits = {k_: sel(k_) for k_ in ("standardize", "min_max", "max_abs")}
    tr = next((f for f in F.find_fns(name="transform", krate="linfa_preprocessing", trait="Transformer") if (f["d"].get("self_adt") or "").endswith("LinearScaler") and "DatasetBase" not in f["inputs"][1]), None)
    if tr is None or not all(fits.values()):
        res.missing_anchor("LinearScaler::standardize / min_max / max_abs and <LinearScaler as Transformer<Array2>>::transform")
        return res.finish(3)
    c = tr["crate"]

    def fit_formulas(fn, bools):
        fm = Formula(F)
        fm.skip_early_returns = True
        fm.general_branch = True
        fm.opaque_any.update({"mean_axis": "mean", "std_axis": "std", "norm_max": "maxabs", "norm_l1": "?", "var_axis": "var"})
        env = {}
        for p_ in fn["params"]:
            for b in pat_bindings(p_):
                ty = (c.ty(b.get("t")) or "").strip()
                if ty == "bool":
                    fm.bool_env[b["local"]] = bools.get(b["name"], True)
                elif "ArrayBase" in ty:
                    env[b["local"]] = V("elem2", fm.atom("x"))
                else:
                    env[b["local"]] = V("scal", fm.atom({"min": "lo", "max": "hi"}.get(b["name"], "arg:" + b["name"])))
        # running extrema over the rows: fold_axis(Axis(0), +inf, keep the smaller) is the column minimum, (-inf, the larger) the maximum
        for y in walk(fn["body"]):
            if y.get("k") == "LetStmt" and y.get("init") is not None and y["pat"].get("k") == "Bind":
                i0 = peel_refs(y["init"])
                if i0.get("k") == "MethodCall" and i0["name"] == "fold_axis" and len(i0["args"]) == 3:
                    st = peel_refs(i0["args"][1])
                    nm = (c.dfn(strip(st["f"]).get("def")) or {}).get("name") if st.get("k") == "Call" and strip(st["f"]).get("k") == "Path" else None
                    clo = strip(i0["args"][2])
                    ops = [z["op"] for z in walk(clo) if z.get("k") == "Binary" and z["op"] in ("<", ">", "<=", ">=")]
                    if nm == "infinity" and ops and all(o in ("<", "<=") for o in ops):
                        fm.let_override[y["pat"]["local"]] = V("elem", fm.atom("min", elem=True))
                    elif nm == "neg_infinity" and ops and all(o in (">", ">=") for o in ops):
                        fm.let_override[y["pat"]["local"]] = V("elem", fm.atom("max", elem=True))
        v = fm.expr(c, fn["body"], env)
        if v.kind != "struct" or "offsets" not in v.r or "scales" not in v.r:
            raise Unsupported("the fit does not end in a LinearScaler literal")
        return fm, v.r["offsets"].r, v.r["scales"].r

    def element_maps():
        """(map for Standard(false, _), map for every other method, the range map of MinMax) as functions of x, o, s, hi, lo"""
        fm = Formula(F)
        x_, o_, s_ = fm.atom("x", elem=True), fm.atom("o", elem=True), fm.atom("s", elem=True)
        clos = []
        for y in walk(tr["body"]):
            if y.get("k") == "MethodCall" and y["name"] in ("mapv_inplace", "mapv", "mapv_into", "map_inplace") and y["args"] and strip(y["args"][0]).get("k") == "Closure":
                clos.append((y, strip(y["args"][0])))
        zipc = next((strip(y["args"][0]) for y in walk(tr["body"]) if y.get("k") == "MethodCall" and y["name"] == "for_each" and y["args"] and strip(y["args"][0]).get("k") == "Closure" and len(strip(y["args"][0])["params"]) == 3), None)
        if zipc is None or len(clos) != 2:
            raise Unsupported("the column walk with (column, offset, scale) and its two element maps were not found")
        bs = [list(pat_bindings(p_)) for p_ in zipc["params"]]
        env = {bs[1][0]["local"]: V("scal", o_), bs[2][0]["local"]: V("scal", s_)}
        maps = []
        for call, clo in clos:
            env2 = dict(env)
            pb = list(pat_bindings(clo["params"][0]))
            env2[pb[0]["local"]] = V("scal", x_)
            maps.append((call, fm.expr(c, clo["body"], env2).r))
        # which of the two is under `if let Standard(false, _)`: the one in the `then` of an If whose condition is a Let over self.method
        iff = next((y for y in walk(zipc["body"]) if y.get("k") == "If" and strip(y["c"]).get("k") == "Let"), None)
        if iff is None:
            raise Unsupported("the method test around the element maps")
        in_then = [m_ for call, m_ in maps if any(z is call for z in walk(iff["then"]))]
        in_else = [m_ for call, m_ in maps if iff.get("else") is not None and any(z is call for z in walk(iff["else"]))]
        if len(in_then) != 1 or len(in_else) != 1:
            raise Unsupported("the two element maps are not the two branches of the method test")
        # the range map of MinMax: `x * (max - min) + min` in the arm that binds MinMax(min, max)
        rng = None
        for y in walk(tr["body"]):
            if y.get("k") == "Match" and y.get("src", "Normal") == "Normal":
                for a in y["arms"]:
                    p_ = a["pat"]
                    while p_.get("k") == "Ref":
                        p_ = p_["pat"]
                    if (c.dfn(p_.get("def")) or {}).get("name") == "MinMax" and len(p_.get("pats", [])) == 2:
                        b0, b1 = list(pat_bindings(p_["pats"][0])), list(pat_bindings(p_["pats"][1]))
                        envr = {b0[0]["local"]: V("scal", fm.atom("lo")), b1[0]["local"]: V("scal", fm.atom("hi"))}
                        for z in walk(a["body"]):
                            if z.get("k") == "Path" and "local" in z and z["local"] not in envr:
                                envr[z["local"]] = V("scal", fm.atom("r"))
                        rng = fm.expr(c, a["body"], envr).r
        if rng is None:
            raise Unsupported("the range map of MinMax")
        return fm, in_then[0], in_else[0], rng

    try:
        fmT, keepmean_map, plain_map, range_map = element_maps()
    except (Unsupported, TypeError, KeyError, AttributeError, IndexError) as e_:
        res.instance("transform")
        res.undecided("%s : not-read" % fn_key(tr), "the element maps of LinearScaler::transform are outside the vocabulary of the formula reader: %s (fail closed)" % e_, fn_loc(tr))
        return res.finish(3)

    def compose(fm, emap, o, s, x):
        r = fmT.substitute(emap, "o", None) if False else emap
        # substitute o, s, x (polynomial substitution needs polynomials: o, s, x here are rational functions with
        # polynomial numerators over one denominator each; do it through values at the comparison instead)
        return r

    def subst_rat(r, mapping):
        """r with atoms replaced by rational functions"""
        def sub_poly(p):
            out = Rat.const(0)
            for m, cf in p.d.items():
                term = Rat(Poly({(): cf}))
                for a, pw in m:
                    base = mapping.get(a, Rat(Poly.atom(a)))
                    for _ in range(pw):
                        term = term * base
                out = out + term
            return out
        return sub_poly(r.num) / sub_poly(r.den)
    cases = [("min_max", {}, "min-max"), ("max_abs", {}, "max-abs"), ("standardize", {"with_mean": True, "with_std": True}, "standard")]
    for nm, bools, label in cases:
        fn = fits[nm]
        key = fn_key(fn)
        res.instance("%s : %s" % (key, label))
        try:
            fm, o, s_ = fit_formulas(fn, bools)
            one = Rat.const(1)
            X = lambda a: Rat(Poly.atom(a))      # noqa: E731
            if label == "min-max":
                T = lambda xv: subst_rat(range_map, {"r": subst_rat(plain_map, {"x": xv, "o": o, "s": s_})})   # noqa: E731
                lo_v, hi_v = T(X("min")), T(X("max"))
                ok = fm.same(lo_v, X("lo")) and fm.same(hi_v, X("hi"))
                why = "T(min) = %s, T(max) = %s (documented: lo, hi)" % (lo_v.key()[:80], hi_v.key()[:80])
            elif label == "max-abs":
                Tx = subst_rat(plain_map, {"x": X("x"), "o": o, "s": s_})
                ok = fm.same(Tx, X("x") / X("maxabs"))
                why = "T(x) = %s (documented: x / maxabs)" % Tx.key()[:100]
            else:
                Tx = subst_rat(plain_map, {"x": X("x"), "o": o, "s": s_})
                ok = fm.same(Tx, (X("x") - X("mean")) / X("std"))
                why = "T(x) = %s (documented: (x - mean) / std)" % Tx.key()[:100]
            if ok:
                res.ok()
                res.sample({"scaler": label, "composed": why})
            else:
                res.violate("%s : composed-map-differs:%s" % (key, label), "for a non-constant column the fitted %s scaler followed by transform is not the documented map: %s" % (label, why), fn_loc(fn))
        except (Unsupported, TypeError, KeyError, AttributeError, IndexError) as e_:
            res.undecided("%s : not-read:%s" % (key, label), "the fit of the %s scaler is outside the vocabulary of the formula reader: %s (fail closed)" % (label, e_), fn_loc(fn))
    return res.finish(3)


def rule_stale(ctx):
    """no field of a fitted model is computed from a local that is stored in another field and mutated in between (rules/stale.py)"""
    from . import stale
    res = RuleResult("R-C16-stale", "fields of the fitted model that are computed from another stored field are computed from its final value (no mutation between the computation and the construction)")
    F = ctx.facts()
    fns = [f for f in F.all_fns() if f["d"]["krate"] == "linfa_preprocessing" and any(x in fn_file(f) for x in ("linear_scaling", "norm_scaling", "whitening"))]
    lits = 0
    for fn in fns:
        lits += sum(1 for x in walk(fn["body"]) if x.get("k") == "Struct" and x.get("fields"))
        for s_ in stale.findings(fn):
            key = fn_key(fn)
            res.instance("%s : field %s derived from %s" % (key, s_["field"], s_["source"]))
            res.violate("%s : stale-field:%s" % (key, s_["field"]), "field `%s` is computed from `%s`, which is stored as field `%s` and is mutated (line %s) after that computation and before the model is built: the two fields describe different states" % (s_["field"], s_["source"], s_["source_field"], s_["mutation_ln"]), fn_loc(fn, s_["mutation_ln"]))
    res.instance("%d functions of linfa-preprocessing scalers and whiteners scanned, %d struct literals" % (len(fns), lits))
    if fns and lits:
        res.ok()
    else:
        res.missing_anchor("model constructions in linfa-preprocessing scalers and whiteners")
    return res.finish(1)


def rules(tier):
    from . import carry, c04
    from . import precision
    from . import blockmean, skipfield, sizeroute
    return [sizeroute.make_rule("R-C16-sizeroute", lambda f: f["d"]["krate"] == "linfa_preprocessing", "linfa-preprocessing"),
            skipfield.make_rule("R-C16-skipfield", {"linfa_preprocessing"}, "linfa-preprocessing (scalers, whitener, vectorizers)", 3),
            blockmean.make_rule("R-C16-blockmean", lambda f: f["d"]["krate"] == "linfa_preprocessing" and any(x in fn_file(f) for x in ("linear_scaling", "norm_scaling", "whitening")), "the scalers and whiteners of linfa-preprocessing"), rule_fitted, rule_normarms, rule_normzero, rule_absfloor, rule_ends, rule_meta, rule_empty, rule_div, rule_affine, rule_extrema, rule_memorder, rule_stale,
            carry.make_clone_rule("R-C16-clone", {"linfa_preprocessing"}, 8), carry.make_setter_rule("R-C16-override", {"linfa_preprocessing"}, 4),
            precision.make_rule("R-C16-precision", lambda f: f["d"]["krate"] == "linfa_preprocessing" and any(x in fn_file(f) for x in ("linear_scaling", "norm_scaling", "whitening")), 25, "linfa-preprocessing scalers and whiteners"),
            carry.make_accessor_rule("R-C16-accessor", {"linfa_preprocessing"}, 6), carry.make_ctor_rule("R-C16-ctor", {"linfa_preprocessing"}, 2)]
