"""Memory-layout discipline of raw-buffer accesses (shared by the properties whose anchored code walks record matrices).

ndarray's `as_slice_memory_order(_mut)`, `into_raw_vec`, `as_ptr`, ... hand out the elements in *memory* order and succeed
for every contiguous layout: row-major, column-major (`.f()`, `reversed_axes()`, `t()` of an owned array) and views with
negative strides.  Code that then interprets positions of that buffer as (row, column) - chunks of `ncols`, `i % ntargets`,
zipping with a per-row sequence - is only right for the standard (row-major, positive strides) layout.  The property
behind every such site ("each stored point / sample / row is treated as one unit") holds for all layouts only if

  * the access is dominated by an `is_standard_layout()` test of the same array (or uses `as_slice()`, which is `Some`
    only for the standard layout), or
  * the buffer is consumed position-insensitively (sum / fold / all / any / element-wise map), or
  * the array was created in this function by an ndarray constructor (always standard layout).

Verdicts per site:  ok / violation (position-sensitive use, no layout test; or a stride test that leaves an axis
unconstrained) / undecided (a layout test or a use outside the vocabulary).
"""
from .core import RuleResult
from .facts import walk, strip, peel_refs, pat_bindings, children, fn_key, fn_loc, fn_file

RAW = {"as_slice_memory_order", "as_slice_memory_order_mut", "into_raw_vec", "into_raw_vec_and_offset", "as_ptr", "as_mut_ptr"}
SENSITIVE = {"for:ordered-sink", "chunks", "chunks_exact", "chunks_mut", "chunks_exact_mut", "rchunks", "enumerate", "zip", "split_at", "split_at_mut",
             "windows", "get", "get_mut", "get_unchecked", "swap", "rotate_left", "rotate_right", "to_vec", "truncate", "drain",
             "split_off", "position", "rposition", "first", "last", "skip", "take", "step_by", "nth", "offset", "add", "copy_from_slice",
             "clone_from_slice", "swap_with_slice", "from_shape_vec", "into_shape", "into_shape_with_order", "from_vec", "extend_from_slice", "append"}
INSENSITIVE = {"iter", "iter_mut", "into_iter", "sum", "product", "fold", "all", "any", "min", "max", "min_by", "max_by", "count", "len",
               "is_empty", "copied", "cloned", "map", "for_each", "contains", "filter", "unwrap", "expect", "collect", "try_fold", "reduce"}
CREATORS = {"zeros", "ones", "default", "from_elem", "from_shape_vec", "from_shape_fn", "from_vec", "from_shape_simple_fn", "eye", "from_iter", "uninit", "range", "linspace"}
PASS_THROUGH = {"view", "view_mut", "reborrow", "records", "records_mut", "as_targets", "as_targets_mut", "unwrap", "expect"}
DIVERGING = {"panic", "panic_fmt", "panic_display", "begin_panic", "assert_failed", "panic_explicit", "unreachable_display", "panic_str_2015"}


def root_of(e):
    """('local', id) / ('field', name) / None of the array a raw accessor is called on"""
    e = peel_refs(e)
    while e.get("k") == "MethodCall" and e["name"] in PASS_THROUGH:
        e = peel_refs(e["recv"])
    if e.get("k") == "Path" and "local" in e:
        return ("local", e["local"])
    if e.get("k") == "Field":
        b = peel_refs(e["e"])
        if b.get("k") == "Path" and b.get("name") == "self":
            return ("field", e["name"])
        if b.get("k") == "Field":
            return ("field", b["name"] + "." + e["name"])
    return None


def with_parents(n, anc=()):
    """pre-order (node, ancestors) pairs"""
    if not isinstance(n, dict):
        return
    yield n, anc
    a2 = anc + (n,)
    for ch in children(n):
        for x in with_parents(ch, a2):
            yield x


def _diverges(c, blk):
    for x in walk(blk):
        k = x.get("k")
        if k in ("Ret", "Continue", "Break"):
            return True
        if k == "Call":
            f = strip(x["f"])
            if f.get("k") == "Path" and (c.dfn(f.get("def")) or {}).get("name") in DIVERGING:
                return True
        if k == "MethodCall" and x["name"] in ("unwrap", "expect") and False:
            return True
    return False


def _layout_tests(cond, root, flags=None):
    """(positive is_standard_layout on root, negated is_standard_layout on root, stride axes read on root, other stride use);
    `flags`: locals bound to `<root>.is_standard_layout()` (local -> root)"""
    pos = neg = False
    axes = set()
    other = False
    for n, anc in with_parents(cond):
        if flags and n.get("k") == "Path" and n.get("local") in flags and flags[n["local"]] == root:
            negs = sum(1 for a in anc if a.get("k") == "Unary" and a["op"] == "!")
            if negs % 2:
                neg = True
            else:
                pos = True
            continue
        if n.get("k") != "MethodCall":
            continue
        if n["name"] == "is_standard_layout" and root_of(n["recv"]) == root:
            negs = sum(1 for a in anc if a.get("k") == "Unary" and a["op"] == "!")
            if negs % 2:
                neg = True
            else:
                pos = True
        elif n["name"] in ("strides", "stride_of") and root_of(n["recv"]) == root:
            ax = None
            if n["name"] == "stride_of" and n["args"]:
                a = peel_refs(n["args"][0])
                if a.get("k") == "Call" and a["args"] and peel_refs(a["args"][0]).get("k") == "Lit":
                    ax = peel_refs(a["args"][0])["v"]
            elif anc and anc[-1].get("k") == "Index" and peel_refs(anc[-1]["i"]).get("k") == "Lit":
                ax = peel_refs(anc[-1]["i"])["v"]
            if ax is None:
                other = True
            else:
                axes.add(ax)
    return pos, neg, axes, other


def _tuple_component(pat, idx):
    """the idx-th component of a tuple pattern (the whole pattern when there is no index or it is not a tuple)"""
    if idx is None or not isinstance(pat, dict):
        return pat
    if pat.get("k") in ("Tuple", "Tup") and len(pat.get("pats", [])) > idx:
        return pat["pats"][idx]
    return pat


def _and_only(cond):
    """the condition is a conjunction (no `||` at the top that would let the arm be taken without the layout test)"""
    cond = strip(cond)
    while cond.get("k") in ("DropTemps", "Paren"):
        cond = strip(cond["e"])
    if cond.get("k") == "Binary" and cond["op"] == "||":
        return False
    if cond.get("k") == "Binary" and cond["op"] == "&&":
        return _and_only(cond["l"]) and _and_only(cond["r"])
    return True


def _ndim(c, recv):
    t = c.ty(recv.get("at", recv.get("t"))) or ""
    for k in range(1, 7):
        if "Dim<[usize; %d]>" % k in t or "Ix%d" % k in t:
            return k
    return None


def _uses_of(fn, locals_):
    """method names applied (transitively, through chains and rebinding) to the given locals, plus index/range use"""
    names = set()
    seen = set(locals_)
    frontier = set(locals_)
    indexed = False
    while frontier:
        cur = frontier
        frontier = set()
        for n, anc in with_parents(fn["body"]):
            if n.get("k") == "Path" and n.get("local") in cur:
                # climb the chain of method calls / refs / derefs this path is the receiver of
                child = n
                for a in reversed(anc):
                    k = a.get("k")
                    if k in ("Ref", "Semi") or (k == "Unary" and a["op"] == "*") or (k == "Block" and not a["stmts"]):
                        child = a
                        continue
                    if k == "MethodCall" and a["recv"] is child:
                        names.add(a["name"])
                        child = a
                        continue
                    if k == "MethodCall" and any(x is child for x in a["args"]):
                        names.add("arg:" + a["name"])
                        if a["name"] in ("zip", "extend_from_slice", "copy_from_slice", "append"):
                            names.add(a["name"])
                        break
                    if k == "Block" and a.get("e") is child:
                        child = a
                        continue
                    if k == "Match" and any(arm["body"] is child for arm in a["arms"]):
                        child = a             # the value of the arm is the value of the match
                        continue
                    if k == "If" and (a.get("then") is child or a.get("else") is child):
                        child = a
                        continue
                    if k == "Call" and any(x is child for x in a["args"]):
                        f = strip(a["f"])
                        nm = (fn["crate"].dfn(f.get("def")) or {}).get("name") if f.get("k") == "Path" else None
                        if nm in ("Some", "Ok", "Borrowed", "Owned", "Left", "Right") and len(a["args"]) == 1:
                            child = a         # a wrapper that keeps the sequence as it is
                            continue
                        names.add("arg:" + (nm or "?"))
                        if nm in ("from_shape_vec", "from_vec", "from_shape_vec_unchecked"):
                            names.add("from_shape_vec")
                        break
                    if k == "Index" and a["e"] is child:
                        indexed = True
                        child = a
                        continue
                    if k == "Ret" and a.get("e") is child:
                        names.add("escapes")
                        break
                    if k in ("LetStmt", "Let") and a.get("init") is child:
                        for b in pat_bindings(a["pat"]):
                            if b["local"] not in seen:
                                seen.add(b["local"])
                                frontier.add(b["local"])
                        break
                    if k == "Match" and a["scrut"] is child:
                        for arm in a["arms"]:
                            for b in pat_bindings(arm["pat"]):
                                if b["local"] not in seen:
                                    seen.add(b["local"])
                                    frontier.add(b["local"])
                        break
                    break
                else:
                    names.add("escapes")       # the value of the function body
    return names, indexed


def _consumption(fn, c, n, anc):
    """how the value of node `n` (a raw buffer, or a call that returns one) is consumed in fn: (names, indexed, escapes)"""
    bound = set()
    child = n
    escapes = False
    names = set()
    indexed = False
    tup_idx = None
    for a in reversed(anc):
        k = a.get("k")
        if k in ("Ref", "Semi") or (k == "Unary" and a["op"] == "*") or (k == "Block" and not a["stmts"] and a.get("e") is child):
            child = a
            continue
        if k == "MethodCall" and a["recv"] is child:
            names.add(a["name"])
            child = a
            continue
        if k == "Tup" and tup_idx is None and any(x is child for x in a.get("es", [])):
            # `match (x.as_slice_memory_order(), y.as_slice_mut()) { (Some(a), Some(b)) => .. }`: follow the component
            tup_idx = next(i for i, x in enumerate(a["es"]) if x is child)
            child = a
            continue
        if k in ("LetStmt", "Let") and a.get("init") is child:
            for b in pat_bindings(_tuple_component(a["pat"], tup_idx)):
                bound.add(b["local"])
            break
        if k == "Match" and a["scrut"] is child:
            for arm in a["arms"]:
                for b in pat_bindings(_tuple_component(arm["pat"], tup_idx)):
                    bound.add(b["local"])
            break
        if k == "Index" and a["e"] is child:
            indexed = True
            child = a
            continue
        if k == "Call" and any(x is child for x in a["args"]):
            f = strip(a["f"])
            nm = (c.dfn(f.get("def")) or {}).get("name") if f.get("k") == "Path" else None
            if nm in ("Some", "Ok", "Borrowed", "Owned"):
                child = a
                continue
            if nm == "into_iter":
                loop = next((x for x in reversed(anc) if x.get("k") == "Match" and x.get("src") == "ForLoopDesugar" and strip(x["scrut"]) is a), None)
                if loop is not None:
                    names.add(_for_kind(loop))
                    break
            names.add("arg:" + (nm or "?"))
            if nm in ("from_shape_vec", "from_vec"):
                names.add("from_shape_vec")
            break
        if k == "MethodCall" and any(x is child for x in a["args"]):
            names.add("arg:" + a["name"])
            if a["name"] in ("zip", "extend_from_slice", "copy_from_slice", "append"):
                names.add(a["name"])
            break
        if k in ("Ret",) or (k == "Block" and a.get("e") is child) or k in ("If", "Match"):
            # value of the enclosing block: follows the function's return or an outer binding
            child = a
            if k == "Ret":
                escapes = True
                break
            continue
        break
    else:
        escapes = True
    if child is fn["body"] or (anc and child is anc[0]):
        escapes = True
    n2, idx2 = _uses_of(fn, bound) if bound else (set(), False)
    names |= n2
    indexed = indexed or idx2
    if "escapes" in names:
        names.discard("escapes")
        escapes = True
    return names, indexed, escapes


def _for_kind(loop):
    """a `for` loop over the sequence: a body that appends / inserts / writes by index consumes it in order"""
    for y in walk(loop):
        if y.get("k") == "MethodCall" and (y["name"].startswith(("push", "append", "insert", "extend")) or y["name"] in ("write", "send")):
            return "for:ordered-sink"
        if y.get("k") in ("Assign", "AssignOp") and peel_refs(y["l"]).get("k") == "Index":
            return "for:ordered-sink"
    return "for"


def sites(fn, facts=None):
    """raw-buffer accesses of ndarray arrays in fn: list of dicts(node, root, verdict, why)"""
    c = fn["crate"]
    out = []
    inits = {}
    for n in walk(fn["body"]):
        if n.get("k") == "LetStmt" and n.get("init") is not None and n["pat"].get("k") == "Bind":
            inits[n["pat"]["local"]] = n["init"]
    all_nodes = list(with_parents(fn["body"]))
    for n, anc in all_nodes:
        if n.get("k") != "MethodCall" or n["name"] not in RAW:
            continue
        d = c.dfn(n.get("def"))
        if d is None or d["krate"] != "ndarray":
            continue
        root = root_of(n["recv"])
        site = {"node": n, "root": root, "name": n["name"], "ln": n["ln"]}
        out.append(site)
        # (1) freshly created in this function
        if root and root[0] == "local" and root[1] in inits:
            i0 = peel_refs(inits[root[1]])
            while i0.get("k") == "MethodCall" and i0["name"] in ("unwrap", "expect", "into_shape", "f"):
                if i0["name"] == "f":
                    break
                i0 = peel_refs(i0["recv"])
            if i0.get("k") == "Call":
                f = strip(i0["f"])
                dd = c.dfn(f.get("def")) if f.get("k") == "Path" else None
                if dd and dd["krate"] == "ndarray" and dd["name"] in CREATORS:
                    shape_f = any(y.get("k") == "MethodCall" and y["name"] in ("f", "set_f") for y in walk(i0))
                    if not shape_f:
                        site.update(verdict="ok", why="array created in this function by ndarray::%s (standard layout)" % dd["name"])
                        continue
            if i0.get("k") == "MethodCall" and i0["name"] in ("to_vec", "as_standard_layout", "into_standard_layout"):
                site.update(verdict="ok", why="array normalised with %s" % i0["name"])
                continue
        # (2) dominating layout test
        guarded = None
        partial = None
        unknown_guard = False
        flags = {}
        for y in walk(fn["body"]):
            if y.get("k") == "LetStmt" and y.get("init") is not None and y["pat"].get("k") == "Bind":
                i1 = peel_refs(y["init"])
                if i1.get("k") == "MethodCall" and i1["name"] == "is_standard_layout":
                    flags[y["pat"]["local"]] = root_of(i1["recv"])
                elif i1.get("k") == "Binary" and i1["op"] == "&&" and _and_only(i1):
                    # `let row_major = x.is_standard_layout() && width == self.offsets.len();`: true only under the layout test
                    for z, zanc in with_parents(i1):
                        if z.get("k") == "MethodCall" and z["name"] == "is_standard_layout" and not any(a_.get("k") == "Unary" and a_["op"] == "!" for a_ in zanc):
                            flags[y["pat"]["local"]] = root_of(z["recv"])
        # a stride test bound to a local (`let packed = strides[0] == b && (..)`), possibly through `let strides = x.strides();`:
        # a guard that mentions it is a layout test this rule cannot evaluate
        stride_locals = set()
        grew_ = True
        while grew_:
            grew_ = False
            for y in walk(fn["body"]):
                if y.get("k") == "LetStmt" and y.get("init") is not None and y["pat"].get("k") == "Bind" and y["pat"]["local"] not in stride_locals:
                    if any((z.get("k") == "MethodCall" and z["name"] in ("strides", "stride_of") and root_of(z["recv"]) == root) or (z.get("k") == "Path" and z.get("local") in stride_locals) for z in walk(y["init"])):
                        stride_locals.add(y["pat"]["local"])
                        grew_ = True
        # .. provided it looks at every axis: a test of `strides()[1]` alone says nothing about the order of the rows in
        # the buffer (a view with its rows reversed passes it), so it does not make the guard a layout test
        axes_read = set()
        for y in walk(fn["body"]):
            if y.get("k") == "Index":
                b_ = peel_refs(y["e"])
                if (b_.get("k") == "MethodCall" and b_["name"] == "strides" and root_of(b_["recv"]) == root) or (b_.get("k") == "Path" and b_.get("local") in stride_locals):
                    i_ = peel_refs(y["i"]) if y.get("i") is not None else {}
                    axes_read.add(str(i_.get("v")) if i_.get("k") == "Lit" else "?")
        nd_ = _ndim(c, n["recv"]) if n.get("k") == "MethodCall" else None
        partial_flag = bool(axes_read) and "?" not in axes_read and nd_ is not None and len(axes_read) < nd_
        if not partial_flag:
            if anc and anc[-1].get("k") == "Match" and anc[-1].get("src", "Normal") == "Normal" and anc[-1]["scrut"] is n:
                for a_ in anc[-1]["arms"]:
                    if a_.get("guard") is not None and any(z.get("k") == "Path" and z.get("local") in stride_locals for z in walk(a_["guard"])):
                        unknown_guard = True
            for a in anc:
                if a.get("k") == "If" and any(z.get("k") == "Path" and z.get("local") in stride_locals for z in walk(a["c"])):
                    unknown_guard = True
        # `match x.as_slice_memory_order_mut() { Some(flat) if x.is_standard_layout() && .. => .., _ => <fallback> }`: the arm
        # that receives the buffer is taken only under the layout test
        if anc and anc[-1].get("k") == "Match" and anc[-1].get("src", "Normal") == "Normal" and anc[-1]["scrut"] is n:
            binding = [a_ for a_ in anc[-1]["arms"] if any(True for _ in pat_bindings(a_["pat"]))]
            if binding and all(a_.get("guard") is not None and _layout_tests(a_["guard"], root, flags)[0] and not _layout_tests(a_["guard"], root, flags)[1] and _and_only(a_["guard"]) for a_ in binding):
                guarded = "match arm guarded by is_standard_layout()"
        for a_i, a in enumerate(anc):
            if a.get("k") == "If":
                inside_then = a_i + 1 < len(anc) and anc[a_i + 1] is a["then"] or (a_i + 1 == len(anc) and n is a["then"])
                inside_else = a_i + 1 < len(anc) and a.get("else") is not None and anc[a_i + 1] is a["else"]
                pos, neg, axes, other = _layout_tests(a["c"], root, flags)
                if (pos and inside_then and not neg) or (neg and inside_else and not pos):
                    guarded = "enclosing `if` on is_standard_layout()"
                if axes or other:
                    unknown_guard = True
                    nd = _ndim(c, n["recv"])
                    if nd and axes and not other and len(axes) < nd:
                        partial = (axes, nd)
        # earlier diverging tests: `if !x.is_standard_layout() { panic / return }`
        for m, manc in all_nodes:
            if m.get("k") != "If" or m["ln"] > n["ln"] or any(x is m for x in anc):
                continue
            pos, neg, axes, other = _layout_tests(m["c"], root, flags)
            if neg and not pos and _diverges(c, m["then"]):
                guarded = "earlier diverging test of is_standard_layout()"
            elif pos and not neg and m.get("else") is not None and _diverges(c, m["else"]):
                guarded = "earlier diverging test of is_standard_layout()"
            elif axes or other:
                unknown_guard = True
                nd = _ndim(c, n["recv"])
                if nd and axes and not other and len(axes) < nd and _diverges(c, m["then"]):
                    partial = (axes, nd)
        if guarded and n["name"] in ("into_raw_vec", "into_raw_vec_and_offset") and not (root and root[0] == "local" and root[1] in inits):
            # a layout test says nothing about the *allocation*: an owned array that was sliced (slice_move, slice_collapse,
            # split_at on an owned array) is still in standard layout, but its raw vector also holds the elements outside of
            # the slice - ahead of the view (offset) and behind it.  Only arrays created in this function are exempt.
            b2, n2, idx2 = set(), set(), False
            child2 = n
            for a in reversed(anc):
                k2 = a.get("k")
                if k2 in ("Ref", "Semi") or (k2 == "Block" and not a["stmts"] and a.get("e") is child2):
                    child2 = a
                    continue
                if k2 == "MethodCall" and a["recv"] is child2:
                    n2.add(a["name"])
                    child2 = a
                    continue
                if k2 in ("LetStmt", "Let") and a.get("init") is child2:
                    for b in pat_bindings(a["pat"]):
                        b2.add(b["local"])
                break
            u2, i2 = _uses_of(fn, b2) if b2 else (set(), False)
            n2 |= u2
            sens2 = sorted(x for x in n2 if x in SENSITIVE)
            if sens2 or i2:
                site.update(verdict="violation", kind="allocation-not-view", why="`%s` hands out the whole allocation of the owned array, also the elements outside of a slice_move()d view (which passes the layout test): it is used by position (%s) as if it held exactly the view's elements" % (n["name"], ", ".join(sens2 + (["indexing"] if i2 else []))))
                continue
        if guarded:
            site.update(verdict="ok", why=guarded)
            continue
        if partial:
            site.update(verdict="violation", kind="partial-stride-test",
                        why="the layout test before `%s` reads the stride of axis %s only; an array has %d axes and the unconstrained ones may be strided, reversed or transposed" % (n["name"], "/".join(sorted(partial[0])), partial[1]))
            continue
        # (3) how is the buffer consumed
        names, indexed, escapes = _consumption(fn, c, n, anc)
        site["uses"] = sorted(names)
        sens = sorted(x for x in names if x in SENSITIVE) + (["indexing"] if indexed else [])
        if sens:
            if unknown_guard:
                site.update(verdict="undecided", kind="stride-test", why="`%s` is used by position (%s) behind a stride test the rule cannot evaluate" % (n["name"], ", ".join(sens)))
            else:
                site.update(verdict="violation", kind="positional-use",
                            why="`%s` hands out the elements in memory order for every contiguous layout, and they are then used by position (%s) without a dominating is_standard_layout() test: for column-major, transposed or reversed arrays a position is not (row, column)" % (n["name"], ", ".join(sens)))
            continue
        if escapes:
            # a private helper that hands the sequence on: look at what its callers in the same crate do with it
            c_names, c_idx, c_esc, n_calls = set(), False, False, 0
            for g in c.fns:
                if g is fn:
                    continue
                for m, manc in with_parents(g["body"]):
                    if m.get("k") == "Call" and strip(m["f"]).get("k") == "Path" and fn["def"] in (strip(m["f"]).get("def"), strip(m["f"]).get("inst")):
                        n_calls += 1
                        nm2, ix2, es2 = _consumption(g, c, m, manc)
                        c_names |= nm2
                        c_idx = c_idx or ix2
                        c_esc = c_esc or es2
            sens2 = sorted(x for x in c_names if x in SENSITIVE) + (["indexing"] if c_idx else [])
            if n_calls and sens2 and not unknown_guard:
                site.update(verdict="violation", kind="positional-use",
                            why="`%s` hands out the elements in memory order for every contiguous layout (reversed and transposed views included); the sequence leaves `%s` and its callers consume it in order (%s) without a dominating is_standard_layout() test" % (n["name"], fn["d"]["name"], ", ".join(sens2)))
                continue
            site.update(verdict="undecided", kind="escapes", why="the buffer taken with `%s` leaves the function; its use is not visible here" % n["name"])
            continue
        unknown = sorted(x for x in names if x not in INSENSITIVE and not x.startswith("arg:"))
        argu = sorted(x for x in names if x.startswith("arg:"))
        if not unknown and not argu and names:
            site.update(verdict="ok", why="consumed position-insensitively (%s)" % ", ".join(sorted(names)))
        else:
            site.update(verdict="undecided", kind="use-unclassified", why="use of the buffer taken with `%s` not classified (%s)" % (n["name"], ", ".join(unknown + argu) or "no use found"))
    return out


EXACT_CHUNKS = {"exact_chunks", "exact_chunks_mut", "chunks_exact", "chunks_exact_mut", "rchunks_exact", "rchunks_exact_mut", "array_chunks", "as_chunks"}


def chunk_sites(fn):
    """`exact_chunks(k)` / `chunks_exact(k)` silently skip the last len % k elements.  With k taken from the container's own
    extents (a row length) nothing is left over; with a constant block size the tail is dropped unless the remainder is
    handled (`remainder()` / `into_remainder()`)."""
    c = fn["crate"]
    inits = {}
    for n in walk(fn["body"]):
        if n.get("k") == "LetStmt" and n.get("init") is not None and n["pat"].get("k") == "Bind":
            inits[n["pat"]["local"]] = n["init"]
    handled = any(x.get("k") == "MethodCall" and x["name"] in ("remainder", "into_remainder") for x in walk(fn["body"]))

    def constant(e, depth=0):
        e = peel_refs(e)
        k = e.get("k")
        if k == "Lit":
            return True
        if k == "Path" and "def" in e and "local" not in e:
            d = c.dfn(e["def"])
            return bool(d) and d.get("dk", d.get("kind", "")) in ("Const", "AssocConst", "Static") or bool(d) and d["name"].isupper()
        if k == "Path" and "local" in e and e["local"] in inits and depth < 3:
            return constant(inits[e["local"]], depth + 1)
        if k == "Tup":
            return any(constant(x, depth) for x in e["es"])
        if k == "Binary":
            return constant(e["l"], depth) and constant(e["r"], depth)
        return False
    out = []
    for n in walk(fn["body"]):
        if n.get("k") == "MethodCall" and n["name"] in EXACT_CHUNKS and n["args"]:
            is_const = constant(n["args"][0])
            out.append({"node": n, "name": n["name"], "ln": n["ln"], "constant": is_const, "handled": handled})
    return out


def apply(res, fns, label, skip=None):
    """report every raw-buffer site of `fns` into RuleResult `res`; returns the number of sites"""
    k = 0
    for fn in fns:
        ss = sites(fn)
        for s in ss:
            if skip is not None and skip(fn, s):
                continue
            k += 1
            key = fn_key(fn)
            res.instance("%s : %s of %s" % (key, s["name"], s["root"]))
            if s["verdict"] == "ok":
                res.ok()
                res.sample({"site": "%s : %s" % (key, s["name"]), "why": s["why"]})
            elif s["verdict"] == "violation":
                res.violate("%s : %s:%s" % (key, s["kind"], s["name"]), s["why"], fn_loc(fn, s["ln"]))
            else:
                res.undecided("%s : %s:%s" % (key, s["kind"], s["name"]), s["why"], fn_loc(fn, s["ln"]))
        for s in chunk_sites(fn):
            key = fn_key(fn)
            res.instance("%s : %s with a %s block size" % (key, s["name"], "constant" if s["constant"] else "derived"))
            if s["constant"] and not s["handled"]:
                res.violate("%s : remainder-dropped:%s" % (key, s["name"]), "`%s` with a constant block size silently skips the last len %% size elements and no remainder is handled: those rows keep whatever the buffers held" % s["name"], fn_loc(fn, s["ln"]))
            else:
                res.ok()
    res.instance("%s: %d functions scanned for raw-buffer accesses, %d sites" % (label, len(fns), k))
    return k


def make_rule(rule_id, title, pred, label):
    """a rule function: every raw-buffer site in the functions selected by pred(fn) respects the layout discipline"""
    def rule(ctx):
        res = RuleResult(rule_id, title)
        F = ctx.facts()
        # positive control: the matcher must recognise the raw-buffer accesses known to exist in crate linfa
        if not hasattr(ctx, "_layout_control"):
            ctx._layout_control = sum(len(sites(f)) for f in F.all_fns() if f["d"]["krate"].startswith("linfa") and not f.get("exp"))
        control = ctx._layout_control
        res.instance("matcher control: %d raw-buffer accesses recognised in the workspace" % control)
        if control:
            res.ok()
        else:
            res.undecided("matcher-control", "the raw-buffer matcher recognises nothing in the workspace, where into_raw_vec / as_slice_memory_order are known to be used (the rule would pass vacuously)", "src/composing/multi_target_model.rs")
        fns = [f for f in F.all_fns() if pred(f)]
        if not fns:
            res.missing_anchor("functions of %s" % label)
        apply(res, fns, label)
        res.ok()
        return res.finish(2)
    rule.__name__ = "rule_memorder"
    return rule
