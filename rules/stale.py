"""Stale derived fields: a fitted model is built from locals; if one field's value was *computed from* a local that is
also stored (itself) in another field, and that local is mutated between the computation and the construction of the
model, the two fields describe different states (a cache computed before a rescaling, a norm taken before a
normalisation, ...).  Purely structural: let-initialisers, mutation sites (compound assignment, assignment through an
index / field, `&mut` borrows, methods taking `&mut self`), and the struct literal, in evaluation (pre-order) order."""
from .facts import walk, strip, peel_refs, pat_bindings, children
from .layout import with_parents

MUTATING = {"mapv_inplace", "map_inplace", "par_mapv_inplace", "assign", "fill", "swap", "push", "insert", "remove", "sort", "sort_by", "sort_unstable", "sort_unstable_by", "scaled_add",
            "zip_mut_with", "swap_axes", "invert_axis", "truncate", "clear", "extend", "append", "retain", "dedup", "reverse", "slice_collapse", "collapse_axis", "accumulate_axis_inplace"}


def _root_local(e):
    e = peel_refs(e)
    while isinstance(e, dict) and e.get("k") in ("Field", "Index"):
        e = peel_refs(e["e"])
    if isinstance(e, dict) and e.get("k") == "Path" and "local" in e:
        return e["local"]
    return None


def findings(fn):
    """list of dict(field, derived_local, source_local, source_field, mutation_ln, literal_ln, names)"""
    c = fn["crate"]
    order = {}
    nodes = []
    for i, (n, anc) in enumerate(with_parents(fn["body"])):
        order[id(n)] = i
        nodes.append((n, anc))
    lets = {}      # local -> (order of the let, set of locals mentioned by the initialiser, name)
    for n, anc in nodes:
        if n.get("k") == "LetStmt" and n.get("init") is not None:
            ment = set(x["local"] for x in walk(n["init"]) if x.get("k") == "Path" and "local" in x)
            for b in pat_bindings(n["pat"]):
                lets[b["local"]] = (order[id(n)], ment, b["name"])
    muts = {}      # local -> [(order, line)]
    for n, anc in nodes:
        k = n.get("k")
        tgt = None
        if k == "AssignOp":
            tgt = _root_local(n["l"])
        elif k == "Assign":
            l0 = strip(n["l"])
            # plain `x = ..` re-assigns the local: the derived value is stale as well
            tgt = _root_local(n["l"])
        elif k == "Ref" and n.get("mut"):
            tgt = _root_local(n["e"])
        elif k == "MethodCall":
            rt = c.ty(n["recv"].get("at")) if isinstance(n["recv"], dict) and "at" in n["recv"] else ""
            if n["name"] in MUTATING or n["name"].endswith("_mut") or (rt or "").startswith("&mut"):
                tgt = _root_local(n["recv"])
        if tgt is not None:
            muts.setdefault(tgt, []).append((order[id(n)], n.get("ln")))
    out = []
    for n, anc in nodes:
        if n.get("k") != "Struct" or not n.get("fields"):
            continue
        lit_o = order[id(n)]
        stored = {}     # local -> field name, for fields whose value is the local itself (moved / cloned)
        for f in n["fields"]:
            e = peel_refs(f["e"])
            if e.get("k") == "Path" and "local" in e:
                stored[e["local"]] = f["name"]
        for f in n["fields"]:
            e = peel_refs(f["e"])
            if e.get("k") != "Path" or "local" not in e or e["local"] not in lets:
                continue
            l1 = e["local"]
            o1, ment, nm1 = lets[l1]
            for l2 in ment:
                if l2 == l1 or l2 not in stored:
                    continue
                for (om, ln) in muts.get(l2, []):
                    if o1 < om < lit_o:
                        out.append({"field": f["name"], "derived": nm1, "source_field": stored[l2], "source": lets.get(l2, (0, 0, "?"))[2] if l2 in lets else "?", "mutation_ln": ln, "literal_ln": n.get("ln")})
                        break
    return out
