"""C15 - incremental fitting: the structural clauses of 'replays to the same model as batch fitting / its recurrence'.

The property quantifies over histories of batches and compares accumulated floating-point statistics: as a whole it is
not decidable statically.  What is in the shape of the code, for every history at once, is decided here."""
from .core import RuleResult
from .facts import fn_key, fn_loc, fn_file, walk, strip, peel_refs, pat_bindings, Render
from .facts import lit_float, lit_number

LEVEL = ("Static analysis of the incremental learners. Decided, for all histories: (batch) naive Bayes `fit` is `fit_with` "
         "started from the empty model, with the dataset handed through; (carry) `fit_with` continues from the model it is "
         "given (the Some arm hands that model on), classes are reached through entry().or_insert_with(default) - a class "
         "missing from a batch keeps its statistics - class counts are accumulated (`+=`) from the batch's per-class row "
         "count, and the priors are recomputed for every class of the model from the accumulated counts and their sum over "
         "the same map; (epsilon) the variance boost subtracted from a continued Gaussian model is added back to every "
         "class unconditionally; (counts) multinomial feature counts are stored unsmoothed (alpha enters the log "
         "probabilities only, so it is not accumulated batch after batch); (kmeans) the mini-batch update divides by the "
         "cumulative per-cluster count, incremented before the division, the counts handed in are the model's own, and "
         "Ok / NotConverged follow `shift < tolerance`; (ftrl) the weights used in the update are taken before z and n are "
         "written, z gains the gradient and loses sigma*weights, n gains the squared gradient, sigma is computed from the "
         "n of before the update, and a weight is exactly zero when |z| <= l1. Not decided: the statistics themselves "
         "(pooled mean / variance algebra, log-probabilities, learning-rate formula), equality of batch and incremental "
         "results as numbers.")
ASSUME = ["rustc resolution/typeck; HIR faithfully dumped"]


def fns_of(F, krate, name, adt=None, trait=None):
    out = []
    for fn in F.all_fns():
        d = fn["d"]
        if d["krate"] != krate or d["name"] != name or fn.get("exp"):
            continue
        if adt is not None and not (d.get("self_adt") or "").endswith(adt):
            continue
        if trait is not None and not (d.get("trait") or "").endswith(trait):
            continue
        out.append(fn)
    return out


def callee(c, n):
    if n.get("k") == "MethodCall":
        return n["name"], c.dfn(n.get("def"))
    if n.get("k") == "Call" and strip(n["f"]).get("k") == "Path":
        d = c.dfn(strip(n["f"]).get("def"))
        return (d or {}).get("name"), d
    return None, None


def lets(fn):
    out = {}
    for y in walk(fn["body"]):
        if y.get("k") == "LetStmt" and y.get("init") is not None and y["pat"].get("k") == "Bind":
            out[y["pat"]["local"]] = y
    return out


def field_chain(e):
    """['model', 'class_info'] for model.class_info (through refs / method pass-throughs)"""
    names = []
    e = peel_refs(e)
    while True:
        if e.get("k") == "Field":
            names.insert(0, e["name"])
            e = peel_refs(e["e"])
        elif e.get("k") == "MethodCall" and e["name"] in ("values", "values_mut", "iter", "iter_mut", "view", "view_mut", "as_ref", "as_mut", "borrow", "borrow_mut"):
            e = peel_refs(e["recv"])
        else:
            break
    if e.get("k") == "Path":
        names.insert(0, e.get("name") or "?")
    return names


def rule_batch(ctx):
    """'a single fit on the whole dataset' and 'feeding ... batch by batch' are the same code path: fit = fit_with(None)."""
    res = RuleResult("R-C15-batch", "naive Bayes `fit` is `fit_with` started from the empty model, with the dataset handed through unchanged")
    F = ctx.facts()
    fits = [f for f in fns_of(F, "linfa_bayes", "fit", trait="Fit")]
    if len(fits) < 2:
        res.missing_anchor("the Fit impls of GaussianNbValidParams / MultinomialNbValidParams (found %d)" % len(fits))
    for fn in fits:
        c = fn["crate"]
        key = fn_key(fn)
        res.instance(key)
        ps = [b["local"] for p_ in fn["params"] for b in pat_bindings(p_)]
        ok = False
        for y in walk(fn["body"]):
            nm, d = callee(c, y)
            if nm in ("fit", "fit_with") and d is not None and d.get("krate") == "linfa_bayes" or (nm == "fit_with" and d is not None):
                args = y["args"] if y.get("k") == "Call" else [y["recv"]] + y["args"]
                has_none = any((c.dfn(peel_refs(a).get("def")) or {}).get("name") == "None" for a in args if peel_refs(a).get("k") == "Path")
                has_ds = any(peel_refs(a).get("local") in ps[1:] for a in args)
                if has_none and has_ds:
                    ok = True
        if ok:
            res.ok()
        else:
            res.violate("%s : fit-not-from-empty-model" % key, "`fit` does not hand (its dataset, None) to the shared incremental routine: batch fitting is then another computation than a one-batch history", fn_loc(fn))
    base = [f for f in fns_of(F, "linfa_bayes", "fit") if (f["d"].get("trait") or "").endswith("NaiveBayesValidParams")]
    if not base:
        res.missing_anchor("NaiveBayesValidParams::fit (provided method)")
    for fn in base:
        c = fn["crate"]
        key = fn_key(fn)
        res.instance(key)
        ps = [b["local"] for p_ in fn["params"] for b in pat_bindings(p_)]
        calls = [y for y in walk(fn["body"]) if y.get("k") == "MethodCall" and y["name"] == "fit_with"]
        if calls and all(peel_refs(a).get("local") in ps for a in calls[0]["args"]) and len(calls[0]["args"]) == 2:
            res.ok()
        elif calls:
            res.violate("%s : arguments-not-handed-through" % key, "the shared `fit` calls fit_with with something other than its own (model, dataset) parameters", fn_loc(fn, calls[0]["ln"]))
        else:
            res.violate("%s : no-fit-with" % key, "the shared `fit` does not call fit_with", fn_loc(fn))
    return res.finish(3)


def rule_carry_state(ctx):
    """fit_with continues from the model it is given; a class missing from a batch keeps its statistics; counts add up;
    priors are recomputed for every class of the model."""
    res = RuleResult("R-C15-carry", "naive Bayes fit_with: the given model is continued, classes are reached through entry().or_insert_with, class counts accumulate, priors are recomputed over the whole model")
    F = ctx.facts()
    fws = [f for f in fns_of(F, "linfa_bayes", "fit_with", trait="FitWith")]
    if len(fws) < 2:
        res.missing_anchor("the FitWith impls of the two naive Bayes parameter sets (found %d)" % len(fws))
    for fn in fws:
        c = fn["crate"]
        r = Render(c)
        key = fn_key(fn)
        ps = [b for p_ in fn["params"] for b in pat_bindings(p_)]
        model_in = ps[1]["local"] if len(ps) > 1 else None
        # (a) the Some arm of the match on model_in yields the given model
        res.instance("%s : continues from the given model" % key)
        m = next((y for y in walk(fn["body"]) if y.get("k") == "Match" and y.get("src", "Normal") == "Normal" and peel_refs(y["scrut"]).get("local") == model_in), None)
        uo = next((y for y in walk(fn["body"]) if y.get("k") == "MethodCall" and y["name"] in ("unwrap_or_else", "unwrap_or", "unwrap_or_default") and peel_refs(y["recv"]).get("local") == model_in), None)
        if m is not None:
            verdict = None
            for a in m["arms"]:
                binds = [b["local"] for b in pat_bindings(a["pat"])]
                if a["pat"].get("k") not in ("TupleStruct", "Struct"):
                    continue            # the None arm
                if not binds:
                    verdict = False      # `Some(_) => ..`: the given model is not even bound
                    continue
                body = strip(a["body"])
                tail = body
                while tail.get("k") == "Block" and tail.get("e") is not None:
                    tail = strip(tail["e"])
                if peel_refs(tail).get("local") in binds:
                    verdict = True
                elif any(z.get("k") == "Struct" for z in walk(tail)) and not any(z.get("k") == "Path" and z.get("local") in binds for z in walk(tail)):
                    verdict = False
            if verdict:
                res.ok()
            elif verdict is False:
                res.violate("%s : given-model-discarded" % key, "the arm that receives an existing model builds a fresh one instead of continuing from it: earlier batches are forgotten", fn_loc(fn, m["ln"]))
            else:
                res.undecided("%s : model-arm" % key, "the value of the arm that receives the existing model was not classified (fail closed)", fn_loc(fn, m["ln"]))
        elif uo is not None:
            res.ok()
        else:
            res.undecided("%s : model-source" % key, "how the incoming model is unpacked was not recognised (fail closed)", fn_loc(fn))
        # (b) classes through entry().or_insert_with
        res.instance("%s : classes reached through entry().or_insert*" % key)
        ent = [y for y in walk(fn["body"]) if y.get("k") == "MethodCall" and y["name"] in ("or_insert_with", "or_insert", "or_default") and peel_refs(y["recv"]).get("k") == "MethodCall" and peel_refs(y["recv"])["name"] == "entry"]
        ins = [y for y in walk(fn["body"]) if y.get("k") == "MethodCall" and y["name"] == "insert" and "class_info" in field_chain(y["recv"])]
        if ins:
            res.violate("%s : class-info-overwritten" % key, "the per-class statistics are written with `insert`, which replaces what earlier batches accumulated for that class", fn_loc(fn, ins[0]["ln"]))
        elif ent:
            res.ok()
        else:
            res.undecided("%s : class-access" % key, "no entry().or_insert_with(..) on the class map found (fail closed)", fn_loc(fn))
        # (c) class_count accumulates from the class subset's row count
        res.instance("%s : class counts accumulate" % key)
        L = lets(fn)
        cc = [y for y in walk(fn["body"]) if y.get("k") in ("Assign", "AssignOp") and peel_refs(y["l"]).get("k") == "Field" and peel_refs(y["l"])["name"] == "class_count"]
        if not cc:
            res.undecided("%s : class-count-update" % key, "no update of class_count found (fail closed)", fn_loc(fn))
        for y in cc:
            if y.get("k") == "Assign":
                # `count = old + new` written out, or a value handed back by a helper that was given the old state, still
                # accumulates; only a right-hand side that cannot contain the old count replaces it
                rhs_ = [y["r"]]
                for z in walk(y["r"]):
                    if z.get("k") == "Path" and z.get("local") in L:
                        rhs_.append(L[z["local"]])
                reads_old = any(z.get("k") == "Field" and z.get("name") == "class_count" for e_ in rhs_ for z in walk(e_))
                via_helper = any(z.get("k") in ("Call", "MethodCall") and any(w.get("k") == "Path" and (w.get("name") or "").startswith(("class_info", "info")) for a_ in z.get("args", []) for w in walk(a_)) for e_ in rhs_ for z in walk(e_))
                if reads_old:
                    res.ok()
                elif via_helper:
                    res.undecided("%s : class-count-through-helper" % key, "class_count is assigned from the result of a helper that was handed the old state; whether it adds the old count is not followed (fail closed)", fn_loc(fn, y["ln"]))
                else:
                    res.violate("%s : class-count-replaced" % key, "class_count is assigned, not accumulated: the count of earlier batches is lost and the priors follow the last batch only", fn_loc(fn, y["ln"]))
                continue
            if y["op"] != "+":
                res.violate("%s : class-count-op" % key, "class_count is updated with `%s=`" % y["op"], fn_loc(fn, y["ln"]))
                continue
            src = peel_refs(y["r"])
            e = L[src["local"]]["init"] if src.get("k") == "Path" and src.get("local") in L else src
            if any(z.get("k") == "MethodCall" and z["name"] in ("nrows", "len", "len_of", "nsamples") for z in walk(e)):
                res.ok()
            else:
                res.undecided("%s : class-count-source" % key, "the amount added to class_count (`%s`) is not recognised as the class subset's row count" % r.e(e)[:40], fn_loc(fn, y["ln"]))
        # (d) priors over the whole model
        res.instance("%s : priors recomputed over the model's classes" % key)
        pr = [y for y in walk(fn["body"]) if y.get("k") == "Assign" and peel_refs(y["l"]).get("k") == "Field" and peel_refs(y["l"])["name"] == "prior"]
        if not pr:
            res.undecided("%s : prior-update" % key, "no assignment of the priors found (fail closed)", fn_loc(fn))
        for y in pr:
            rhs = strip(y["r"])
            num_ok = rhs.get("k") == "Binary" and rhs["op"] == "/" and any(z.get("k") == "Field" and z["name"] == "class_count" for z in walk(rhs["l"]))
            den = rhs.get("r") if rhs.get("k") == "Binary" else None
            den_e = None
            if den is not None:
                for z in walk(den):
                    if z.get("k") == "Path" and z.get("local") in L:
                        den_e = L[z["local"]]["init"]
            den_ok = den_e is not None and "class_info" in field_chain(next((z["recv"] for z in walk(den_e) if z.get("k") == "MethodCall" and z["name"] in ("map", "fold", "sum")), den_e)) or (den_e is not None and any(z.get("k") == "Field" and z["name"] == "class_info" for z in walk(den_e)) and any(z.get("k") == "Field" and z["name"] == "class_count" for z in walk(den_e)))
            # the loop that assigns the priors walks the model's class map
            from .c17 import for_loops
            over_model = False
            for it, pat, body, node in for_loops(fn["body"]):
                if any(z is y for z in walk(body)) and "class_info" in field_chain(it):
                    over_model = True
            for z in walk(fn["body"]):
                if z.get("k") == "MethodCall" and z["name"] == "for_each" and any(w is y for w in walk(z)) and "class_info" in field_chain(z["recv"]):
                    over_model = True
            if num_ok and den_ok and over_model:
                res.ok()
            elif not over_model:
                res.violate("%s : priors-of-batch-classes-only" % key, "the priors are assigned in a loop that does not walk the model's class map: classes absent from the batch keep a prior computed from an outdated total", fn_loc(fn, y["ln"]))
            elif not num_ok:
                res.violate("%s : prior-numerator" % key, "a prior is not `class_count / total`: `%s`" % r.e(rhs)[:50], fn_loc(fn, y["ln"]))
            else:
                res.undecided("%s : prior-denominator" % key, "the total the priors are divided by was not traced to the accumulated class counts of the model (fail closed)", fn_loc(fn, y["ln"]))
    return res.finish(8)


def rule_epsilon(ctx):
    """The variance boost: what a continued Gaussian model has subtracted before the update is added back afterwards, to
    every class, whatever the branch."""
    res = RuleResult("R-C15-epsilon", "Gaussian naive Bayes: the epsilon subtracted from a continued model's variances is added back to every class unconditionally")
    F = ctx.facts()
    fws = [f for f in fns_of(F, "linfa_bayes", "fit_with", trait="FitWith") if "Gaussian" in (f["d"].get("self_adt") or "")]
    if not fws:
        res.missing_anchor("<GaussianNbValidParams as FitWith>::fit_with")
    from .layout import with_parents
    for fn in fws:
        key = fn_key(fn)
        res.instance(key)
        subs, adds = [], []
        whole_map = {}      # id(site) -> the site walks every class of the model's map (values_mut of class_info), outside of any loop over the batch's labels
        for y, anc in with_parents(fn["body"]):
            if y.get("k") == "AssignOp" and y["op"] in ("+", "-") and peel_refs(y["l"]).get("k") == "Field" and peel_refs(y["l"])["name"] == "sigma":
                cond = [a for a in anc if a.get("k") in ("If",) or (a.get("k") == "Match" and a.get("src", "Normal") == "Normal")]
                (adds if y["op"] == "+" else subs).append((y, cond))

                def walks_all(e):
                    return any(z.get("k") == "MethodCall" and z["name"] in ("values_mut", "iter_mut") and any(w.get("k") == "Field" and w["name"] == "class_info" for w in walk(z["recv"])) for z in walk(e))
                loops = [a for a in anc if a.get("k") == "Match" and a.get("src") == "ForLoopDesugar" and a["arms"] and a["arms"][0]["pat"].get("k") == "Bind"]
                each = [a for a in anc if a.get("k") == "MethodCall" and a["name"] == "for_each" and walks_all(a["recv"])]
                whole_map[id(y)] = (bool(each) and not loops) or (len(loops) == 1 and walks_all(loops[0]["scrut"]))
        if not subs and not adds:
            res.undecided("%s : epsilon-shape" % key, "no `sigma += / -= epsilon` found (fail closed)", fn_loc(fn))
            continue
        eps = set(peel_refs(y["r"]).get("local") for y, _ in subs + adds)
        if len(eps) != 1 or None in eps:
            res.undecided("%s : epsilon-operand" % key, "the subtracted and added amounts are not one local", fn_loc(fn))
        elif subs and not adds:
            res.violate("%s : epsilon-not-added-back" % key, "the boost is subtracted from a continued model's variances and never added back", fn_loc(fn, subs[0][0]["ln"]))
        elif any(cnd for _, cnd in adds):
            res.violate("%s : epsilon-added-conditionally" % key, "the boost is added back only under a condition: on the other path the stored variances stay unboosted (or boosted twice)", fn_loc(fn, adds[0][0]["ln"]))
        elif len(adds) > 1:
            res.violate("%s : epsilon-added-twice" % key, "the boost is added to the variances more than once", fn_loc(fn, adds[1][0]["ln"]))
        elif any(not whole_map.get(id(y)) for y, _ in subs) and all(whole_map.get(id(y)) for y, _ in adds):
            bad = next(y for y, _ in subs if not whole_map.get(id(y)))
            res.violate("%s : epsilon-subtracted-from-fresh-model" % key, "the boost is added back to every class of the model but subtracted per class that is being updated: classes absent from the batch keep gaining it, and a class seen for the first time loses a boost it never had", fn_loc(fn, bad["ln"]))
        elif any(not cnd for y, cnd in subs if not whole_map.get(id(y))):
            res.violate("%s : epsilon-subtracted-from-fresh-model" % key, "the boost is subtracted unconditionally, also from the variances of a model that never had it added", fn_loc(fn, subs[0][0]["ln"]))
        else:
            res.ok()
    return res.finish(1)


def rule_epsilonform(ctx):
    """When the pooling helper is handed the boost itself, what it returns has to be the pooled variance of the *unboosted*
    old variance: as a function of the stored variance v and the boost e it depends on them through v - e only
    (g(v, e) = g(v - e, 0)).  A boost taken off after the weighted combination leaves e * n_old / n_total in the result."""
    from .formula import Formula, V
    from .calc import Unsupported, Rat, Poly
    res = RuleResult("R-C15-epsilonform", "Gaussian naive Bayes: a variance-pooling helper that receives the boost removes it from the old variance before pooling (the result depends on variance and boost through their difference only)")
    F = ctx.facts()
    fns = [f for f in fns_of(F, "linfa_bayes", "update_mean_variance")]
    if not fns:
        res.missing_anchor("update_mean_variance")
    for fn in fns:
        c = fn["crate"]
        key = fn_key(fn)
        res.instance(key)
        ps = [b for p_ in fn["params"] for b in pat_bindings(p_)]
        eps = [b for b in ps if "eps" in (b.get("name") or "") or "smooth" in (b.get("name") or "") or "boost" in (b.get("name") or "")]
        if not eps:
            res.ok()            # the helper never sees the boost: the pairing in fit_with decides (R-C15-epsilon)
            continue
        try:
            fm = Formula(F)
            fm.skip_early_returns = True
            fm.opaque_any.update({"mean_axis": "mu_new", "var_axis": "var_new", "nrows": "n_new", "nsamples": "n_new"})
            env = {}
            for b in ps:
                if b in eps:
                    env[b["local"]] = V("scal", fm.atom("e"))
                else:
                    env[b["local"]] = V("elem", fm.atom("arg:" + b["name"], elem=True))
            body = strip(fn["body"])
            if body.get("k") != "Block" or body.get("e") is None:
                raise Unsupported("body shape")
            env2 = fm.block_env(c, body, env)
            tail = peel_refs(body["e"])
            if tail.get("k") != "Tup" or len(tail["es"]) != 2:
                raise Unsupported("the helper does not end in a (mean, variance) pair")
            g = fm.expr(c, tail["es"][1], env2).r
            v = "field:sigma"
            if v not in (g.num.atoms() | g.den.atoms()):
                raise Unsupported("the stored variance does not reach the result")
            h = fm.substitute(g, v, Poly.atom(v) - Poly.atom("e"), zero=("e",))
            if fm.same(g, h):
                res.ok()
            else:
                res.violate("%s : boost-removed-after-pooling" % key, "the pooled variance is not a function of (stored variance - boost): computed %s; with the boost taken off the old variance first it would be %s. The difference stays in every class that is updated and shrinks with the number of batches" % (g.key()[:200], h.key()[:200]), fn_loc(fn))
        except (Unsupported, TypeError, KeyError, AttributeError) as e_:
            res.undecided("%s : not-read" % key, "update_mean_variance is outside the vocabulary of the formula reader: %s (fail closed)" % e_, fn_loc(fn))
    return res.finish(1)


def rule_counts(ctx):
    """Additive smoothing enters the log-probabilities, not the stored counts - otherwise alpha would be accumulated once
    per batch and a history of b batches would be smoothed b times."""
    from .c12 import ingredients
    res = RuleResult("R-C15-counts", "multinomial naive Bayes stores the accumulated feature counts unsmoothed; alpha enters the log probabilities only")
    F = ctx.facts()
    fns = fns_of(F, "linfa_bayes", "update_feature_log_prob")
    if not fns:
        res.missing_anchor("MultinomialNbValidParams::update_feature_log_prob")
    for fn in fns:
        c = fn["crate"]
        key = fn_key(fn)
        body = strip(fn["body"])
        tail = body
        while tail.get("k") == "Block" and tail.get("e") is not None:
            tail = strip(tail["e"])
        res.instance("%s : stored counts" % key)
        if tail.get("k") != "Tup" or len(tail["es"]) != 2:
            res.undecided("%s : result-shape" % key, "the function does not end in a (log probabilities, counts) pair (fail closed)", fn_loc(fn))
            continue
        ing_lp, ing_ct = ingredients(fn, tail["es"][0]), ingredients(fn, tail["es"][1])
        if "call:alpha" in ing_ct:
            res.violate("%s : smoothed-counts-stored" % key, "the feature counts handed back for storage include the smoothing constant: it is added again with every batch", fn_loc(fn, tail["ln"]))
        else:
            res.ok()
        res.instance("%s : log probabilities" % key)
        if "call:alpha" in ing_lp and any(x.startswith("?") or "feature_count" in x or x.startswith("call:") for x in ing_lp):
            res.ok()
        elif "call:alpha" not in ing_lp:
            res.violate("%s : unsmoothed-log-probabilities" % key, "the feature log probabilities are computed without the smoothing constant", fn_loc(fn, tail["ln"]))
        else:
            res.ok()
        # accumulated counts: old + new where an earlier batch exists
        res.instance("%s : counts accumulate" % key)
        adds = [y for y in walk(fn["body"]) if y.get("k") == "Binary" and y["op"] == "+" and any(z.get("k") == "Path" and "old" in (z.get("name") or "") for z in walk(y)) and any(z.get("k") == "Path" and "new" in (z.get("name") or "") for z in walk(y))]
        L = lets(fn)
        uses_old = any(z.get("k") == "Field" and z["name"] == "feature_count" for z in walk(fn["body"]))
        if uses_old and ("self.feature_count" in ing_ct or any("feature_count" in x for x in ing_ct) or adds):
            res.ok()
        else:
            res.violate("%s : counts-not-accumulated" % key, "the stored feature counts do not include the counts of the earlier batches", fn_loc(fn))
    return res.finish(3)


def rule_kmeans(ctx):
    """mini-batch k-means: running-mean update with cumulative per-cluster counts; truthful convergence report"""
    res = RuleResult("R-C15-kmeans", "mini-batch k-means: the shift is divided by the cumulative count of the cluster (incremented first), the counts are the model's own, Ok / NotConverged follow `shift < tolerance`")
    F = ctx.facts()
    helpers = fns_of(F, "linfa_clustering", "compute_centroids_incremental")
    if not helpers:
        res.missing_anchor("compute_centroids_incremental")
    from .layout import with_parents
    for fn in helpers:
        c = fn["crate"]
        r = Render(c)
        key = fn_key(fn)
        ps = [b for p_ in fn["params"] for b in pat_bindings(p_)]
        res.instance("%s : divisor is the incremented cumulative count" % key)
        incs = [y for y in walk(fn["body"]) if y.get("k") == "AssignOp" and y["op"] == "+" and peel_refs(y["l"]).get("k") == "Index" and peel_refs(peel_refs(y["l"])["e"]).get("local") in [p["local"] for p in ps]]
        divs = [y for y in walk(fn["body"]) if y.get("k") in ("Binary", "AssignOp") and y["op"] == "/"]
        if not incs or not divs:
            res.undecided("%s : update-shape" % key, "the count increment / the division of the shift were not found (fail closed)", fn_loc(fn))
        else:
            cnt_local = peel_refs(peel_refs(incs[0]["l"])["e"]).get("local")
            d0 = divs[0]
            den = peel_refs(d0["r"])
            den_is_cnt = den.get("k") == "Index" and peel_refs(den["e"]).get("local") == cnt_local
            one = peel_refs(incs[0]["r"])
            inc_one = (one.get("k") == "Call" and (c.dfn(strip(one["f"]).get("def")) or {}).get("name") == "one") or (one.get("k") == "Lit" and lit_float(one.get("v")) == 1.0)
            if not den_is_cnt:
                res.violate("%s : divisor-not-cumulative-count" % key, "the shift towards the observation is divided by `%s`, not by the cumulative count of its cluster" % r.e(den)[:40], fn_loc(fn, d0["ln"]))
            elif (incs[0].get("ln") or 0) > (d0.get("ln") or 0):
                res.violate("%s : count-incremented-after-division" % key, "the cluster's count is incremented after the division: the first observation of an empty cluster divides by zero, and every step uses the count of the previous one", fn_loc(fn, incs[0]["ln"]))
            elif not inc_one:
                res.violate("%s : count-increment" % key, "an observation adds `%s` to its cluster's count" % r.e(one)[:30], fn_loc(fn, incs[0]["ln"]))
            else:
                res.ok()
    fws = [f for f in fns_of(F, "linfa_clustering", "fit_with", trait="FitWith") if "KMeans" in (f["d"].get("self_adt") or "")]
    if not fws:
        res.missing_anchor("<KMeansValidParams as FitWith>::fit_with")
    for fn in fws:
        c = fn["crate"]
        r = Render(c)
        key = fn_key(fn)
        res.instance("%s : counts handed to the update are the model's" % key)
        calls = [y for y in walk(fn["body"]) if callee(c, y)[0] == "compute_centroids_incremental"]
        if not calls:
            res.undecided("%s : update-call" % key, "call of compute_centroids_incremental not found (fail closed)", fn_loc(fn))
        else:
            a = calls[0]["args"]
            if a and "cluster_count" in field_chain(a[-1]):
                res.ok()
            else:
                res.violate("%s : counts-not-the-models" % key, "the counts handed to the running-mean update (`%s`) are not the model's cumulative cluster_count" % r.e(a[-1])[:40] if a else "?", fn_loc(fn, calls[0]["ln"]))
        res.instance("%s : convergence report" % key)
        done = False
        for y in walk(fn["body"]):
            if y.get("k") != "If" or y.get("else") is None:
                continue
            cond = strip(y["c"])
            if cond.get("k") != "Binary" or cond["op"] not in ("<", "<=", ">", ">="):
                continue
            tol_right = any(z.get("k") == "MethodCall" and z["name"] == "tolerance" for z in walk(cond["r"]))
            tol_left = any(z.get("k") == "MethodCall" and z["name"] == "tolerance" for z in walk(cond["l"]))
            if not (tol_right or tol_left):
                continue
            then_ok = any(callee(c, z)[0] == "Ok" for z in walk(y["then"]))
            then_err = any(callee(c, z)[0] in ("Err", "NotConverged") for z in walk(y["then"]))
            below = (cond["op"] in ("<", "<=") and tol_right) or (cond["op"] in (">", ">=") and tol_left)
            done = True
            if (below and then_ok and not then_err) or (not below and then_err and not then_ok):
                res.ok()
            else:
                res.violate("%s : convergence-report-inverted" % key, "`%s` leads to %s: converged / not converged is reported the wrong way round" % (r.e(cond)[:40], "Ok" if then_ok else "NotConverged"), fn_loc(fn, y["ln"]))
        if not done:
            res.undecided("%s : convergence-test" % key, "the test of the centroid shift against the tolerance was not found (fail closed)", fn_loc(fn))
    # the shift and the tolerance are compared in the same space, for every metric: `rdistance` is the squared distance for L2
    # only (L1 / L-inf: the distance itself, Lp: the p-th power) - its counterpart is `dist_to_rdist(tolerance)`, never a
    # hand-made square
    fits = fws + [f for f in fns_of(F, "linfa_clustering", "fit", trait="Fit") if "KMeans" in (f["d"].get("self_adt") or "")]
    for fn in fits:
        c = fn["crate"]
        r = Render(c)
        key = fn_key(fn)
        inits = lets(fn)
        for y in walk(fn["body"]):
            if y.get("k") != "Binary" or y["op"] not in ("<", "<=", ">", ">="):
                continue
            sides = [y["l"], y["r"]]
            tol = [s_ for s_ in sides if any(z.get("k") == "MethodCall" and z["name"] == "tolerance" for z in walk(s_))]
            if len(tol) != 1:
                continue
            other = peel_refs(sides[1] if tol[0] is sides[0] else sides[0])
            src = other
            if other.get("k") == "Path" and other.get("local") in inits:
                src = inits[other["local"]]["init"]
            calls = [z["name"] for z in walk(src) if z.get("k") == "MethodCall" and z["name"] in ("rdistance", "distance", "rdist_to_dist", "dist_to_rdist")]
            if not calls:
                continue
            res.instance("%s : shift and tolerance in the same space" % key)
            reduced = "rdistance" in calls and "rdist_to_dist" not in calls
            tol_calls = [z["name"] for z in walk(tol[0]) if z.get("k") == "MethodCall" and z["name"] in ("dist_to_rdist", "rdist_to_dist")]
            tol_arith = [z for z in walk(tol[0]) if z.get("k") == "Binary" or (z.get("k") == "MethodCall" and z["name"] in ("powi", "powf", "sqrt", "mul", "pow"))]
            if reduced and "dist_to_rdist" not in tol_calls:
                res.violate("%s : reduced-shift-against-unreduced-tolerance" % key, "`%s`: the shift is a *reduced* distance (squared for L2 only, the distance itself for L1 / L-inf), the other side is not `dist_to_rdist(tolerance)`: for every metric but L2 the documented tolerance is not the one applied" % r.e(y)[:70], fn_loc(fn, y["ln"]))
            elif not reduced and (tol_arith or tol_calls):
                res.violate("%s : tolerance-rescaled" % key, "`%s`: the shift is a distance, the tolerance side is rescaled" % r.e(y)[:70], fn_loc(fn, y["ln"]))
            else:
                res.ok()
    return res.finish(4)


def rule_classes(ctx):
    """fit_with visits the classes of the batch and, for each, adds *all* rows of that class to its statistics.  A class met
    twice in that walk is counted twice: the collection walked must hold every class once."""
    res = RuleResult("R-C15-classes", "the per-class update of naive Bayes `fit_with` walks a duplicate-free collection of the batch's classes")
    F = ctx.facts()
    from .c17 import for_loops
    fws = [f for f in fns_of(F, "linfa_bayes", "fit_with", trait="FitWith")]
    if len(fws) < 2:
        res.missing_anchor("FitWith impls of linfa-bayes (found %d)" % len(fws))
    for fn in fws:
        c = fn["crate"]
        r = Render(c)
        key = fn_key(fn)
        inits = lets(fn)
        loops = []
        for it, pat, body, node in for_loops(fn["body"]):
            ids = {b["local"] for b in pat_bindings(pat)}
            keyed = any(z.get("k") == "MethodCall" and z["name"] == "entry" and any(w.get("k") == "Path" and w.get("local") in ids for a in z["args"] for w in walk(a)) for z in walk(body))
            if keyed:
                loops.append((it, node))
        if not loops:
            res.instance("%s : class walk" % key)
            res.undecided("%s : class-walk" % key, "no loop that reaches the class statistics through entry(class) (fail closed)", fn_loc(fn))
            continue
        for it, node in loops:
            res.instance("%s : class walk" % key)
            src = peel_refs(it)
            while src.get("k") == "MethodCall" and src["name"] in ("into_iter", "iter", "cloned", "copied"):
                src = peel_refs(src["recv"])
            if src.get("k") == "Call" and src["args"] and (c.dfn(strip(src["f"]).get("def")) or {}).get("name") == "into_iter":
                src = peel_refs(src["args"][0])
                while src.get("k") == "MethodCall" and src["name"] in ("into_iter", "iter", "cloned", "copied"):
                    src = peel_refs(src["recv"])
            loc = None
            if src.get("k") == "Path" and src.get("local") in inits:
                loc = src["local"]
                src = peel_refs(inits[loc]["init"])
            ty = c.ty(src.get("t")) or ""
            if src.get("k") == "MethodCall" and src["name"] == "labels":
                res.ok()
                continue
            if "HashSet<" in ty or "BTreeSet<" in ty or "BTreeMap<" in ty or "HashMap<" in ty:
                res.ok()
                continue
            uses = [z["name"] for z in walk(fn["body"]) if loc is not None and z.get("k") == "MethodCall" and peel_refs(z["recv"]).get("local") == loc and (z.get("ln") or 0) <= (node.get("ln") or 10 ** 9)]
            sorted_ = any(u.startswith("sort") for u in uses)
            dedup = any(u.startswith("dedup") for u in uses)
            if sorted_ and dedup:
                res.ok()
            elif any(z.get("k") == "MethodCall" and z["name"] in ("to_vec", "to_owned", "collect", "clone", "iter", "into_raw_vec") for z in [src] + list(walk(src))) and "Vec<" in ty or "ArrayBase<" in ty:
                res.violate("%s : classes-visited-may-repeat" % key, "the classes are walked from `%s`%s: a class that occurs more than once there has all its rows added to its statistics once per occurrence" % (r.e(src)[:50], " (dedup without a sort removes neighbouring repeats only)" if dedup else ""), fn_loc(fn, node.get("ln")))
            else:
                res.undecided("%s : class-source" % key, "`%s` : %s (fail closed)" % (r.e(src)[:50], ty[:40]), fn_loc(fn, node.get("ln")))
    return res.finish(2)


def rule_everybatch(ctx):
    """Replaying a history batch by batch gives the recurrence only if every batch is applied: `fit_with` has no path that
    returns the model without the update (a "nothing to do" shortcut keyed on a sum that cancels, say)."""
    res = RuleResult("R-C15-everybatch", "FTRL fit_with applies the update on every non-error path (no early Ok before update_params)")
    F = ctx.facts()
    fws = [f for f in fns_of(F, "linfa_ftrl", "fit_with", trait="FitWith")]
    if not fws:
        res.missing_anchor("<FtrlValidParams as FitWith>::fit_with")
    for fn in fws:
        c = fn["crate"]
        r = Render(c)
        key = fn_key(fn)
        res.instance(key)
        upd = next((y for y in walk(fn["body"]) if y.get("k") == "MethodCall" and y["name"] in ("update_params", "update")), None)
        if upd is None:
            res.undecided("%s : update-call" % key, "no call of update_params (fail closed)", fn_loc(fn))
            continue
        early = None
        from .layout import with_parents as _wp
        for y, anc in _wp(fn["body"]):
            if y.get("k") == "Ret" and y.get("e") is not None and (y.get("ln") or 0) < (upd.get("ln") or 0):
                nm, _ = callee(c, peel_refs(y["e"]))
                if nm in ("Err", "from_residual"):      # `?` desugars to `return from_residual(..)`
                    continue
                # an empty batch changes nothing (gradient, sigma and both updates vanish): skipping it is the general path's result
                guard = next((a for a in reversed(anc) if a.get("k") == "If"), None)
                cnd = strip(guard["c"]) if guard is not None else None
                while cnd is not None and cnd.get("k") in ("DropTemps", "Paren"):
                    cnd = strip(cnd["e"])
                empty_test = False
                if cnd is not None:
                    if cnd.get("k") == "MethodCall" and cnd["name"] == "is_empty":
                        empty_test = True
                    if cnd.get("k") == "Binary" and cnd["op"] == "==" and any(z.get("k") == "MethodCall" and z["name"] in ("nsamples", "nrows", "len", "len_of") for z in walk(cnd)) and any(peel_refs(s_).get("k") == "Lit" and str(peel_refs(s_).get("v")).rstrip("usize_") == "0" for s_ in (cnd["l"], cnd["r"])):
                        empty_test = True
                if not empty_test:
                    early = y
        if early is not None:
            res.violate("%s : batch-skipped-on-some-path" % key, "`%s` returns the model before update_params: the batch that takes this path leaves z and n untouched, and the replayed history no longer follows the recurrence" % r.e(early)[:50], fn_loc(fn, early.get("ln")))
        else:
            res.ok()
    return res.finish(1)


def rule_pooledvar(ctx):
    """The pooled variance of old and new observations is combined from sums of squared deviations (plus the between-group
    term).  The second-moment form (n_o (v_o + m_o^2) + n_n (v_n + m_n^2)) / n - m^2 is equal in exact arithmetic and loses
    the variance to cancellation when |mean| is large against the spread - for every class that a later batch updates, while
    a single fit stays exact."""
    res = RuleResult("R-C15-pooledvar", "GaussianNb::update_mean_variance does not obtain the pooled variance as a second moment minus the squared mean")
    F = ctx.facts()
    fns = fns_of(F, "linfa_bayes", "update_mean_variance")
    if not fns:
        res.missing_anchor("update_mean_variance")
    for fn in fns:
        c = fn["crate"]
        r = Render(c)
        key = fn_key(fn)
        res.instance(key)
        inits = lets(fn)

        def is_square(e):
            e = peel_refs(e)
            if e.get("k") == "MethodCall" and e["name"] in ("mapv", "map", "mapv_into") and e["args"] and strip(e["args"][0]).get("k") == "Closure":
                b = strip(strip(e["args"][0])["body"])
                while b.get("k") == "Block" and not b.get("stmts") and b.get("e") is not None:
                    b = strip(b["e"])
                if b.get("k") == "MethodCall" and b["name"] in ("powi", "powf") and b["args"]:
                    vv = str(peel_refs(b["args"][0]).get("v", ""))
                    for suf in ("i32", "f32", "f64", "_"):
                        vv = vv.replace(suf, "")
                    if vv in ("2", "2.0", "2."):
                        return peel_refs(e["recv"])
                if b.get("k") == "Binary" and b["op"] == "*" and peel_refs(b["l"]).get("local") is not None and peel_refs(b["l"]).get("local") == peel_refs(b["r"]).get("local"):
                    return peel_refs(e["recv"])
            if e.get("k") == "Binary" and e["op"] == "*" and peel_refs(e["l"]).get("local") is not None and peel_refs(e["l"]).get("local") == peel_refs(e["r"]).get("local"):
                return peel_refs(e["l"])
            return None
        # the returned pair
        tail = fn["body"]
        while strip(tail).get("k") == "Block" and strip(tail).get("e") is not None:
            tail = strip(tail)["e"]
        tail = peel_refs(tail)
        if tail.get("k") != "Tup" or len(tail["es"]) != 2:
            res.undecided("%s : result" % key, "the function does not end in a (mean, variance) pair (fail closed)", fn_loc(fn))
            continue
        mean_e, var_e = peel_refs(tail["es"][0]), peel_refs(tail["es"][1])
        if var_e.get("k") == "Path" and var_e.get("local") in inits:
            var_e = peel_refs(inits[var_e["local"]]["init"])
        bad = None
        if var_e.get("k") == "Binary" and var_e["op"] == "-":
            sq = is_square(var_e["r"])
            if sq is not None and sq.get("k") == "Path" and mean_e.get("k") == "Path" and sq.get("local") == mean_e.get("local"):
                bad = var_e
        if bad is not None:
            res.violate("%s : variance-from-raw-moments" % key, "`%s`: the pooled variance is a second moment minus the square of the pooled mean - two numbers of size mean^2 whose difference is the variance; the single fit computes squared deviations, so incremental and batch models disagree as soon as |mean| >> spread" % r.e(bad)[:60], fn_loc(fn, bad.get("ln")))
        else:
            res.ok()
    return res.finish(1)


def rule_ftrl(ctx):
    """FTRL-proximal: per-coordinate update of z and n from the weights of before the update; exact zeros under the l1 strength"""
    res = RuleResult("R-C15-ftrl", "FTRL: weights are read before z and n are written; z gains the gradient and loses sigma*weights; n gains the squared gradient; sigma precedes the update; a weight is exactly zero when |z| <= l1")
    F = ctx.facts()
    ups = fns_of(F, "linfa_ftrl", "update_params")
    if not ups:
        res.missing_anchor("Ftrl::update_params")
    for fn in ups:
        c = fn["crate"]
        r = Render(c)
        key = fn_key(fn)
        ps = [b for p_ in fn["params"] for b in pat_bindings(p_)]
        L = lets(fn)
        wl = [l for l, y in L.items() if any(z.get("k") == "MethodCall" and z["name"] == "get_weights" for z in walk(y["init"]))]
        writes = [y for y in walk(fn["body"]) if y.get("k") in ("AssignOp", "Assign") and peel_refs(y["l"]).get("k") == "Field" and peel_refs(y["l"])["name"] in ("z", "n")]
        res.instance("%s : weights snapshot before the writes" % key)
        if not wl:
            inline = [y for y in writes if any(z.get("k") == "MethodCall" and z["name"] == "get_weights" for z in walk(y["r"]))]
            first_z = min([y.get("ln") or 0 for y in writes if peel_refs(y["l"])["name"] == "z"] or [0])
            if inline and any((y.get("ln") or 0) > first_z for y in inline):
                res.violate("%s : weights-read-after-write" % key, "get_weights() is evaluated after z has been written: the proximal step uses weights of the half-updated state", fn_loc(fn, inline[0]["ln"]))
            elif inline:
                res.ok()
            else:
                res.undecided("%s : weights-source" % key, "where the weights of the update come from was not found (fail closed)", fn_loc(fn))
        else:
            wln = L[wl[0]].get("ln") or 0
            if all((y.get("ln") or 0) > wln for y in writes):
                res.ok()
            else:
                res.violate("%s : weights-read-after-write" % key, "the weights are taken after z / n have been written: the proximal step uses weights of the half-updated state", fn_loc(fn, L[wl[0]]["ln"]))
        # the three updates
        pnames = {p["local"]: p["name"] for p in ps}

        def mentions(e):
            out = set()
            for z in walk(e):
                if z.get("k") == "Path" and z.get("local") in pnames:
                    out.add(pnames[z["local"]])
                if z.get("k") == "Path" and z.get("local") in wl:
                    out.add("weights")
                if z.get("k") == "MethodCall" and z["name"] == "get_weights":
                    out.add("weights")
            return out
        res.instance("%s : z and n recurrences" % key)
        zs = [(y["op"] if y.get("k") == "AssignOp" else "=", mentions(y["r"])) for y in writes if peel_refs(y["l"])["name"] == "z"]
        ns = [(y["op"] if y.get("k") == "AssignOp" else "=", mentions(y["r"]), y) for y in writes if peel_refs(y["l"])["name"] == "n"]
        gname = ps[1]["name"] if len(ps) > 1 else "gradient"
        sname = ps[2]["name"] if len(ps) > 2 else "sigma"
        # the same updates written as one pass: Zip::from(&mut self.z).and(&mut self.n).and(&gradient)...for_each(|z, n, &g, ..| ..)
        zip_replaced = None
        for fe in [y for y in walk(fn["body"]) if y.get("k") == "MethodCall" and y["name"] in ("for_each", "par_for_each") and y["args"] and strip(y["args"][0]).get("k") == "Closure"]:
            srcs = []
            cur = peel_refs(fe["recv"])
            while cur.get("k") == "MethodCall" and cur["name"] == "and" and cur["args"]:
                srcs.insert(0, cur["args"][0])
                cur = peel_refs(cur["recv"])
            if cur.get("k") == "Call" and cur.get("args"):
                srcs.insert(0, cur["args"][0])
            clo = strip(fe["args"][0])
            cps = [list(pat_bindings(p_)) for p_ in clo["params"]]
            if len(srcs) != len(cps) or not srcs:
                continue
            role = {}
            for src, bs_ in zip(srcs, cps):
                s0 = peel_refs(src)
                nm = None
                if s0.get("k") == "Field" and peel_refs(s0["e"]).get("name") == "self":
                    nm = "field:" + s0["name"]
                elif s0.get("k") == "Path" and s0.get("local") in pnames:
                    nm = pnames[s0["local"]]
                elif s0.get("k") == "Path" and s0.get("local") in wl:
                    nm = "weights"
                elif s0.get("k") == "MethodCall" and s0["name"] == "get_weights":
                    nm = "weights"
                for b in bs_:
                    role[b["local"]] = nm

            def zmentions(e):
                return set(role[z["local"]] for z in walk(e) if z.get("k") == "Path" and z.get("local") in role and role[z["local"]] and not role[z["local"]].startswith("field:"))
            for y in walk(clo["body"]):
                if y.get("k") not in ("AssignOp", "Assign"):
                    continue
                tgt = peel_refs(y["l"])
                fld = role.get(tgt.get("local")) if tgt.get("k") == "Path" else None
                if not fld or not fld.startswith("field:"):
                    continue
                op = y["op"] if y.get("k") == "AssignOp" else "="
                # locals of the closure that were computed from the old value carry it: `let t = *z + g; *z = t - s * w;`
                carriers = {tgt.get("local")}
                grew = True
                while grew:
                    grew = False
                    for st in walk(clo["body"]):
                        if st.get("k") == "LetStmt" and st.get("init") is not None and st["pat"].get("k") == "Bind" and st["pat"]["local"] not in carriers \
                                and any(z.get("k") == "Path" and z.get("local") in carriers for z in walk(st["init"])):
                            carriers.add(st["pat"]["local"])
                            grew = True
                reads_self = any(z.get("k") == "Path" and z.get("local") in carriers for z in walk(y["r"]))
                if op == "=" and reads_self:
                    # `*n = *n + g * g`
                    top = peel_refs(y["r"])
                    op = top["op"] if top.get("k") == "Binary" and top["op"] in ("+", "-") else "="
                if op == "=":
                    zip_replaced = (fld[6:], y)
                if fld == "field:z":
                    # `*z += g - s * w` is the two documented updates at once
                    rr = peel_refs(y["r"])
                    if op == "+" and rr.get("k") == "Binary" and rr["op"] == "-":
                        zs.append(("+", zmentions(rr["l"])))
                        zs.append(("-", zmentions(rr["r"])))
                    else:
                        zs.append((op, zmentions(y["r"])))
                elif fld == "field:n":
                    yy = dict(y)
                    ns.append((op, zmentions(y["r"]), {"r": y["r"], "ln": y.get("ln"), "k": y["k"], "l": y["l"], "op": y.get("op"), "_g": sum(1 for z in walk(y["r"]) if z.get("k") == "Path" and role.get(z.get("local")) == gname)}))
        want_z = sorted([("+", (gname,)), ("-", tuple(sorted((sname, "weights"))))])
        got_z = sorted((op, tuple(sorted(m))) for op, m in zs)
        n_ok = len(ns) == 1 and ns[0][0] == "+" and ns[0][1] == {gname} and (ns[0][2].get("_g") == 2 or sum(1 for z in walk(ns[0][2]["r"]) if z.get("k") == "Path" and z.get("local") == ps[1]["local"]) == 2)
        if zip_replaced is not None:
            res.violate("%s : state-replaced" % key, "`%s` is assigned in the fused update instead of accumulated: from the second update on the history of squared gradients (or of z) is lost" % zip_replaced[0], fn_loc(fn, zip_replaced[1].get("ln")))
        elif any(op == "=" for op, _ in zs) or any(op == "=" for op, _, _ in ns):
            res.violate("%s : state-replaced" % key, "z or n is assigned instead of updated: the accumulated history is lost", fn_loc(fn))
        elif got_z == want_z and n_ok:
            res.ok()
        elif got_z != want_z and len(zs) == 2:
            res.violate("%s : z-recurrence" % key, "z is updated with %s; the documented recurrence is z += g - sigma*w" % got_z, fn_loc(fn))
        elif not n_ok and len(ns) == 1:
            res.violate("%s : n-recurrence" % key, "n is updated with `%s`; the documented recurrence is n += g*g" % r.e(ns[0][2])[:50], fn_loc(fn, ns[0][2]["ln"]))
        else:
            res.undecided("%s : recurrence-shape" % key, "the updates of z and n were not recognised (fail closed)", fn_loc(fn))
    # sigma is computed before update_params at both call sites
    for fn in [f for f in F.all_fns() if f["d"]["krate"] == "linfa_ftrl" and not f.get("exp") and any(y.get("k") == "MethodCall" and y["name"] == "update_params" for y in walk(f["body"]))]:
        key = fn_key(fn)
        res.instance("%s : sigma before the update" % key)
        sg = [y for y in walk(fn["body"]) if y.get("k") == "MethodCall" and y["name"] == "calculate_sigma"]
        up = [y for y in walk(fn["body"]) if y.get("k") == "MethodCall" and y["name"] == "update_params"]
        if sg and up and (sg[0].get("ln") or 0) <= (up[0].get("ln") or 0):
            res.ok()
        elif sg and up:
            res.violate("%s : sigma-after-update" % key, "calculate_sigma runs after update_params: it sees the n that already contains this batch's squared gradient", fn_loc(fn, sg[0]["ln"]))
        else:
            res.undecided("%s : sigma-call" % key, "calculate_sigma not found next to update_params (fail closed)", fn_loc(fn))
    # exact zeros
    prox = fns_of(F, "linfa_ftrl", "apply_proximal_to_weights")
    if not prox:
        res.missing_anchor("apply_proximal_to_weights")
    for fn in prox:
        c = fn["crate"]
        r = Render(c)
        key = fn_key(fn)
        res.instance("%s : zero weight when |z| <= l1" % key)
        ps = {b["local"]: b["name"] for p_ in fn["params"] for b in pat_bindings(p_)}
        order = [b["name"] for p_ in fn["params"] for b in pat_bindings(p_)]
        zname, l1name = order[0], (order[4] if len(order) > 4 else "l1_ratio")
        found = False
        for y in walk(fn["body"]):
            if y.get("k") != "If" or y.get("else") is None:
                continue
            cond = strip(y["c"])
            if cond.get("k") != "Binary" or cond["op"] not in ("<", "<=", ">", ">="):
                continue
            ln_ = set(ps.get(z.get("local")) for z in walk(cond["l"]) if z.get("k") == "Path")
            rn_ = set(ps.get(z.get("local")) for z in walk(cond["r"]) if z.get("k") == "Path")
            L = lets(fn)
            for z in list(walk(cond["l"])) + list(walk(cond["r"])):
                pass
            z_left = zname in ln_ or any(z.get("k") == "Path" and z.get("local") in L and any(w.get("k") == "Path" and ps.get(w.get("local")) == zname for w in walk(L[z["local"]]["init"])) for z in walk(cond["l"]))
            l1_right = l1name in rn_
            z_right = zname in rn_
            l1_left = l1name in ln_
            if not ((z_left and l1_right) or (z_right and l1_left)):
                continue
            found = True
            then = strip(y["then"])
            while then.get("k") == "Block" and then.get("e") is not None:
                then = strip(then["e"])
            els = strip(y["else"])
            while els.get("k") == "Block" and els.get("e") is not None:
                els = strip(els["e"])

            def is_zero(e):
                e = peel_refs(e)
                return (e.get("k") == "Call" and (c.dfn(strip(e["f"]).get("def")) or {}).get("name") == "zero") or (e.get("k") == "Lit" and str(e.get("v")).strip("0._f3264") == "")
            op = cond["op"] if z_left else {"<": ">", "<=": ">=", ">": "<", ">=": "<="}[cond["op"]]
            zero_branch = "then" if is_zero(then) else ("else" if is_zero(els) else None)
            if zero_branch is None:
                res.violate("%s : no-exact-zero" % key, "neither branch of the |z| vs l1 test returns exactly zero", fn_loc(fn, y["ln"]))
            elif (op == "<=" and zero_branch == "then") or (op == ">" and zero_branch == "else"):
                res.ok()
            elif (op == "<" and zero_branch == "then") or (op == ">=" and zero_branch == "else"):
                res.violate("%s : zero-test-strict" % key, "the weight is zero only when |z| is strictly below l1 (`%s`): at |z| = l1 the formula branch runs" % r.e(cond)[:40], fn_loc(fn, y["ln"]))
            else:
                res.violate("%s : zero-test-inverted" % key, "`%s` selects the zero for large |z| and the formula for small |z|" % r.e(cond)[:40], fn_loc(fn, y["ln"]))
        if not found:
            res.undecided("%s : zero-test" % key, "the comparison of |z| with the l1 strength was not found (fail closed)", fn_loc(fn))
    # fit_with continues from the given model
    for fn in [f for f in fns_of(F, "linfa_ftrl", "fit_with", trait="FitWith")]:
        key = fn_key(fn)
        res.instance("%s : continues from the given model" % key)
        ps = [b for p_ in fn["params"] for b in pat_bindings(p_)]
        mi = ps[1]["local"] if len(ps) > 1 else None
        if any(y.get("k") == "MethodCall" and y["name"] in ("unwrap_or_else", "unwrap_or", "map_or_else", "unwrap_or_default") and peel_refs(y["recv"]).get("local") == mi for y in walk(fn["body"])) or any(y.get("k") == "Match" and peel_refs(y["scrut"]).get("local") == mi for y in walk(fn["body"])):
            res.ok()
        elif not any(y.get("k") == "Path" and y.get("local") == mi for y in walk(fn["body"])):
            res.violate("%s : given-model-discarded" % key, "the model handed to fit_with is never used: every call starts from a fresh state", fn_loc(fn))
        else:
            res.undecided("%s : model-source" % key, "how the incoming model is unpacked was not recognised (fail closed)", fn_loc(fn))
    return res.finish(6)


def rule_sigma0(ctx):
    """A coordinate that has never seen a gradient (n = 0) and sees none now (g = 0) keeps sigma = 0, z and weight unchanged:
    the per-coordinate learning-rate term evaluated at that point is 0 in the documented form (sqrt(n + g^2) - sqrt(n)) / alpha.
    An algebraically equivalent form may be 0/0 there.  The formula is evaluated over the abstract values {zero, positive}."""
    res = RuleResult("R-C15-sigma0", "the per-coordinate learning-rate term of FTRL is 0 (not 0/0) for a coordinate without any gradient so far (n = 0, g = 0)")
    F = ctx.facts()
    fns = fns_of(F, "linfa_ftrl", "calculate_weight_in_average")
    if not fns:
        res.missing_anchor("linfa_ftrl::calculate_weight_in_average")
    for fn in fns:
        c = fn["crate"]
        r = Render(c)
        key = fn_key(fn)
        res.instance(key)
        ps = [b for p_ in fn["params"] for b in pat_bindings(p_)]
        if len(ps) != 3:
            res.undecided("%s : signature" % key, "expected (n, gradient, alpha) (fail closed)", fn_loc(fn))
            continue
        env = {ps[0]["local"]: "Z", ps[1]["local"]: "Z", ps[2]["local"]: "P"}
        bad = []

        def ev(e, depth=0):
            e = peel_refs(e)
            k_ = e.get("k")
            if depth > 20:
                return "?"
            if k_ == "Path" and e.get("local") in env:
                return env[e["local"]]
            if k_ == "Lit":
                v = lit_float(e.get("v"))
                if v is None:
                    return "?"
                return "Z" if v == 0 else ("P" if v > 0 else "?")
            if k_ == "Block":
                for st in e.get("stmts") or []:
                    if st.get("k") == "LetStmt" and st.get("init") is not None and st["pat"].get("k") == "Bind":
                        env[st["pat"]["local"]] = ev(st["init"], depth + 1)
                return ev(e["e"], depth + 1) if e.get("e") is not None else "?"
            if k_ == "Unary" and e["op"] == "-":
                v = ev(e["e"], depth + 1)
                return "Z" if v == "Z" else ("?" if v in ("P", "?") else v)
            if k_ == "Binary":
                a, b = ev(e["l"], depth + 1), ev(e["r"], depth + 1)
                if "NAN" in (a, b):
                    return "NAN"
                op = e["op"]
                if op == "+":
                    return "Z" if (a, b) == ("Z", "Z") else ("P" if set((a, b)) <= {"Z", "P"} else "?")
                if op == "-":
                    return "Z" if (a, b) == ("Z", "Z") else ("P" if (a, b) == ("P", "Z") else "?")
                if op == "*":
                    return "Z" if "Z" in (a, b) and "?" not in (a, b) else ("P" if (a, b) == ("P", "P") else ("Z" if "Z" in (a, b) else "?"))
                if op == "/":
                    if b == "Z":
                        bad.append(e)
                        return "NAN"
                    return "Z" if a == "Z" and b == "P" else ("P" if (a, b) == ("P", "P") else "?")
                return "?"
            if k_ in ("Call", "MethodCall"):
                nm = e["name"] if k_ == "MethodCall" else (c.dfn(strip(e["f"]).get("def")) or {}).get("name")
                arg = e["recv"] if k_ == "MethodCall" else (e["args"][0] if e.get("args") else None)
                if nm in ("sqrt", "abs", "cbrt") and arg is not None:
                    return ev(arg, depth + 1)
                if nm in ("one",):
                    return "P"
                if nm in ("zero",):
                    return "Z"
                if nm in ("cast", "from") and arg is not None:
                    return ev(arg, depth + 1)
                return "?"
            return "?"
        v = ev(fn["body"])
        if bad:
            res.violate("%s : undefined-on-untouched-coordinate" % key, "for n = 0 and g = 0 the term divides by `%s`, which is zero there: 0/0 = NaN where the documented formula gives 0 - a feature column that has been all zero so far gets z = NaN" % r.e(bad[0]["r"])[:50], fn_loc(fn, bad[0].get("ln")))
        elif v == "Z":
            res.ok()
        else:
            res.undecided("%s : value-at-zero" % key, "the value of the term at n = 0, g = 0 was not evaluated (%s) (fail closed)" % v, fn_loc(fn))
    return res.finish(1)


def rule_fitcounts(ctx):
    """fit_with treats the model's cluster_count as the true cumulative number of observations per cluster (it is the
    denominator of the running mean).  What k-means `fit` stores there is therefore what it counted - not a clamped or
    otherwise adjusted copy."""
    res = RuleResult("R-C15-fitcounts", "the cluster counts stored by KMeans::fit are the counted memberships, unadjusted (they are the cumulative counts fit_with continues from)")
    F = ctx.facts()
    fns = [f for f in fns_of(F, "linfa_clustering", "fit") if (f["d"].get("self_adt") or "").endswith("KMeansValidParams")]
    if not fns:
        res.missing_anchor("<KMeansValidParams as Fit>::fit")
    for fn in fns:
        c = fn["crate"]
        r = Render(c)
        key = fn_key(fn)
        lits = [y for y in walk(fn["body"]) if y.get("k") == "Struct" and any(f_["name"] == "cluster_count" for f_ in y.get("fields") or [])]
        res.instance("%s : stored counts" % key)
        if not lits:
            res.undecided("%s : model-literal" % key, "no KMeans literal with cluster_count (fail closed)", fn_loc(fn))
            continue
        v = peel_refs(next(f_["e"] for f_ in lits[0]["fields"] if f_["name"] == "cluster_count"))
        if v.get("k") != "Path" or "local" not in v:
            chg = next((y["name"] for y in walk(v) if y.get("k") == "MethodCall" and y["name"] in ("max", "min", "clamp", "mapv", "map", "mapv_into")), None)
            if chg:
                res.violate("%s : counts-adjusted:%s" % (key, chg), "the stored counts are passed through `.%s(..)`" % chg, fn_loc(fn, lits[0].get("ln")))
            else:
                res.undecided("%s : counts-expression" % key, "`%s` (fail closed)" % r.e(v)[:40], fn_loc(fn, lits[0].get("ln")))
            continue
        loc = v["local"]
        adj = [y for y in walk(fn["body"]) if y.get("k") == "MethodCall" and peel_refs(y["recv"]).get("local") == loc and y["name"] in ("mapv_inplace", "map_inplace", "par_mapv_inplace", "fill", "assign", "zip_mut_with", "iter_mut", "for_each")]
        adj += [y for y in walk(fn["body"]) if y.get("k") == "Assign" and peel_refs(y["l"]).get("local") == loc]
        if adj:
            res.violate("%s : counts-adjusted:%s" % (key, adj[0].get("name") or "assignment"), "after the memberships were counted the counts are rewritten (`%s`): fit_with continues a running mean from counts that are not the number of observations" % r.e(adj[0])[:60], fn_loc(fn, adj[0].get("ln")))
        else:
            res.ok()
    return res.finish(1)


def rules(tier):
    from . import carry, precision, layout
    from . import blockmean
    return [blockmean.make_offset_rule("R-C15-blockoffset", lambda f: f["d"]["krate"] in ("linfa_bayes", "linfa_ftrl"), "linfa-bayes and linfa-ftrl"),
            rule_everybatch, rule_pooledvar, rule_classes, rule_sigma0, layout.make_rule("R-C15-memorder", "raw memory-order buffers are used by position only behind a standard-layout test", lambda f: f["d"]["krate"] in ("linfa_bayes", "linfa_ftrl"), "linfa-bayes and linfa-ftrl"),
            rule_fitcounts, carry.make_fieldcopy_rule("R-C15-fieldcopy", {"linfa_bayes", "linfa_ftrl", "linfa_clustering"}, 0),
            rule_batch, rule_carry_state, rule_epsilon, rule_epsilonform, rule_counts, rule_kmeans, rule_ftrl,
            carry.make_clone_rule("R-C15-clone", {"linfa_bayes", "linfa_ftrl"}, 6), carry.make_setter_rule("R-C15-override", {"linfa_bayes", "linfa_ftrl"}, 4),
            precision.make_rule("R-C15-precision", lambda f: f["d"]["krate"] in ("linfa_bayes", "linfa_ftrl"), 30, "linfa-bayes and linfa-ftrl"),
            carry.make_accessor_rule("R-C15-accessor", {"linfa_bayes", "linfa_ftrl"}, 4), carry.make_ctor_rule("R-C15-ctor", {"linfa_bayes", "linfa_ftrl"}, 2)]
