"""Soundness of zero-skip guards.

`if v != 0 { acc += f(v, ..) }` is the optimisation "skip the update when it would add nothing".  It is the same function as
the unguarded update only if f vanishes whenever v does: f is a product with v (or a sum of such products).  An update whose
value has a term without the tested variable - `w_new - w_old` under a test of `w_new` - is skipped although it is not zero,
and the accumulator (a residual, a running sum) is stale from then on."""
from .core import RuleResult
from .facts import fn_key, fn_loc, walk, children, strip, peel_refs, pat_bindings, Render
from .facts import lit_float, lit_number

ZERO_NAMES = {"zero", "neg_zero"}
NORMS = {"norm_l2", "norm_l1", "norm", "norm_max", "abs", "sqrt", "dot"}        # zero iff the vector / number is
BILINEAR = {"dot", "mul", "scaled_add", "outer"}


def _inits(fn):
    out = {}
    for y in walk(fn["body"]):
        if y.get("k") == "LetStmt" and y.get("init") is not None and y["pat"].get("k") == "Bind":
            out[y["pat"]["local"]] = y["init"]
    return out


def _is_zero(c, e):
    e = peel_refs(e)
    if e.get("k") == "Lit":
        return lit_float(e.get("v")) == 0.0
    if e.get("k") == "Call" and strip(e["f"]).get("k") == "Path":
        return (c.dfn(strip(e["f"]).get("def")) or {}).get("name") in ZERO_NAMES
    return False


def tested_roots(c, cond, inits, depth=0):
    """places whose being zero makes the condition false: for `v != 0`, `abs_diff_ne!(v, 0)`, `norm(v) != 0`, `v.abs() > 0`
    returns the canonical texts of v (and of what v is a norm of)"""
    cond = strip(cond)
    out = []
    pairs = []
    if cond.get("k") == "Binary" and cond["op"] in ("!=", ">"):
        pairs.append((cond["l"], cond["r"]))
        if cond["op"] == "!=":
            pairs.append((cond["r"], cond["l"]))
    if cond.get("k") == "MethodCall" and cond["name"] in ("ne", "abs_diff_ne", "relative_ne", "ulps_ne") and len(cond["args"]) >= 2:
        pairs.append((cond["args"][0], cond["args"][1]))
        pairs.append((cond["args"][1], cond["args"][0]))
    if cond.get("k") == "Unary" and cond["op"] == "!":
        inner = strip(cond["e"])
        if inner.get("k") == "MethodCall" and inner["name"] in ("eq", "abs_diff_eq", "relative_eq", "ulps_eq") and len(inner["args"]) >= 2:
            pairs.append((inner["args"][0], inner["args"][1]))
            pairs.append((inner["args"][1], inner["args"][0]))
        if inner.get("k") == "Binary" and inner["op"] == "==":
            pairs.append((inner["l"], inner["r"]))
            pairs.append((inner["r"], inner["l"]))
    for v, z in pairs:
        if _is_zero(c, z) and not _is_zero(c, v):
            out.extend(_roots_of(c, v, inits, 0))
    return out


def _roots_of(c, v, inits, depth):
    """the value itself, and - when it is a norm / a self-dot / an abs of something - that something"""
    r = Render(c)
    v = peel_refs(v)
    out = [("val", r.e(v))]
    if depth > 4:
        return out
    if v.get("k") == "Path" and v.get("local") in inits:
        out.extend(_roots_of(c, inits[v["local"]], inits, depth + 1))
    if v.get("k") == "MethodCall" and v["name"] in NORMS:
        if v["name"] == "dot":
            if v["args"] and r.e(peel_refs(v["recv"])) == r.e(peel_refs(v["args"][0])):
                out.extend(_roots_of(c, v["recv"], inits, depth + 1))
        else:
            out.extend(_roots_of(c, v["recv"], inits, depth + 1))
    return out


def vanishes(c, e, roots, inits, depth=0):
    """True: e == 0 whenever the tested value is; False: a term of e does not contain it; None: not classified"""
    r = Render(c)
    e = peel_refs(e)
    if depth > 10:
        return None
    txt = r.e(e)
    if any(txt == t for _, t in roots):
        return True
    k = e.get("k")
    if _is_zero(c, e):
        return True
    if k == "Lit":
        return False
    if k == "Path":
        # only locals computed inside the guarded block are followed: a local bound before the test may hold an earlier
        # value of the tested place (`let old = w.to_owned(); .. w.assign(..); if norm(w) != 0 { .. w - old .. }`)
        if e.get("local") in inits:
            return vanishes(c, inits[e["local"]], roots, inits, depth + 1)
        return False
    if k == "Unary":
        return vanishes(c, e["e"], roots, inits, depth + 1)
    if k in ("Index", "Field"):
        return vanishes(c, e["e"], roots, inits, depth + 1)
    if k == "Binary":
        a, b = vanishes(c, e["l"], roots, inits, depth + 1), vanishes(c, e["r"], roots, inits, depth + 1)
        if e["op"] == "*":
            if a is True or b is True:
                return True
            return None if (a is None or b is None) else False
        if e["op"] == "/":
            return a
        if e["op"] in ("+", "-"):
            if a is True and b is True:
                return True
            if a is False or b is False:
                return False
            return None
        return None
    if k == "MethodCall":
        nm = e["name"]
        rv = vanishes(c, e["recv"], roots, inits, depth + 1)
        if nm in ("view", "view_mut", "insert_axis", "to_owned", "clone", "t", "reborrow", "into_shape", "unwrap", "abs", "sqrt", "neg", "mapv", "iter", "sum", "signum", "row", "column", "slice", "slice_mut", "index_axis"):
            return rv
        if nm in BILINEAR and e["args"]:
            av = vanishes(c, e["args"][-1], roots, inits, depth + 1)
            if rv is True or av is True:
                return True
            return None if (rv is None or av is None) else False
        if nm in ("sub", "add") and e["args"]:
            av = vanishes(c, e["args"][0], roots, inits, depth + 1)
            if rv is True and av is True:
                return True
            if rv is False or av is False:
                return False
            return None
        return None
    if k == "Call":
        return None
    return None


def _parents(n, anc=()):
    yield n, anc
    for ch in children(n):
        for x in _parents(ch, anc + (n,)):
            yield x


def updates_of(c, fn, acc_names):
    """(node, value expression(s), how) for updates of the accumulator: acc.scaled_add(a, &x) -> [a, x];
    general_mat_mul(alpha, A, B, beta, &mut acc) -> [alpha, A, B]; acc += e / acc -= e -> [e]"""
    out = []
    for y in walk(fn["body"]):
        if y.get("k") == "MethodCall" and y["name"] == "scaled_add" and peel_refs(y["recv"]).get("name") in acc_names and len(y["args"]) == 2:
            out.append((y, {"k": "Binary", "op": "*", "l": y["args"][0], "r": y["args"][1], "t": None, "ln": y.get("ln")}, "scaled_add"))
        if y.get("k") == "Call" and strip(y["f"]).get("k") == "Path" and (c.dfn(strip(y["f"]).get("def")) or {}).get("name") == "general_mat_mul" and len(y["args"]) == 5 \
                and peel_refs(y["args"][4]).get("name") in acc_names:
            prod = {"k": "Binary", "op": "*", "l": y["args"][1], "r": y["args"][2], "t": None, "ln": y.get("ln")}
            out.append((y, prod, "general_mat_mul"))
        if y.get("k") == "AssignOp" and y["op"] in ("+", "-") and peel_refs(y["l"]).get("name") in acc_names:
            out.append((y, y["r"], "%s=" % y["op"]))
    return out


def make_rule(rid, select, acc_names, floor, what):
    def rule(ctx):
        res = RuleResult(rid, "an update of %s that is skipped under a zero test vanishes whenever the tested value is zero (it is a product with it, not a difference involving another value)" % what)
        F = ctx.facts()
        n = 0
        for fn in F.all_fns():
            if not select(fn):
                continue
            c = fn["crate"]
            r = Render(c)
            key = fn_key(fn)
            inits = _inits(fn)
            ups = updates_of(c, fn, acc_names)
            anc_of = {}
            for node, anc in _parents(fn["body"]):
                anc_of[id(node)] = anc
            for node, val, how in ups:
                guards = []
                anc = anc_of.get(id(node), ())
                for i, a in enumerate(anc):
                    if a.get("k") == "If" and i + 1 < len(anc) and anc[i + 1] is a["then"]:
                        roots = tested_roots(c, a["c"], inits)
                        if roots:
                            guards.append((a, roots))
                if not guards:
                    continue
                n += 1
                a, roots = guards[-1]
                block_inits = {}
                for z in walk(a["then"]):
                    if z.get("k") == "LetStmt" and z.get("init") is not None and z["pat"].get("k") == "Bind":
                        block_inits[z["pat"]["local"]] = z["init"]
                inst = "%s : %s at line %s under `%s`" % (key, how, node.get("ln"), r.e(strip(a["c"]))[:50])
                res.instance(inst)
                v = vanishes(c, val, roots, block_inits)
                # a tested value that is read out of a container by position (`norm_rows_w[j]`: a cache kept beside the data)
                # says nothing here about what it is the norm of: the relation between the cache and the term is not visible
                def _indexed(e_, depth=0):
                    e_ = peel_refs(e_)
                    if e_.get("k") == "Index":
                        return True
                    if e_.get("k") == "Path" and e_.get("local") in inits and depth < 3:
                        return _indexed(inits[e_["local"]], depth + 1)
                    return False
                cached = False
                cnd_ = strip(a["c"])
                for side in ([cnd_.get("l"), cnd_.get("r")] if cnd_.get("k") == "Binary" else list(cnd_.get("args", []))):
                    if side is not None and _indexed(side):
                        # .. unless the term reads that very container too (`w[j] != 0` around `old - w[j]`): then the
                        # tested value is in the term, and what else is in it is what this rule judges
                        rl = set(z.get("local") for z in walk(side) if z.get("k") == "Path" and "local" in z and not (c.ty(z.get("t")) or "").strip().lstrip("&").startswith(("usize", "u32", "i32", "u64", "isize")))
                        vl = set(z.get("local") for z in walk(val) if z.get("k") == "Path" and "local" in z)
                        for l_ in list(vl):
                            if l_ in block_inits:
                                vl |= set(z.get("local") for z in walk(block_inits[l_]) if z.get("k") == "Path" and "local" in z)
                        if not (rl & vl):
                            cached = True
                if v is False and cached:
                    v = None
                if v is True:
                    res.ok()
                elif v is False:
                    res.violate("%s : zero-skip-guard-misses-term:%s" % (key, how), "the update `%s` is skipped when `%s` is zero, but its value does not vanish then (a term does not contain the tested value): the accumulator keeps a contribution it should have lost" % (r.e(val)[:60], roots[0][1][:30]), fn_loc(fn, node.get("ln")))
                else:
                    res.undecided("%s : zero-skip:%s" % (key, how), "the update `%s` under the zero test of `%s` was not classified (fail closed)" % (r.e(val)[:60], roots[0][1][:30]), fn_loc(fn, node.get("ln")))
        if n < floor:
            res.missing_anchor("guarded accumulator updates (found %d)" % n)
        return res.finish(floor)
    return rule


def zero_test_kind(c, cond):
    """'exact' for `v == 0` / `v != 0`, 'tolerance' for approx's abs_diff / relative / ulps forms against zero, None otherwise"""
    cond = strip(cond)
    if cond.get("k") == "Unary" and cond["op"] == "!":
        return zero_test_kind(c, cond["e"])
    if cond.get("k") == "Binary" and cond["op"] in ("==", "!="):
        if _is_zero(c, cond["l"]) or _is_zero(c, cond["r"]):
            return "exact"
    if cond.get("k") == "MethodCall" and cond["name"] in ("eq", "ne", "abs_diff_eq", "abs_diff_ne", "relative_eq", "relative_ne", "ulps_eq", "ulps_ne") and len(cond["args"]) >= 2:
        if _is_zero(c, cond["args"][0]) or _is_zero(c, cond["args"][1]):
            d = c.dfn(cond.get("def")) or {}
            if d.get("krate") == "approx" or "approx" in (d.get("path") or "") or cond["name"] != "eq" and cond["name"] != "ne" or "AbsDiff" in (c.ty(peel_refs(cond["recv"]).get("t")) or "") or "Relative" in (c.ty(peel_refs(cond["recv"]).get("t")) or ""):
                return "tolerance"
    return None


def make_exact_rule(rid, select, acc_names, floor, what):
    """A zero test that decides *what is computed* - a column that is skipped, an update that is left out - is an exact
    comparison.  `abs_diff_eq!(q, 0)` compares with the machine epsilon as an absolute tolerance: whether a quantity that
    scales with the data (a squared column norm, a coefficient) passes it depends on the unit the data is measured in, so the
    fitted model is not the scaled model of the scaled data."""
    def rule(ctx):
        res = RuleResult(rid, "zero tests that decide whether a column is skipped or %s is updated are exact comparisons (no absolute tolerance on a quantity that scales with the data)" % what)
        F = ctx.facts()
        n = 0
        for fn in F.all_fns():
            if not select(fn):
                continue
            c = fn["crate"]
            r = Render(c)
            key = fn_key(fn)
            ups = [id(u[0]) for u in updates_of(c, fn, acc_names)]
            seen = set()
            for y in walk(fn["body"]):
                if y.get("k") != "If":
                    continue
                kind = zero_test_kind(c, y["c"])
                if kind is None:
                    continue
                skips = any(z.get("k") == "Continue" for z in walk(y["then"]))
                updates = any(id(z) in ups for z in walk(y["then"]))
                if not (skips or updates):
                    continue
                n += 1
                txt = r.e(strip(y["c"]))[:60]
                inst = "%s : `%s` at line %s (%s)" % (key, txt, y.get("ln"), "skips the column" if skips else "guards an update")
                res.instance(inst)
                if kind == "exact":
                    res.ok()
                else:
                    what_ = "column-skip" if skips else "update-guard"
                    k2 = "%s : zero-test-with-absolute-tolerance:%s" % (key, what_)
                    if k2 in seen:
                        k2 += ":%d" % len(seen)
                    seen.add(k2)
                    res.violate(k2, "`%s` compares a quantity that scales with the data against zero with an absolute tolerance (the machine epsilon): features measured in a small unit are treated as all-zero columns / small coefficients as zero, so the fit depends on the unit" % txt, fn_loc(fn, y.get("ln")))
        if n < floor:
            res.missing_anchor("zero tests that skip a column or guard an update (found %d)" % n)
        return res.finish(floor)
    return rule
