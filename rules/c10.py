"""C10 — Gaussian mixture: precisions refreshed before a run is accepted; numerical failures propagate; log-sum-exp shifted."""
from . import layout
from .core import RuleResult
from .facts import pat_bindings, fn_key, fn_loc, fn_file, walk, strip, peel_refs, Render
from .sym import Tracer, Term, Cmp, k, as_term, walk_terms
from .taint import parent_map
from . import lse

LEVEL = ("Static analysis of linfa-clustering's Gaussian mixture: (refresh) on every path that stores the model as the best run, "
         "the precisions are recomputed from the current precision factors after the last M-step and before the copy; (err) "
         "inside everything reachable from fit, the results of Cholesky factorisation, triangular solves, min/argmin and the "
         "parameter estimation are propagated as errors, never unwrapped, and the empty-component test precedes the division "
         "by the component weights; (lse) the responsibilities' log-sum-exp exponentiates v - max(v); (posterior) everything predict and predict_proba compute "
         "is reached from reads of the mixing weights, the means and the precision factors. Necessary conditions of "
         "'precisions are the inverses of the covariances', 'failures are reported as errors' and 'membership probabilities "
         "are finite arbitrarily far from the data'. Mixture validity as numbers is not decided.")
ASSUME = ["rustc resolution/typeck; HIR faithfully dumped"]

FALLIBLE = {"cholesky", "solve_triangular_into", "solve_triangular", "min", "argmin", "estimate_gaussian_parameters",
            "compute_precisions_cholesky_full", "e_step", "m_step", "new", "fit", "inv", "solve"}
CONSUMERS_BAD = {"unwrap", "expect", "unwrap_or", "unwrap_or_default", "unwrap_or_else", "ok", "unwrap_unchecked", "is_ok", "is_err"}
ERR_ALLOW = {}


def gmm_fns(F):
    return [f for f in F.all_fns() if f["d"]["krate"] == "linfa_clustering" and fn_file(f).endswith("gaussian_mixture/algorithm.rs")]


def rule_refresh(ctx):
    res = RuleResult("R-C10-refresh", "precisions are refreshed after the last M-step and before the model is stored as the best run")
    F = ctx.facts()
    fits = [f for f in gmm_fns(F) if f["d"]["name"] == "fit" and (f["d"].get("trait") or "").endswith("Fit")]
    if not fits:
        res.missing_anchor("<GmmValidParams as Fit>::fit")
    for fn in fits:
        key = fn_key(fn)
        # private helpers (refresh_precisions_full, e_step, ..) are expanded in place, so that a helper that is inlined
        # by hand - or a block extracted into one - gives the same event stream; m_step stays a call (the anchor)
        tr = Tracer(fn, inline=ctx.inliner(keep=("m_step", "e_step", "compute_precisions_full", "compute_precisions_cholesky_full"))).run()
        # the store of the model into the best-run slot: an assignment, inside the run loop, of a clone of the model
        stores = [e for e in tr.events if e.kind == "assign" and e.loops and e.lhs.startswith("local:")]
        # the stored value must be a clone of the model local
        model_stores = []
        for e in stores:
            n = e.node["r"]
            if any(x.get("k") == "MethodCall" and x["name"] == "clone" for x in walk(n)):
                model_stores.append(e)
        if not model_stores:
            res.undecided("%s : no-best-store" % key, "no store of the model into the best-run slot found (fail closed)", fn_loc(fn))
            continue
        for e in model_stores:
            res.instance("%s : store into %s" % (key, e.lhs))
            before = [x for x in tr.events if x.kind == "call" and x.order < e.order]
            # a refresh is `<model>.precisions = compute_precisions_full(<model>.precisions_chol)` (directly or in a helper)
            refresh = [x for x in tr.events if x.order < e.order and ((x.kind == "call" and x.name.startswith("refresh_precisions")) or
                       (x.kind == "assign" and x.lhs.endswith(".precisions") and "call:compute_precisions_full(" in k(x.val) and "precisions_chol" in k(x.val)))]
            msteps = [x for x in before if x.name == "m_step"]
            if refresh and (not msteps or max(x.order for x in refresh) > max(x.order for x in msteps)) and gkeys(refresh[-1]) == gkeys(e):
                res.ok()
                res.sample({"fn": key, "order": "m_step .. refresh_precisions_full .. store"})
            elif any(((x.kind == "call" and x.name.startswith("refresh_precisions")) or (x.kind == "assign" and x.lhs.endswith(".precisions") and "call:compute_precisions_full(" in k(x.val) and "precisions_chol" in k(x.val))) and not x.loops and x.order > e.order and getattr(x, "val", None) is not None and k(e.val) in k(x.val) for x in tr.events):
                # the snapshot is refreshed once, after the run loop, where it is taken out of the best-run slot and returned:
                # what is handed out carries precisions derived from its own factors (the refresh reads the factors *of the
                # stored value*; a refresh of the working model after the loop leaves the snapshot as it was)
                res.ok()
                res.sample({"fn": key, "order": "store .. (after the runs) refresh_precisions_full .. return"})
            else:
                res.violate("%s : stale-precisions" % key, "the model is stored as the best run without refreshing `precisions` from the current `precisions_chol` after the last M-step", fn_loc(fn, e.node["ln"]))
    return res.finish(1)


def gkeys(e):
    return tuple((g[0], g[1]) for g in e.guards)


def rule_err(ctx):
    res = RuleResult("R-C10-err", "numerical failures on the fit path are propagated as errors; the empty-component test precedes the division by nk")
    F = ctx.facts()
    fns = gmm_fns(F)
    by_name = {}
    for f in fns:
        by_name.setdefault(f["d"]["name"], []).append(f)
    # fit path: fit -> new, e_step, m_step, estimate_gaussian_parameters, compute_precisions_cholesky_full, ...
    reach, todo = set(), ["fit"]
    while todo:
        n = todo.pop()
        for f in by_name.get(n, []):
            if id(f) in reach:
                continue
            if n == "fit" and not (f["d"].get("trait") or "").endswith("Fit"):
                continue
            reach.add(id(f))
            c = f["crate"]
            for x in walk(f["body"]):
                nm = None
                if x.get("k") == "MethodCall":
                    nm = x["name"]
                elif x.get("k") == "Call":
                    d = c.dfn(strip(x["f"]).get("def")) if strip(x["f"]).get("k") == "Path" else None
                    nm = d["name"] if d else None
                if nm in by_name and nm not in ("fit",):
                    todo.append(nm)
    n_sites = 0
    for f in fns:
        if id(f) not in reach:
            continue
        c = f["crate"]
        key = fn_key(f)
        pm = parent_map(f["body"])
        idx = 0
        for x in walk(f["body"]):
            nm = None
            if x.get("k") == "MethodCall":
                nm = x["name"]
            elif x.get("k") == "Call":
                d = c.dfn(strip(x["f"]).get("def")) if strip(x["f"]).get("k") == "Path" else None
                nm = d["name"] if d else None
            if nm not in FALLIBLE:
                continue
            ty = c.ty(x.get("t")) or ""
            if not ty.startswith("std::result::Result<"):
                continue
            idx += 1
            n_sites += 1
            inst = "%s : #%d Result of %s" % (key, idx, nm)
            res.instance(inst)
            # climb through value-preserving wrappers to the consumer
            cur = x
            verdict = None
            while True:
                par = pm.get(id(cur))
                if par is None:
                    verdict = "returned"
                    break
                pk = par.get("k")
                if pk == "Call":
                    d = c.dfn(strip(par["f"]).get("def")) if strip(par["f"]).get("k") == "Path" else None
                    if d and d["name"] == "branch":
                        verdict = "?"
                        break
                    verdict = "passed to %s" % (d["name"] if d else "?")
                    break
                if pk == "MethodCall" and par["recv"] is cur:
                    if par["name"] in CONSUMERS_BAD:
                        verdict = "bad:" + par["name"]
                        break
                    if par["name"] in ("map_err", "map", "and_then", "or_else"):
                        cur = par
                        continue
                    verdict = "method " + par["name"]
                    break
                if pk in ("Block", "Semi", "Ref"):
                    if pk == "Block" and par.get("e") is not cur:
                        verdict = "bad:discarded"
                        break
                    if pk == "Semi":
                        verdict = "bad:discarded"
                        break
                    cur = par
                    continue
                if pk in ("Ret", "Match", "LetStmt", "If"):
                    verdict = pk
                    break
                verdict = pk
                break
            if verdict and verdict.startswith("bad:") and (key, nm) not in ERR_ALLOW:
                res.violate("%s : %s-%s" % (key, nm, verdict[4:]), "the Result of `%s` is consumed by `%s` instead of being propagated: a numerical failure becomes a panic or is ignored" % (nm, verdict[4:]), fn_loc(f, x.get("ln")))
            else:
                res.ok()
                res.sample({"site": inst, "consumer": verdict})
    # empty-component test precedes the division by nk
    for f in by_name.get("estimate_gaussian_parameters", []):
        key = fn_key(f)
        tr = DivTracer(f, inline=ctx.inliner()).run()      # a guard extracted into a private helper (`Self::check_no_empty_cluster(&nk)?`) is read in place
        rets = [e for e in tr.events if e.kind == "ret" and as_term(e.val) is not None and as_term(e.val).is_call("Err")]
        divs = [e for e in tr.events if e.kind == "div"]
        res.instance("%s : empty-component test before division by nk" % key)
        mins = [e for e in tr.events if e.kind == "call" and e.name == "min" and e.method and e.order < (min(x.order for x in rets) if rets else 0)]
        raw = [e for e in mins if as_term(e.recv) is not None and as_term(e.recv).is_call("sum_axis")]
        if rets and divs and min(e.order for e in rets) < min(e.order for e in divs) and any("call:min(" in g[1] for e in rets for g in e.guards):
            if mins and not raw:
                res.violate("%s : empty-cluster-guard-on-floored-mass" % key, "the empty-component test reads `%s`, not the raw column sums of the responsibilities: once a floor has been added to the mass the test `min < eps` can never fire and an emptied component is returned as a model" % k(mins[0].recv)[:80], fn_loc(f, mins[0].node["ln"]))
            else:
                res.ok()
        elif _guard_in_helper(f, divs):
            res.ok()        # `Self::check_no_empty_cluster(&nk)?` before the division: the helper returns Err under a test of the minimum
        else:
            res.violate("%s : empty-cluster-guard" % key, "no `nk.min() < eps -> return Err(EmptyCluster)` test before the division by the component weights", fn_loc(f))
    return res.finish(8)


def _guard_in_helper(f, divs):
    """a `?` on a call of a function of the same crate, ahead of the first division, whose body returns Err under a test of
    the minimum of its argument"""
    c = f["crate"]
    first_div = min([e.node.get("ln") or 10 ** 9 for e in divs] or [10 ** 9])
    for y in walk(f["body"]):
        if y.get("k") == "Match" and y.get("src") == "TryDesugar" and (y.get("ln") or 0) <= first_div:
            sc = strip(y["scrut"])
            inner = strip(sc["args"][0]) if sc.get("k") == "Call" and sc.get("args") else None
            if inner is None or inner.get("k") not in ("Call", "MethodCall"):
                continue
            di = strip(inner["f"]).get("inst", strip(inner["f"]).get("def")) if inner["k"] == "Call" else inner.get("inst", inner.get("def"))
            g = next((h for h in c.fns if h["def"] == di), None)
            if g is None and inner["k"] == "Call":
                g = next((h for h in c.fns if h["def"] == strip(inner["f"]).get("def")), None)
            if g is None or g is f:
                continue
            tr = DivTracer(g).run()
            rets = [e for e in tr.events if e.kind == "ret" and as_term(e.val) is not None and as_term(e.val).is_call("Err")]
            if any("call:min(" in g_[1] for e in rets for g_ in e.guards):
                return True
    return False


class DivTracer(Tracer):
    def ev_Binary(self, n):
        if n["op"] == "/":
            l = self.ev(n["l"])
            r = self.ev(n["r"])
            self.emit("div", l=l, r=r, node=n)
            return Term("bin:/", (l, r))
        return Tracer.ev_Binary(self, n)


def rule_lse(ctx):
    res = RuleResult("R-LSE", "log-sum-exp of the responsibilities exponentiates v - max(v)")
    F = ctx.facts()
    lse.run(res, F, lambda fn: fn["d"]["krate"] == "linfa_clustering" and fn_file(fn).endswith("gaussian_mixture/algorithm.rs"))
    return res.finish(1)


PARAM_FIELDS = ("weights", "means", "precisions_chol")


def rule_posterior(ctx):
    """predict / predict_proba are functions of the posterior, which depends on the mixing weights, the means and the
    precision factors: the code reachable from each of them must read all three. A prediction computed from the bare
    component densities (without the weights) is the maximum-likelihood component, not one of maximal probability."""
    res = RuleResult("R-C10-posterior", "predict and predict_proba reach reads of the mixing weights, the means and the precision factors (the posterior depends on all three)")
    F = ctx.facts()
    fns = gmm_fns(F)
    by_name = {}
    for f in fns:
        by_name.setdefault(f["d"]["name"], []).append(f)
    getters = {}
    direct = {}
    for f in fns:
        c = f["crate"]
        self_local = None
        for p_ in f["params"]:
            if p_.get("k") == "Bind" and p_["name"] == "self":
                self_local = p_["local"]
        reads = set()
        for x in walk(f["body"]):
            if x.get("k") == "Field" and x["name"] in PARAM_FIELDS and peel_refs(x["e"]).get("local") == self_local and self_local is not None:
                reads.add(x["name"])
        direct[id(f)] = reads

    def callees(f):
        c = f["crate"]
        out = []
        for x in walk(f["body"]):
            nm = None
            if x.get("k") == "MethodCall":
                d = c.dfn(x.get("def"))
                if d is not None and d["krate"] == "linfa_clustering":
                    nm = x["name"]
            elif x.get("k") == "Call":
                d = c.dfn(strip(x["f"]).get("def")) if strip(x["f"]).get("k") == "Path" else None
                if d is not None and d["krate"] == "linfa_clustering":
                    nm = d["name"]
            if nm in by_name:
                out.extend(by_name[nm])
        return out

    def reach_reads(f):
        seen, todo, reads = set(), [f], set()
        while todo:
            g = todo.pop()
            if id(g) in seen:
                continue
            seen.add(id(g))
            reads |= direct[id(g)]
            todo.extend(callees(g))
        return reads, len(seen)

    entries = [f for f in fns if (f["d"]["name"] == "predict_inplace" and (f["d"].get("trait") or "").endswith("PredictInplace")) or f["d"]["name"] == "predict_proba"]
    if len(entries) < 2:
        res.missing_anchor("GaussianMixtureModel::predict_proba and <GaussianMixtureModel as PredictInplace>::predict_inplace (found %d)" % len(entries))
    for f in entries:
        key = fn_key(f)
        reads, nf = reach_reads(f)
        for fld in PARAM_FIELDS:
            res.instance("%s : reaches a read of self.%s" % (key, fld))
            if fld in reads:
                res.ok()
            else:
                res.violate("%s : ignores:%s" % (key, fld), "nothing reachable from `%s` (%d functions) reads `self.%s`: the result cannot be the posterior membership, which depends on it" % (f["d"]["name"], nf, fld), fn_loc(f))
        res.sample({"entry": key, "functions_reached": nf, "reads": sorted(reads)})
    return res.finish(6)


rule_memorder = layout.make_rule("R-C10-memorder", "raw memory-order buffers (as_slice_memory_order, into_raw_vec, as_ptr) of observations and responsibilities are used by position only behind an is_standard_layout() test", lambda f: f["d"]["krate"] == "linfa_clustering" and "gaussian_mixture" in fn_file(f), "linfa-clustering gaussian_mixture")

def rule_incumbent(ctx):
    """best-of-n selection (restarts, initialisation candidates): the incumbent cost is updated together with the state it belongs to"""
    from . import extrema
    res = RuleResult("R-C10-incumbent", "a best-of-n loop that saves state when a candidate beats the incumbent also updates the incumbent (Gaussian mixture)")
    F = ctx.facts()
    fns = [f for f in F.all_fns() if f["d"]["krate"] == "linfa_clustering" and "gaussian_mixture" in fn_file(f)]
    n = 0
    for fn in fns:
        for s_ in extrema.incumbents(fn):
            n += 1
            key = fn_key(fn)
            res.instance("%s : incumbent `%s` (%s) guards the saving of %s" % (key, s_["best_name"], s_["evidence"], s_["saved"]))
            if s_["updated"]:
                res.ok()
            else:
                res.violate("%s : incumbent-not-updated:%s" % (key, s_["best_name"]), "`%s` is compared with every candidate and %s is saved when the candidate wins, but `%s` itself is never assigned in the loop: every candidate is compared with the first one, so a later, worse candidate replaces a better one saved before it" % (s_["best_name"], ", ".join(s_["saved"]), s_["best_name"]), fn_loc(fn, s_["node"]["ln"]))
    res.instance("%d functions of Gaussian mixture scanned, %d best-of-n tests" % (len(fns), n))
    if fns:
        res.ok()
    else:
        res.missing_anchor("functions of Gaussian mixture")
    return res.finish(1)


def rule_reg(ctx):
    """'covariances whose diagonal includes the configured regularisation': reg_covar is added to the diagonal of the
    *normalised* scatter matrix.  Added before the division by the component mass, it is divided too and the diagonal
    carries reg_covar / n_k, which vanishes for heavy components - the guard against singular covariances is gone."""
    res = RuleResult("R-C10-reg", "reg_covar is added to the covariance diagonal after the normalisation by the component mass: nothing rescales the block afterwards")
    F = ctx.facts()
    fns = [f for f in F.all_fns() if f["d"]["krate"] == "linfa_clustering" and f["d"]["name"] == "estimate_gaussian_covariances_full"]
    if not fns:
        res.missing_anchor("GaussianMixtureModel::estimate_gaussian_covariances_full")
    for fn in fns:
        c = fn["crate"]
        key = fn_key(fn)
        regs = [b["local"] for p_ in fn["params"] for b in pat_bindings(p_) if "reg" in b["name"]]
        # the regularisation parameter is the scalar float parameter (identified by type, the name is only a hint)
        scal = [b["local"] for i_, p_ in enumerate(fn["params"]) for b in pat_bindings(p_) if (fn["inputs"][i_] if i_ < len(fn["inputs"]) else "").strip() in ("F", "f64", "f32")]
        reg = set(scal) or set(regs)
        found = False
        for blk in walk(fn["body"]):
            if blk.get("k") != "Block":
                continue
            stmts = blk["stmts"] + ([blk["e"]] if blk.get("e") else [])
            for i, st in enumerate(stmts):
                uses_reg = any(y.get("k") == "Path" and y.get("local") in reg for y in walk(st))
                on_diag = any(y.get("k") == "MethodCall" and y["name"] in ("diag_mut", "diag") for y in walk(st))
                if not (uses_reg and on_diag):
                    continue
                found = True
                # the local whose diagonal is regularised
                tgt = None
                for y in walk(st):
                    if y.get("k") == "MethodCall" and y["name"] in ("diag_mut", "diag"):
                        t = peel_refs(y["recv"])
                        if t.get("k") == "Path" and "local" in t:
                            tgt = t["local"]
                res.instance("%s : regularisation of the diagonal" % key)
                later = None
                for st2 in stmts[i + 1:]:
                    for y in walk(st2):
                        if y.get("k") == "AssignOp" and y["op"] in ("/", "*") and peel_refs(y["l"]).get("local") == tgt:
                            later = y
                        if y.get("k") == "MethodCall" and y["name"] in ("mapv_inplace", "map_inplace") and peel_refs(y["recv"]).get("local") == tgt and any(z.get("k") == "Binary" and z["op"] in ("/", "*") for z in walk(y)):
                            later = y
                if later is not None:
                    res.violate("%s : regularisation-rescaled" % key, "the covariance block is multiplied / divided after reg_covar was added to its diagonal: the diagonal then carries reg_covar / n_k instead of reg_covar", fn_loc(fn, later["ln"]))
                else:
                    res.ok()
        if not found:
            res.instance("%s : regularisation of the diagonal" % key)
            res.undecided("%s : regularisation-not-found" % key, "no statement adding the regularisation to a diagonal found", fn_loc(fn))
    return res.finish(1)


def _tparity(e, is_base):
    """number of transpositions (mod 2) between a base matrix and expression e, or None if e is not a (transposed) view of it"""
    par = 0
    e = peel_refs(e)
    while isinstance(e, dict):
        if is_base(e):
            return par
        if e.get("k") == "MethodCall" and not e["args"]:
            if e["name"] in ("t", "reversed_axes"):
                par ^= 1
            elif e["name"] not in ("view", "to_owned", "reborrow", "into_owned", "clone", "view_mut", "into_dimensionality", "unwrap", "as_standard_layout"):
                return None
            e = peel_refs(e["recv"])
            continue
        return None
    return None


def rule_orient(ctx):
    """precisions_chol stores, per component, a triangular factor P of the precision matrix; the one place that writes it
    and the two places that read it must agree on which of the two factors it is.  With sol = L^-1 (triangular solve
    of the lower Cholesky factor of the covariance against the identity): precision = sol^T . sol.  If the writer
    stores P = sol^T, the precision is P . P^T and the Mahalanobis term is |(x - mu) . P|^2; if it stores P = sol, they
    are P^T . P and |(x - mu) . P^T|^2.  Transposition parities are read from the three sites and compared."""
    res = RuleResult("R-C10-orient", "the factor stored in precisions_chol (writer) and its uses in compute_precisions_full and estimate_log_gaussian_prob (readers) agree on its orientation")
    F = ctx.facts()
    fns = {f["d"]["name"]: f for f in F.all_fns() if f["d"]["krate"] == "linfa_clustering" and "gaussian_mixture" in fn_file(f)}
    w = fns.get("compute_precisions_cholesky_full")
    r1 = fns.get("compute_precisions_full")
    r2 = fns.get("estimate_log_gaussian_prob")
    for nm, f in (("compute_precisions_cholesky_full", w), ("compute_precisions_full", r1), ("estimate_log_gaussian_prob", r2)):
        if f is None:
            res.missing_anchor("GaussianMixtureModel::%s" % nm)
    if w is None or r1 is None or r2 is None:
        return res.finish(3)
    # ---- writer: <result>.slice_mut(..).assign(&E), E a (transposed) view of the local holding the triangular solve
    sol_locals = set()
    lower = None
    for n in walk(w["body"]):
        if n.get("k") == "LetStmt" and n.get("init") is not None and n["pat"].get("k") == "Bind":
            calls = [x for x in walk(n["init"]) if x.get("k") == "MethodCall" and x["name"] in ("solve_triangular_into", "solve_triangular", "solve_triangular_inplace")]
            if calls:
                sol_locals.add(n["pat"]["local"])
                r_ = Render(w["crate"])
                lower = "Lower" in r_.e(calls[0]["args"][-1]) if calls[0]["args"] else None
                chol = [x for x in walk(n["init"]) if x.get("k") == "MethodCall" and x["name"] in ("cholesky", "cholesky_into")]
                if not chol:
                    # `let decomp = covariance.cholesky()?; let sol = decomp.solve_triangular_into(..)?;`
                    for z in walk(n["init"]):
                        if z.get("k") == "Path" and "local" in z:
                            for m_ in walk(w["body"]):
                                if m_.get("k") == "LetStmt" and m_.get("init") is not None and m_["pat"].get("k") == "Bind" and m_["pat"]["local"] == z["local"]:
                                    chol += [x for x in walk(m_["init"]) if x.get("k") == "MethodCall" and x["name"] in ("cholesky", "cholesky_into")]
                if not chol:
                    lower = None
    wpar = None
    wln = w["line"]
    for n in walk(w["body"]):
        if n.get("k") == "MethodCall" and n["name"] == "assign" and len(n["args"]) == 1:
            pr = _tparity(n["args"][0], lambda e: e.get("k") == "Path" and e.get("local") in sol_locals)
            if pr is not None:
                wpar = pr
                wln = n["ln"]
    res.instance("%s : stored factor = sol%s (sol = triangular solve of the lower Cholesky factor against the identity)" % (fn_key(w), "^T" if wpar else ""))
    if wpar is None or not lower:
        res.undecided("%s : writer-form" % fn_key(w), "the assignment of the triangular solve into precisions_chol was not recognised", fn_loc(w, wln))
        return res.finish(3)
    res.ok()
    # ---- reader 1: precisions[k] = A . B with A, B (transposed) views of the per-component factor
    def comp_locals(fn):
        """locals bound to one component's factor: items of <param or self.precisions_chol>.outer_iter()"""
        out = set()
        for n in walk(fn["body"]):
            if n.get("k") == "Match" and n.get("src") == "ForLoopDesugar" and any(x.get("k") == "MethodCall" and x["name"] in ("outer_iter", "axis_iter") for x in walk(n["scrut"])):
                from .inplace import _pattern_for
                src = [x for x in walk(n["scrut"]) if x.get("k") == "MethodCall" and x["name"] in ("outer_iter", "axis_iter")][0]
                for x in walk(n):
                    if x.get("k") == "Match" and x is not n and x.get("src") == "ForLoopDesugar":
                        for arm in x["arms"]:
                            pp = arm["pat"]
                            sub = pp["pats"][0] if pp.get("k") == "TupleStruct" and pp.get("pats") else (pp["fields"][0]["pat"] if pp.get("k") == "Struct" and pp.get("fields") else None)
                            if sub is None:
                                continue
                            tgt = _pattern_for(n["scrut"], sub, src)
                            if tgt is not None:
                                for b in pat_bindings(tgt):
                                    out.add(b["local"])
                        break
            if n.get("k") == "MethodCall" and n["name"] in ("for_each", "par_for_each") and n["args"] and strip(n["args"][-1]).get("k") == "Closure":
                # Zip::indexed(a).and(self.precisions_chol.outer_iter()).for_each(|k, mu, prec_chol| ..)
                prods = []
                e = strip(n["recv"])
                while e.get("k") == "MethodCall" and e["name"] in ("and", "and_broadcast"):
                    prods.insert(0, e["args"][0])
                    e = strip(e["recv"])
                if e.get("k") == "Call":
                    d = fn["crate"].dfn(strip(e["f"]).get("def")) if strip(e["f"]).get("k") == "Path" else None
                    head = [None, e["args"][0]] if d and d["name"] == "indexed" else [e["args"][0]]
                    prods = head + prods
                clo = strip(n["args"][-1])
                for i_, p_ in enumerate(prods):
                    if p_ is not None and i_ < len(clo["params"]) and any(x.get("k") == "Field" and x["name"] == "precisions_chol" for x in walk(p_)):
                        for b in pat_bindings(clo["params"][i_]):
                            out.add(b["local"])
        return out
    c1 = comp_locals(r1)
    found1 = False
    for n in walk(r1["body"]):
        if n.get("k") == "MethodCall" and n["name"] == "dot" and len(n["args"]) == 1:
            base = lambda e: e.get("k") == "Path" and e.get("local") in c1
            pa, pb = _tparity(n["recv"], base), _tparity(n["args"][0], base)
            if pa is None or pb is None:
                continue
            found1 = True
            res.instance("%s : precision = P%s . P%s" % (fn_key(r1), "^T" if pa else "", "^T" if pb else ""))
            # in terms of sol: A = sol^(w+pa), B = sol^(w+pb); the precision is sol^T . sol
            if (wpar + pa) % 2 == 1 and (wpar + pb) % 2 == 0:
                res.ok()
            else:
                res.violate("%s : precision-orientation" % fn_key(r1), "with the stored factor P = sol%s the product P%s . P%s is %s, not the precision sol^T . sol = (L L^T)^-1: precisions() is not the inverse of covariances()" % ("^T" if wpar else "", "^T" if pa else "", "^T" if pb else "", "sol%s . sol%s" % ("^T" if (wpar + pa) % 2 else "", "^T" if (wpar + pb) % 2 else "")), fn_loc(r1, n["ln"]))
    if not found1:
        res.instance("%s : product of the factor with its transpose" % fn_key(r1))
        res.undecided("%s : reader-form" % fn_key(r1), "the product forming the precision matrix from the stored factor was not recognised", fn_loc(r1))
    # ---- reader 2: (x - mu) . M
    c2 = comp_locals(r2)
    found2 = False
    for n in walk(r2["body"]):
        if n.get("k") == "MethodCall" and n["name"] == "dot" and len(n["args"]) == 1:
            base = lambda e: e.get("k") == "Path" and e.get("local") in c2
            pm = _tparity(n["args"][0], base)
            if pm is None:
                continue
            found2 = True
            res.instance("%s : Mahalanobis term |(x - mu) . P%s|^2" % (fn_key(r2), "^T" if pm else ""))
            if (wpar + pm) % 2 == 1:
                res.ok()
            else:
                res.violate("%s : mahalanobis-orientation" % fn_key(r2), "with the stored factor P = sol%s the rows (x - mu) are multiplied by sol instead of sol^T: the quadratic form is (x - mu) sol sol^T (x - mu)^T, which is not the Mahalanobis distance" % ("^T" if wpar else ""), fn_loc(r2, n["ln"]))
    if not found2:
        res.instance("%s : product of the centred rows with the factor" % fn_key(r2))
        res.undecided("%s : reader-form" % fn_key(r2), "the product of the centred observations with the stored factor was not recognised", fn_loc(r2))
    return res.finish(3)


def rule_precpaths(ctx):
    """`precisions_chol` is (n_clusters, d, d).  The precision of a component is the matrix product of its factor with its
    transpose; the element-wise square is that product only for d = 1.  A shortcut that takes the element-wise square is
    therefore keyed on the extent of axis 1 or 2 - keyed on axis 0 (the number of *components*) it fires for one-component
    mixtures of any dimension."""
    res = RuleResult("R-C10-precpaths", "compute_precisions_full takes no path without the matrix product unless it is keyed on the feature extent (axes 1, 2) of the factor array")
    F = ctx.facts()
    fns = [f for f in gmm_fns(F) if f["d"]["name"] == "compute_precisions_full"]
    if not fns:
        res.missing_anchor("compute_precisions_full")
    for fn in fns:
        c = fn["crate"]
        r = Render(c)
        key = fn_key(fn)
        res.instance(key)
        pos0 = set()
        for y in walk(fn["body"]):
            if y.get("k") == "LetStmt" and y.get("init") is not None and y["pat"].get("k") == "Tuple" and any(z.get("k") == "MethodCall" and z["name"] in ("dim", "raw_dim") for z in [peel_refs(y["init"])]):
                for b in pat_bindings(y["pat"]["pats"][0]):
                    pos0.add(b["local"])
            if y.get("k") == "LetStmt" and y.get("init") is not None and y["pat"].get("k") == "Bind":
                i0 = peel_refs(y["init"])
                if i0.get("k") == "MethodCall" and ((i0["name"] == "len_of" and any(str(peel_refs(w).get("v")) == "0" for a in i0["args"] for w in walk(a) if peel_refs(w).get("k") == "Lit")) or i0["name"] in ("len_of_axis0",)):
                    pos0.add(y["pat"]["local"])
                if i0.get("k") == "Field" and i0["name"] == "0" and peel_refs(i0["e"]).get("k") == "MethodCall" and peel_refs(i0["e"])["name"] == "dim":
                    pos0.add(y["pat"]["local"])
        bad = None
        for y in walk(fn["body"]):
            if y.get("k") == "If" and any(z.get("k") == "Ret" for z in walk(y["then"])):
                rets = [z for z in walk(y["then"]) if z.get("k") == "Ret" and z.get("e") is not None]
                no_product = [z for z in rets if not any(w.get("k") == "MethodCall" and w["name"] in ("dot", "general_mat_mul") for w in walk(z["e"]))]
                keyed0 = any(w.get("k") == "Path" and w.get("local") in pos0 for w in walk(y["c"])) or any(w.get("k") == "Field" and w["name"] == "0" and peel_refs(w["e"]).get("k") == "MethodCall" and peel_refs(w["e"])["name"] == "dim" for w in walk(y["c"]))
                if no_product and keyed0:
                    bad = (y, no_product[0])
        if bad:
            res.violate("%s : shortcut-keyed-on-component-count" % key, "`%s` returns `%s` without the matrix product, under a test of the extent of axis 0 - the number of components, not of features: a one-component mixture of any dimension gets element-wise squares for its precision matrix" % (r.e(bad[0]["c"])[:40], r.e(bad[1]["e"])[:40]), fn_loc(fn, bad[0].get("ln")))
        else:
            res.ok()
    return res.finish(1)


def rule_covcentred(ctx):
    """The weighted covariance of a component is sum r_i (x_i - mu)(x_i - mu)^T: both factors centred.  With one factor left
    raw the sum is the same in exact arithmetic (weighted deviations sum to zero) and asymmetric by eps * |mu|^2 in floating
    point; the Cholesky factorisation reads one triangle, so precisions and covariances describe different matrices."""
    res = RuleResult("R-C10-covcentred", "both factors of the covariance product in estimate_gaussian_covariances_full are centred")
    F = ctx.facts()
    fns = [f for f in gmm_fns(F) if f["d"]["name"] == "estimate_gaussian_covariances_full"]
    if not fns:
        res.missing_anchor("estimate_gaussian_covariances_full")
    for fn in fns:
        c = fn["crate"]
        r = Render(c)
        key = fn_key(fn)
        res.instance(key)
        params = {b["local"]: b["name"] for p_ in fn["params"] for b in pat_bindings(p_)}
        inits = {}
        for y in walk(fn["body"]):
            if y.get("k") == "LetStmt" and y.get("init") is not None and y["pat"].get("k") == "Bind":
                inits[y["pat"]["local"]] = y["init"]

        def centred(e, depth=0):
            for z in walk(e):
                if z.get("k") == "Binary" and z["op"] == "-" and any(w.get("k") == "MethodCall" and w["name"] in ("row", "index_axis") for w in walk(z["r"])):
                    return True
                if z.get("k") == "Path" and z.get("local") in inits and depth < 4 and centred(inits[z["local"]], depth + 1):
                    return True
            return False

        def raw(e):
            e = peel_refs(e)
            while e.get("k") == "MethodCall" and e["name"] in ("view", "t", "reversed_axes", "to_owned"):
                e = peel_refs(e["recv"])
            return e.get("k") == "Path" and e.get("local") in params
        dots = [y for y in walk(fn["body"]) if y.get("k") == "MethodCall" and y["name"] == "dot" and len(y["args"]) == 1]
        if not dots:
            res.undecided("%s : product" % key, "no `.dot(..)` forming the covariance (fail closed)", fn_loc(fn))
            continue
        bad = next((y for y in dots if (centred(y["recv"]) and raw(y["args"][0])) or (raw(y["recv"]) and centred(y["args"][0]))), None)
        if bad is not None:
            res.violate("%s : covariance-half-centred" % key, "`%s` multiplies centred data with the raw observations: equal to the centred product in exact arithmetic only - the result is asymmetric by eps * |mean|^2, and the Cholesky factor (which reads one triangle) belongs to another matrix than the stored covariance" % r.e(bad)[:60], fn_loc(fn, bad.get("ln")))
        else:
            res.ok()
    return res.finish(1)


def rule_mixweights(ctx):
    """The mixing weights are column sums of the responsibilities divided by the number of samples: they sum to one because
    every row of the responsibilities does (exp of log-responsibilities normalised by the row's log-sum-exp).  What is
    handed to the parameter estimation is therefore that matrix and nothing rescaled - or the divisor is the sum of the
    column sums."""
    res = RuleResult("R-C10-mixweights", "the mixing weights are normalised by a divisor that matches the responsibilities they are summed from (row-stochastic matrix / sample count, or column sums / their sum)")
    F = ctx.facts()
    fns = [f for f in gmm_fns(F) if f["d"]["name"] == "m_step"]
    if not fns:
        res.missing_anchor("GaussianMixtureModel::m_step")
    for fn in fns:
        c = fn["crate"]
        r = Render(c)
        key = fn_key(fn)
        res.instance(key)
        inits = {}
        for y in walk(fn["body"]):
            if y.get("k") == "LetStmt" and y.get("init") is not None and y["pat"].get("k") == "Bind":
                inits[y["pat"]["local"]] = y["init"]
        asg = next((y for y in walk(fn["body"]) if y.get("k") == "Assign" and peel_refs(y["l"]).get("k") == "Field" and peel_refs(y["l"])["name"] == "weights"), None)
        call = next((y for y in walk(fn["body"]) if y.get("k") == "Call" and (c.dfn(strip(y["f"]).get("def")) or {}).get("name") == "estimate_gaussian_parameters"), None)
        if asg is None or call is None or len(call["args"]) < 2:
            res.undecided("%s : shape" % key, "the store of the mixing weights / the call of estimate_gaussian_parameters was not found (fail closed)", fn_loc(fn))
            continue
        rhs = peel_refs(asg["r"])
        if rhs.get("k") != "Binary" or rhs["op"] != "/":
            res.undecided("%s : weights-form" % key, "`%s` is not a quotient (fail closed)" % r.e(rhs)[:40], fn_loc(fn, asg.get("ln")))
            continue
        den = rhs["r"]

        def mentions(e, names, depth=0):
            for y in walk(e):
                if y.get("k") == "MethodCall" and y["name"] in names:
                    return True
                if y.get("k") == "Path" and y.get("local") in inits and depth < 3 and mentions(inits[y["local"]], names, depth + 1):
                    return True
            return False
        if mentions(den, ("sum",)):
            res.ok()
            continue
        if not mentions(den, ("nrows", "nsamples", "len_of")):
            res.undecided("%s : divisor" % key, "`%s`: neither the sample count nor a sum (fail closed)" % r.e(den)[:40], fn_loc(fn, asg.get("ln")))
            continue
        resp = peel_refs(call["args"][1])
        loc = resp.get("local") if resp.get("k") == "Path" else None
        scaled = None
        if loc is not None:
            for y in walk(fn["body"]):
                if y.get("k") == "AssignOp" and peel_refs(y["l"]).get("local") == loc:
                    scaled = y
                if y.get("k") == "MethodCall" and peel_refs(y["recv"]).get("local") == loc and y["name"] in ("mul_assign", "div_assign", "add_assign", "sub_assign", "zip_mut_with", "mapv_inplace", "map_inplace", "scaled_add", "assign", "fill", "axis_iter_mut", "rows_mut", "columns_mut", "iter_mut", "outer_iter_mut"):
                    scaled = y
            resp = peel_refs(inits.get(loc, resp))
        if scaled is None:
            for y in walk(resp):
                if y.get("k") == "Binary" and y["op"] in ("*", "/", "+", "-"):
                    scaled = y
        if scaled is not None:
            res.violate("%s : responsibilities-rescaled" % key, "the responsibilities handed to the parameter estimation are rescaled (`%s`) - their rows no longer sum to one - while the mixing weights are still their column sums divided by the number of samples: the weights of the fitted mixture do not sum to one" % r.e(scaled)[:50], fn_loc(fn, scaled.get("ln")))
        else:
            res.ok()
    return res.finish(1)


def rules(tier):
    from . import carry, c04
    from . import extrema
    from . import precision
    from . import inplace, blockmean
    gmm = lambda f: f["d"]["krate"] == "linfa_clustering" and ("GaussianMixture" in (f["d"].get("self_adt") or "") or "gaussian_mixture" in f["d"]["path"])
    return [inplace.make_rule("R-C10-overwrite", lambda f: f["d"]["krate"] == "linfa_clustering" and "GaussianMixture" in (f["d"].get("self_adt") or ""), 1, "the Gaussian mixture model"),
            blockmean.make_offset_rule("R-C10-blockoffset", gmm, "the Gaussian mixture code"),
            rule_precpaths, rule_covcentred, rule_mixweights, rule_refresh, rule_err, rule_lse, rule_posterior, rule_memorder, rule_incumbent, rule_orient, rule_reg,
            carry.make_clone_rule("R-C10-clone", {"linfa_clustering"}, 10), carry.make_setter_rule("R-C10-override", {"linfa_clustering"}, 10), c04.make_carry_rule("R-C10-carry", {"GmmParams"}, 6),
            extrema.make_rule("R-C10-extrema", "the row maximum the mixture's log-sum-exp is shifted by is a real maximum: the fold starts from -infinity / min_value or from data", lambda f: f["d"]["krate"] == "linfa_clustering" and "gaussian_mixture" in f["d"]["path"] + " " + (f["d"].get("self_adt") or "") or (f["d"]["krate"] == "linfa_clustering" and "GaussianMixture" in (f["d"].get("self_adt") or "")), 1, "the max fold of the log-sum-exp shift in GaussianMixtureModel"),
            precision.make_rule("R-C10-precision", lambda f: f["d"]["krate"] == "linfa_clustering" and any(x in f["d"]["path"] + " " + (f["d"].get("self_adt") or "") for x in ("gaussian_mixture", "GaussianMixture", "Gmm")), 35, "linfa-clustering gaussian_mixture"),
            carry.make_accessor_rule("R-C10-accessor", {"linfa_clustering"}, 10), carry.make_ctor_rule("R-C10-ctor", {"linfa_clustering"}, 4)]
