"""C10 — Gaussian mixture: precisions refreshed before a run is accepted; numerical failures propagate; log-sum-exp shifted."""
from .core import RuleResult
from .facts import fn_key, fn_loc, fn_file, walk, strip, peel_refs, Render
from .sym import Tracer, Term, Cmp, k, as_term, walk_terms
from .taint import parent_map
from . import lse

LEVEL = ("Static analysis of linfa-clustering's Gaussian mixture: (refresh) on every path that stores the model as the best run, "
         "the precisions are recomputed from the current precision factors after the last M-step and before the copy; (err) "
         "inside everything reachable from fit, the results of Cholesky factorisation, triangular solves, min/argmin and the "
         "parameter estimation are propagated as errors, never unwrapped, and the empty-component test precedes the division "
         "by the component weights; (lse) the responsibilities' log-sum-exp exponentiates v - max(v); (posterior) everything predict and predict_proba compute "
         "is reached from reads of the mixing weights, the means and the precision factors. Necessary conditions of "
         "'precisions are the inverses of the covariances', 'failures are reported as errors' and 'membership probabilities "
         "are finite arbitrarily far from the data'. Mixture validity as numbers is not decided.")
ASSUME = ["rustc resolution/typeck; HIR faithfully dumped"]

FALLIBLE = {"cholesky", "solve_triangular_into", "solve_triangular", "min", "argmin", "estimate_gaussian_parameters",
            "compute_precisions_cholesky_full", "e_step", "m_step", "new", "fit", "inv", "solve"}
CONSUMERS_BAD = {"unwrap", "expect", "unwrap_or", "unwrap_or_default", "unwrap_or_else", "ok", "unwrap_unchecked", "is_ok", "is_err"}
ERR_ALLOW = {}


def gmm_fns(F):
    return [f for f in F.all_fns() if f["d"]["krate"] == "linfa_clustering" and fn_file(f).endswith("gaussian_mixture/algorithm.rs")]


def rule_refresh(ctx):
    res = RuleResult("R-C10-refresh", "precisions are refreshed after the last M-step and before the model is stored as the best run")
    F = ctx.facts()
    fits = [f for f in gmm_fns(F) if f["d"]["name"] == "fit" and (f["d"].get("trait") or "").endswith("Fit")]
    if not fits:
        res.missing_anchor("<GmmValidParams as Fit>::fit")
    for fn in fits:
        key = fn_key(fn)
        # private helpers (refresh_precisions_full, e_step, ..) are expanded in place, so that a helper that is inlined
        # by hand - or a block extracted into one - gives the same event stream; m_step stays a call (the anchor)
        tr = Tracer(fn, inline=ctx.inliner(keep=("m_step", "e_step", "compute_precisions_full", "compute_precisions_cholesky_full"))).run()
        # the store of the model into the best-run slot: an assignment, inside the run loop, of a clone of the model
        stores = [e for e in tr.events if e.kind == "assign" and e.loops and e.lhs.startswith("local:")]
        # the stored value must be a clone of the model local
        model_stores = []
        for e in stores:
            n = e.node["r"]
            if any(x.get("k") == "MethodCall" and x["name"] == "clone" for x in walk(n)):
                model_stores.append(e)
        if not model_stores:
            res.undecided("%s : no-best-store" % key, "no store of the model into the best-run slot found (fail closed)", fn_loc(fn))
            continue
        for e in model_stores:
            res.instance("%s : store into %s" % (key, e.lhs))
            before = [x for x in tr.events if x.kind == "call" and x.order < e.order]
            # a refresh is `<model>.precisions = compute_precisions_full(<model>.precisions_chol)` (directly or in a helper)
            refresh = [x for x in tr.events if x.order < e.order and ((x.kind == "call" and x.name.startswith("refresh_precisions")) or
                       (x.kind == "assign" and x.lhs.endswith(".precisions") and "call:compute_precisions_full(" in k(x.val) and "precisions_chol" in k(x.val)))]
            msteps = [x for x in before if x.name == "m_step"]
            if refresh and (not msteps or max(x.order for x in refresh) > max(x.order for x in msteps)) and gkeys(refresh[-1]) == gkeys(e):
                res.ok()
                res.sample({"fn": key, "order": "m_step .. refresh_precisions_full .. store"})
            else:
                res.violate("%s : stale-precisions" % key, "the model is stored as the best run without refreshing `precisions` from the current `precisions_chol` after the last M-step", fn_loc(fn, e.node["ln"]))
    return res.finish(1)


def gkeys(e):
    return tuple((g[0], g[1]) for g in e.guards)


def rule_err(ctx):
    res = RuleResult("R-C10-err", "numerical failures on the fit path are propagated as errors; the empty-component test precedes the division by nk")
    F = ctx.facts()
    fns = gmm_fns(F)
    by_name = {}
    for f in fns:
        by_name.setdefault(f["d"]["name"], []).append(f)
    # fit path: fit -> new, e_step, m_step, estimate_gaussian_parameters, compute_precisions_cholesky_full, ...
    reach, todo = set(), ["fit"]
    while todo:
        n = todo.pop()
        for f in by_name.get(n, []):
            if id(f) in reach:
                continue
            if n == "fit" and not (f["d"].get("trait") or "").endswith("Fit"):
                continue
            reach.add(id(f))
            c = f["crate"]
            for x in walk(f["body"]):
                nm = None
                if x.get("k") == "MethodCall":
                    nm = x["name"]
                elif x.get("k") == "Call":
                    d = c.dfn(strip(x["f"]).get("def")) if strip(x["f"]).get("k") == "Path" else None
                    nm = d["name"] if d else None
                if nm in by_name and nm not in ("fit",):
                    todo.append(nm)
    n_sites = 0
    for f in fns:
        if id(f) not in reach:
            continue
        c = f["crate"]
        key = fn_key(f)
        pm = parent_map(f["body"])
        idx = 0
        for x in walk(f["body"]):
            nm = None
            if x.get("k") == "MethodCall":
                nm = x["name"]
            elif x.get("k") == "Call":
                d = c.dfn(strip(x["f"]).get("def")) if strip(x["f"]).get("k") == "Path" else None
                nm = d["name"] if d else None
            if nm not in FALLIBLE:
                continue
            ty = c.ty(x.get("t")) or ""
            if not ty.startswith("std::result::Result<"):
                continue
            idx += 1
            n_sites += 1
            inst = "%s : #%d Result of %s" % (key, idx, nm)
            res.instance(inst)
            # climb through value-preserving wrappers to the consumer
            cur = x
            verdict = None
            while True:
                par = pm.get(id(cur))
                if par is None:
                    verdict = "returned"
                    break
                pk = par.get("k")
                if pk == "Call":
                    d = c.dfn(strip(par["f"]).get("def")) if strip(par["f"]).get("k") == "Path" else None
                    if d and d["name"] == "branch":
                        verdict = "?"
                        break
                    verdict = "passed to %s" % (d["name"] if d else "?")
                    break
                if pk == "MethodCall" and par["recv"] is cur:
                    if par["name"] in CONSUMERS_BAD:
                        verdict = "bad:" + par["name"]
                        break
                    if par["name"] in ("map_err", "map", "and_then", "or_else"):
                        cur = par
                        continue
                    verdict = "method " + par["name"]
                    break
                if pk in ("Block", "Semi", "Ref"):
                    if pk == "Block" and par.get("e") is not cur:
                        verdict = "bad:discarded"
                        break
                    if pk == "Semi":
                        verdict = "bad:discarded"
                        break
                    cur = par
                    continue
                if pk in ("Ret", "Match", "LetStmt", "If"):
                    verdict = pk
                    break
                verdict = pk
                break
            if verdict and verdict.startswith("bad:") and (key, nm) not in ERR_ALLOW:
                res.violate("%s : %s-%s" % (key, nm, verdict[4:]), "the Result of `%s` is consumed by `%s` instead of being propagated: a numerical failure becomes a panic or is ignored" % (nm, verdict[4:]), fn_loc(f, x.get("ln")))
            else:
                res.ok()
                res.sample({"site": inst, "consumer": verdict})
    # empty-component test precedes the division by nk
    for f in by_name.get("estimate_gaussian_parameters", []):
        key = fn_key(f)
        tr = DivTracer(f).run()
        rets = [e for e in tr.events if e.kind == "ret" and as_term(e.val) is not None and as_term(e.val).is_call("Err")]
        divs = [e for e in tr.events if e.kind == "div"]
        res.instance("%s : empty-component test before division by nk" % key)
        mins = [e for e in tr.events if e.kind == "call" and e.name == "min" and e.method and e.order < (min(x.order for x in rets) if rets else 0)]
        raw = [e for e in mins if as_term(e.recv) is not None and as_term(e.recv).is_call("sum_axis")]
        if rets and divs and min(e.order for e in rets) < min(e.order for e in divs) and any("call:min(" in g[1] for e in rets for g in e.guards):
            if mins and not raw:
                res.violate("%s : empty-cluster-guard-on-floored-mass" % key, "the empty-component test reads `%s`, not the raw column sums of the responsibilities: once a floor has been added to the mass the test `min < eps` can never fire and an emptied component is returned as a model" % k(mins[0].recv)[:80], fn_loc(f, mins[0].node["ln"]))
            else:
                res.ok()
        else:
            res.violate("%s : empty-cluster-guard" % key, "no `nk.min() < eps -> return Err(EmptyCluster)` test before the division by the component weights", fn_loc(f))
    return res.finish(8)


class DivTracer(Tracer):
    def ev_Binary(self, n):
        if n["op"] == "/":
            l = self.ev(n["l"])
            r = self.ev(n["r"])
            self.emit("div", l=l, r=r, node=n)
            return Term("bin:/", (l, r))
        return Tracer.ev_Binary(self, n)


def rule_lse(ctx):
    res = RuleResult("R-LSE", "log-sum-exp of the responsibilities exponentiates v - max(v)")
    F = ctx.facts()
    lse.run(res, F, lambda fn: fn["d"]["krate"] == "linfa_clustering" and fn_file(fn).endswith("gaussian_mixture/algorithm.rs"))
    return res.finish(1)


PARAM_FIELDS = ("weights", "means", "precisions_chol")


def rule_posterior(ctx):
    """predict / predict_proba are functions of the posterior, which depends on the mixing weights, the means and the
    precision factors: the code reachable from each of them must read all three. A prediction computed from the bare
    component densities (without the weights) is the maximum-likelihood component, not one of maximal probability."""
    res = RuleResult("R-C10-posterior", "predict and predict_proba reach reads of the mixing weights, the means and the precision factors (the posterior depends on all three)")
    F = ctx.facts()
    fns = gmm_fns(F)
    by_name = {}
    for f in fns:
        by_name.setdefault(f["d"]["name"], []).append(f)
    getters = {}
    direct = {}
    for f in fns:
        c = f["crate"]
        self_local = None
        for p_ in f["params"]:
            if p_.get("k") == "Bind" and p_["name"] == "self":
                self_local = p_["local"]
        reads = set()
        for x in walk(f["body"]):
            if x.get("k") == "Field" and x["name"] in PARAM_FIELDS and peel_refs(x["e"]).get("local") == self_local and self_local is not None:
                reads.add(x["name"])
        direct[id(f)] = reads

    def callees(f):
        c = f["crate"]
        out = []
        for x in walk(f["body"]):
            nm = None
            if x.get("k") == "MethodCall":
                d = c.dfn(x.get("def"))
                if d is not None and d["krate"] == "linfa_clustering":
                    nm = x["name"]
            elif x.get("k") == "Call":
                d = c.dfn(strip(x["f"]).get("def")) if strip(x["f"]).get("k") == "Path" else None
                if d is not None and d["krate"] == "linfa_clustering":
                    nm = d["name"]
            if nm in by_name:
                out.extend(by_name[nm])
        return out

    def reach_reads(f):
        seen, todo, reads = set(), [f], set()
        while todo:
            g = todo.pop()
            if id(g) in seen:
                continue
            seen.add(id(g))
            reads |= direct[id(g)]
            todo.extend(callees(g))
        return reads, len(seen)

    entries = [f for f in fns if (f["d"]["name"] == "predict_inplace" and (f["d"].get("trait") or "").endswith("PredictInplace")) or f["d"]["name"] == "predict_proba"]
    if len(entries) < 2:
        res.missing_anchor("GaussianMixtureModel::predict_proba and <GaussianMixtureModel as PredictInplace>::predict_inplace (found %d)" % len(entries))
    for f in entries:
        key = fn_key(f)
        reads, nf = reach_reads(f)
        for fld in PARAM_FIELDS:
            res.instance("%s : reaches a read of self.%s" % (key, fld))
            if fld in reads:
                res.ok()
            else:
                res.violate("%s : ignores:%s" % (key, fld), "nothing reachable from `%s` (%d functions) reads `self.%s`: the result cannot be the posterior membership, which depends on it" % (f["d"]["name"], nf, fld), fn_loc(f))
        res.sample({"entry": key, "functions_reached": nf, "reads": sorted(reads)})
    return res.finish(6)


def rules(tier):
    return [rule_refresh, rule_err, rule_lse, rule_posterior]
