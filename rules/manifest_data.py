"""Single source for MANIFEST.json (bin/gen-manifest)."""

BASELINE_CMD = "cd /repo && cargo test --workspace --no-fail-fast --offline"

NOTES = ("Technique family: static analysis. A rustc_private driver (driver/, nightly, no cargo deps) is injected as "
         "RUSTC_WORKSPACE_WRAPPER under `cargo +nightly check --lib` and dumps the resolved program (typed HIR trees, MIR, "
         "ADTs, impls) of /repo's current working tree as JSON; python analysers (rules/) decide named structural clauses "
         "of each property over those facts. No linfa code is executed. Facts are cached under .cache/ keyed by a hash of "
         "the tree, so every run analyses the current sources. Genuine defects recorded in known_findings.json are printed "
         "as KNOWN-FINDING lines; see DESIGN.md.")

ENGINES = [
    {"name": "linfa-facts", "path": "driver/", "serves_properties": [], "kind_free_text": "rustc_private compiler driver: typed HIR + MIR + item facts as JSON"},
    {"name": "sym", "path": "rules/sym.py", "serves_properties": [], "kind_free_text": "symbolic value numbering over typed HIR (polynomial normal form, slice regions, guard stacks, wrapper inlining)"},
    {"name": "shared-analyses", "path": "rules/", "serves_properties": [], "kind_free_text": "influence.py (per-path data dependence), linalg.py (non-commutative normal form), calc.py (rational functions, symbolic derivative), layout.py / inplace.py / rowindex.py / stale.py / cancel.py / extrema.py / units.py / lse.py / taint.py / carry.py (value semantics of Clone and builders) / precision.py (f32 narrowing in generic-float code) (structural rules shared by several properties)"},
]

_T = "static analysis over compiler-resolved facts (typed HIR/MIR from a rustc_private driver)"

CLAIMED = {
    "C01": {
        "text": "Decides, for all (n,k) at once, necessary structural clauses of k-fold splitting: the in-place block swaps "
                "around the user closure in iter_fold are paired and undone on every path; records and targets are cut, "
                "swapped, chunked and concatenated with the same sample-space operands (fold, iter_fold, ChunksIter); the "
                "training view is the complement of the validation block; the fold size derives from a sample count and ChunksIter cuts block i as rows [i*size, (i+1)*size) and stops after "
                "len/size blocks; "
                "cross_validate accumulates once per (fold, model) and divides by k; fit/eval errors propagate. The row widths that cut the raw buffers (ntargets, nfeatures) depend on the target / record arrays on every path, never on the name lists; fold's chunk lists cover every sample (a truncated chunk sequence needs the left-over rows put back under the test 'rows are left over'). "
            "DatasetBase::nsamples depends on the records only (never on the weights). "
            "exact_chunks (which drops the short last chunk) counts as a truncated chunk sequence. "
            "Not decided: "
                "numeric block boundaries for particular (n,k), multiset equality of rows. "
                "Also decided: `fold` removes no block from the lists it cuts records and targets into (truncate / pop / drain on them is a violation: with n mod k > n / k the rows spread over more than k + 1 blocks). "
                "A validation part is never the rest of a `split_at(Axis(0), n / k)` (a two-fold shortcut that hands out both halves gives the left-over rows to a validation set). No call of a workspace function in the crates of this property passes two like-typed arguments that are named after each other's parameter (names resolved through lets to the field or accessor they were read from).",
        "design_ref": "DESIGN.md section 4, C01",
        "note": "Trusted: rustc resolution/typeck, the fact dump, documented semantics of slice::split_at_mut/swap_with_slice and ndarray selection methods.",
        "technique": _T + ": pairing/dominance of buffer permutations, sibling agreement under value numbering, dataflow of the fold size",
    },
}

CLAIMED["C02"] = {
    "text": "Decides, for all datasets and all ratios/indices at once, that every dataset operation selects its parallel containers "
            "consistently: each output container is traced through the symbolic value that builds it back to the input's five "
            "containers with the selection operations applied (select, split_at, slice, raw-buffer head/tail, index_axis, "
            "collapse_axis, in-place axis slicing, normalised to row- and column-space selectors); targets carry the records' row "
            "selector, weights carry it or are empty, names carry their container's column selector or are dropped; the label "
            "filter pushes record, target, weight and counts under one condition; per-feature/per-target iteration attaches the "
            "name at the collapsed index; the raw-buffer split of owned data is dominated by a standard-layout test; every index vector handed to select(Axis(a), ..) is a permutation of, or draws "
            "from, exactly 0..extent(a), and the ratio split point is ceil(nsamples as f32 * ratio). Raw memory-order buffers (as_slice_memory_order, into_raw_vec, as_ptr) anywhere in the dataset and composing code are used by position only behind an is_standard_layout() test (or on arrays created in the same function), and exact-chunk iteration never drops a remainder. "
            "Records::nsamples / nfeatures of an array are axis extents on every path (a (0, k) matrix has k features); binary_search never runs directly on a caller-supplied slice. "
            "CountedTargets values are built by counting the targets they wrap (CountedTargets::new, or a count incremented in the same loop that collects them, in maps that start empty); a cache taken from another container's counts is a violation, one assembled by hand is left undecided. "
            "Not decided: multiset equality of rows as values. "
            "Also decided: Iterator impls of the dataset iterators that override `nth` advance relative to the current position (a position field that `next` increments is not overwritten with a value that forgets it; any other overriding method that does not go through self.next() is left undecided); a CountedTargets cache filled from label_frequencies() - per-label sums of the sample weights - counts as taken from a foreign source. "
            "No count or index of the dataset code is narrowed to an integer type of 32 bits or fewer (or kept in a u8 / u16 counter) unless its source is bounded in the expression itself. The weights of a dataset are cut at a sample count, never at an element count (`dim.size()`, an integer product with the number of targets or features; tuple lets and local helpers followed). A binary search is not run on a sequence that the same loop appends to without sorting it again. No container of the input is indexed with an enumerate() index taken after a filter / skip / step_by / rev of the sample sequence; nothing is scattered with the indices the records are gathered with. No call of a workspace function in the crates of this property passes two like-typed arguments that are named after each other's parameter (names resolved through lets to the field or accessor they were read from).",
    "design_ref": "DESIGN.md section 4, C02",
    "note": "Trusted: rustc resolution/typeck, the fact dump, documented semantics of ndarray selection methods and Vec::split_off.",
    "technique": _T + ": provenance trace of output containers with selector extraction and sibling agreement of selectors",
}

CLAIMED["C03"] = {
    "text": "Decides structural necessary conditions of 'batch prediction equals row-by-row prediction through every calling form' for "
            "every PredictInplace impl (27) and the four blanket Predict forms: the forms call default_target and predict_inplace once "
            "on the received records and hand them back; every predict_inplace checks batch rows against the output before writing, "
            "every default_target sizes its leading extent from the batch rows; a batch-axis abstract interpretation finds no "
            "reduction/statistic/selection along the batch axis or over all elements, no reshape of the batch, no raw-layout access "
            "and no mutable state carried across rows on any predict path (helpers followed to depth 6, their results carrying the batch axis back to the caller; also for the scalers' and "
            "whiteners' transforms); model types contain no interior mutability; the composing wrappers follow their parts (the running arg-max replaces label and incumbent probability together; MultiClassModel's constructors keep every member - no keyed container or dropping adaptor on the member list; Pr::try_from, the range check behind Pr::new, rejects NaN when evaluated abstractly with a NaN argument). Not "
            "decided: equality of floating-point roundings between batch and single-row evaluation. "
            "Also decided: no ordering written out in the linfa crate (the `Pr` the composed models select by) compares floating-point values through `to_bits()`; MultiTargetModel reshapes the collected predictions as (number of models, number of rows) - read structurally, through accessor methods - and transposes. "
            "The loop over the one-vs-all members of MultiClassModel has no written-out `break` / `return` (every member is consulted; a batch-level confidence test would make a row's label depend on the other rows). "
            "A buffer filled in the order of an argsort is not read back through that order's *values* (the permutation applied twice); blocked loops place block b at b times the nominal block length. No call of a workspace function in the crates of this property passes two like-typed arguments that are named after each other's parameter (names resolved through lets to the field or accessor they were read from).",
    "design_ref": "DESIGN.md section 4, C03",
    "note": "Trusted: rustc resolution/typeck, the fact dump; ndarray's elementwise ops, dot and row iterators are row-local.",
    "technique": _T + ": batch-axis abstract interpretation, dominance of shape checks over output writes, type-closure scan for interior mutability",
}

CLAIMED["C04"] = {
    "text": "Decides the verdict of parameter checking for every value and combination at once: the accepted region of each of "
            "the 23 ParamGuard::check_ref bodies is computed from its guard structure with an interval-set algebra and must "
            "equal the documented range table (strictness included: `<` vs `<=` changes the set); check(self) must be "
            "check_ref()? plus an unchanged projection of self; every fit/fit_with/transform entry point on an unchecked "
            "builder must be dominated by the check and return its error; checked types must not be constructible from "
            "caller-supplied values outside the guard. predict_inplace never reads what the caller's buffer held and writes every element on every path (no compound assignment, no BLAS-style accumulation with beta != 0, no loop body that leaves an element unwritten), so the in-place form agrees with the allocating forms for any buffer. "
            "Range tests are evaluated on the parameter itself, not on a narrowed copy (to_f32, as f32, to integer). "
            "No computation on a predict path branches on the number of rows of the batch (other than an exit); required trait methods called on a generic Self are followed into every implementation; the multi-class incumbent label is a member's label from the start. "
            "Builder methods store their arguments unchanged (no clamp / filter / rounding / arithmetic between argument and field), and builder methods that rebuild the parameter struct (with_rng) carry every field over from self. "
            "An unsigned parameter is not subtracted from before it is tested (overflow instead of the documented error). "
            "Hand-written Clone impls of the parameter sets and models copy every field (derived ones do by construction), no builder method resets another user-settable field to a value that does not depend on its argument, and builder methods that rebuild the struct carry every field; the dominating check may be `check_ref()?`, a map/and_then on its result, the Ok arm of a match on it, or an Err arm that returns first. "
            "Constructor shortcuts (`Model::params(..)`) build the same value as the constructor they forward to: a builder method applied with an argument of the shortcut's own choosing must store what the constructor stores anyway. "
            "Not decided: behaviour of training on valid parameters. "
            "Also decided: a float `is_positive()` is the sign-bit test (true for +0.0) and is modelled as `>= 0`; a rejection that only applies under a test of another, non-numeric parameter (`algorithm == Nipals && max_iter == 0`) rejects nothing of the documented range; hand-written `From<A> for B` whose target enum has a variant made to hold an `A` builds that variant (R-C04-from); validation helpers are read as part of the check also when they are handed the whole set under another name, take tuple parameters, end in a tail call of the next helper, or guard a match arm. "
            "Guards that combine parameters arithmetically (`penalty * l1_ratio < 0`) are evaluated as linear conditions on the parameter under analysis with the others at a witness value, and again with every boundary value of the others: the documented range holds for all of them. A verdict bound to a local (`let is_valid = match ..`) is read as its region. "
            "A test on `obj.method(param)` (a converted copy: a squared tolerance that underflows) is a test on the copy, reported like `to_f32()`; one-parameter predicates of the same crate are read through; `to_u32().map_or(false, |c| ..)` is a test on the narrowed value. A validation helper that branches on the variant of another, non-numeric parameter (`match self.algorithm { Nipals => <tests>, Svd => Ok(()) }`, unit-variant patterns) rejects only what every mode rejects: the documented range of a parameter holds whatever the other parameters are, so a test that runs in one mode only rejects nothing of the range. No call of a workspace function in the crates of this property passes two like-typed arguments that are named after each other's parameter (names resolved through lets to the field or accessor they were read from).",
    "design_ref": "DESIGN.md section 4, C04",
    "note": "Trusted: rustc resolution/typeck, the fact dump, the documented range table frozen in rules/c04.py (one source reference per row). NaN/infinite parameter values are outside the claim, as in the property.",
    "technique": _T + ": guard extraction + interval algebra vs documented table, dominance of the check over entry points, who-may-construct on checked types",
}

CLAIMED["C07"] = {
    "text": "Decides structural necessary conditions for the neighbour indices, for all point sets, queries and metrics: distances and "
            "reduced distances are never mixed in comparisons, min/max, sums, conversions, heap keys or call arguments (unit tags "
            "inferred from the Distance trait's own methods, with function summaries); the three index kinds perform the same build "
            "checks and reject wrong-dimension queries; the relation that admits a point at distance exactly `range` is the same "
            "in all three kinds - for the k-d tree read from the typed HIR of the kdtree crate at the locked version and "
            "intersected with linfa's own post-filter; a homogeneity-degree (dimensional) analysis of the four provided metrics shows "
            "`distance` of degree 1 in the coordinate differences on every branch and rdistance / rdist_to_dist / dist_to_rdist "
            "consistent with one reduced degree (a squared distance returned as a distance is degree 2); no query answers Ok before its dimension test. Raw memory-order buffers of the stored batch are used by position only behind a standard-layout test. "
            "A ball-tree node's radius is computed over every point of the node; rdistance overrides that delegate to another metric inherit that metric's reduced degree, and exponents that are truncated copies of the metric's exponent are rejected; coordinate differences carry the unit of distances. "
            "No distance in linfa-nn is computed through the expanded square |a|^2 + |b|^2 - 2<a,b> (cancellation-prone away from the origin, so that path would disagree with the ones using the metric's rdistance). "
            "The dimension test of a query runs outside the loop over the stored points (an empty index must reject a malformed query too); the index types contain no interior mutability (a query cannot change the answer to the next); in linfa-nn no generic-float / f64 value is narrowed to f32 and stored, and no f32 arithmetic over converted values is widened back into the generic float. "
            "For k = 0 (the quantifier starts there): every unwrap of peek / peek_mut / pop / first / last on a container in linfa-nn is reached only under evidence that the container is non-empty - an emptiness or length test on the path, a range bounded by its length, a dominating push - and a length test against k counts only where k is known positive. "
            "Not decided: geometric sufficiency of pruning bounds, k-NN ties. "
            "Also decided: no allocation in linfa-nn is sized by a caller-supplied count alone (`with_capacity(k)` aborts for the k > n the property speaks about); a `from_batch` written out on CommonNearestNeighbour is a second dispatcher and is held to the same arm test; an impl of Distance that overrides one of rdistance / dist_to_rdist / rdist_to_dist overrides all three. "
            "A power of a coordinate difference in a Distance impl is taken of its absolute value or with a literal even exponent; the linear scan's admission through rdist_to_dist(..) < range counts as a plain-distance admission; the k-d tree's post-filter carries no additive slack. "
            "No shortcut replaces a computed distance on the identity of two views' addresses alone (a row and a column of one matrix start at the same element). In the ball-tree builder every part of a partition of the points reaches a node (a leaf holds all parts, a branch hands each part to a recursive build); no value read off the top of a heap before a loop is used inside that loop after the loop pushed to / popped from that heap. The admission test of the ball tree's range query is read in whatever helper the public within_range hands the radius to. No call of a workspace function in the crates of this property passes two like-typed arguments that are named after each other's parameter (names resolved through lets to the field or accessor they were read from).",
    "design_ref": "DESIGN.md section 4, C07",
    "note": "Trusted: rustc resolution/typeck, the fact dump (also of the locked kdtree dependency), consistency of each metric's four Distance methods.",
    "technique": _T + ": unit-of-measure tag inference (dist/rdist), sibling agreement of argument checks and of the radius relation, dependency facts for kdtree, homogeneity-degree abstract interpretation of the Distance impls",
}

CLAIMED["C08"] = {
    "text": "Decides structural necessary conditions of the density-clustering definition for all inputs: every insertion into DBSCAN's "
            "frontier is control-dependent on `neighbour count >= min_points` in canonical form (strictness is the definition) and the "
            "cluster id advances once per seed; the count includes every element of the range query, the query point included; both "
            "algorithms build their index only through the configurable NearestNeighbour and query it with the tolerance; results of "
            "within_range (documented as unordered) are never used by rank without a sort; a DBSCAN seed is skipped only when already labelled or when its neighbour count is "
            "below min_points; OPTICS inserts a sample into `processed` in the same step in which it appends it to the ordering. Independence from the index kind further "
            "relies on C07. OPTICS picks the next seed from a canonically ordered list (a total sort on the indices before the pick, or an index tie-break), so ties in reachability do not expose the neighbour index's order; the radius relation of the three index kinds (C07) is checked here too. "
            "The DBSCAN scan over the samples is never left early; OPTICS collects seeds only from a sample it has already listed; the unit rule of C07 runs here too (a coordinate pre-filter compared with a reduced radius). "
            "No `dedup()` on a list whose element type's hand-written PartialEq ignores fields (OPTICS' Sample compares by reachability only). Hand-written Clone impls of the parameter sets and models copy every field (derived ones do by construction), no builder method resets another user-settable field to a value that does not depend on its argument, and builder methods that rebuild the struct carry every field; no generic-float / f64 value is narrowed to f32 and stored, and no f32 arithmetic over converted values is widened back into the generic float. "
            "Not decided: OPTICS reachability values, border-point labels. "
            "Also decided: every distance in DBSCAN / OPTICS is computed with the configured metric (a concrete metric type inside the generic code is a violation); the OPTICS core distance is taken from the neighbour of rank min_points - 1 with no value-dependent adaptor (skip_while, filter, dedup) in between; forwarding impls of Distance forward the whole reduced-scale trio. "
            "(through the shared linfa-nn rules) the same admission clauses: reduced against reduced in the linear scan, no slack in the k-d tree's post-filter. "
            "Cluster ids, queue marks and neighbour counts of DBSCAN / OPTICS are not narrowed to 32 bits or fewer (65536 clusters wrap a u16 mark); the address rule of linfa-nn applies to the queries made here. Point conservation of the ball-tree builder and the memory-layout discipline of linfa-nn are checked under this property too (DBSCAN / OPTICS inherit the index). No call of a workspace function in the crates of this property passes two like-typed arguments that are named after each other's parameter (names resolved through lets to the field or accessor they were read from).",
    "design_ref": "DESIGN.md section 4, C08",
    "note": "Trusted: rustc resolution/typeck, the fact dump.",
    "technique": _T + ": control dependence of frontier insertions on the canonical core condition, order taint of range-query results",
}

CLAIMED["C09"] = {
    "text": "Decides structural necessary conditions of the k-means property for all data, seeds and budgets: fit, fit_with, both "
            "predict forms and transform obtain (index, distance) from one scan function that keeps the smaller rdistance, "
            "updates index and distance together and covers every centroid row; every field of the model returned by fit is a "
            "function of state saved under the same acceptance guard as the returned centroids (never of per-restart scratch "
            "state); the buffers behind inertia and counts were filled from the centroid matrix that is returned, with no "
            "reassignment in between on any path; every call of the scan or of the update helpers passes the model's / parameter "
            "set's own metric; an initialiser that returns a zero-allocated centroid matrix fills it in loops without early exit. A best-of-n loop that saves state when a candidate beats the incumbent also updates the incumbent (fit_with's initialisation candidates included); exact-chunk iteration over per-sample buffers never drops a remainder and raw buffers are used by position only behind a layout test. "
            "A distance scan over the centroids is left early only on a distance of exactly zero; every model literal a fit path returns takes cluster_count from a computed assignment; the metric's degree rule of C07 runs here too. "
            "Hand-written Clone impls of the parameter sets and models copy every field (derived ones do by construction), no builder method resets another user-settable field to a value that does not depend on its argument, and builder methods that rebuild the struct carry every field; no generic-float / f64 value is narrowed to f32 and stored, and no f32 arithmetic over converted values is widened back into the generic float. "
            "Not decided: cost monotonicity, bounding box, numeric inertia values. "
            "Also decided: `rows().enumerate().skip(1)` is a full scan when the incumbent starts from (0, rdistance(row 0, x)); counts taken through `&mut` method borrows are computed counts. "
            "No local declared before the restart loop of fit is assigned only inside the iteration loop (a `converged` flag that survives into the next restart); every arm of KMeansInit::run calls its own variant's routine; no per-block means averaged with one weight per block in the centroid updates. "
            "The per-cluster counts of fit are indexed by membership values, never by the position of a run in the sorted memberships (an empty cluster shifts all later counts); the three assignment helpers have no return before their write loop. An early exit of the centroid scan is recognised also when index and distance are bound by one tuple `let`. No call of a workspace function in the crates of this property passes two like-typed arguments that are named after each other's parameter (names resolved through lets to the field or accessor they were read from).",
    "design_ref": "DESIGN.md section 4, C09",
    "note": "Trusted: rustc resolution/typeck, the fact dump, Distance::rdistance being the reduced distance of the configured metric.",
    "technique": _T + ": call-graph agreement on one arg-min routine, guarded-state consistency and reaching-definition freshness of the result fields",
}

CLAIMED["C10"] = {
    "text": "Decides structural necessary conditions of the Gaussian-mixture property for all data and queries: precisions are "
            "recomputed from the current precision factors after the last M-step and before a run is stored as the best one; "
            "on everything reachable from fit, the results of Cholesky, triangular solves, min/argmin and parameter estimation "
            "are propagated as errors (never unwrapped or discarded) and the empty-component test precedes the division by the "
            "component weights; the responsibilities' log-sum-exp exponentiates v - max(v), so probabilities stay finite "
            "arbitrarily far from the data; everything predict and predict_proba compute is reached from reads of the mixing weights, the "
            "means and the precision factors (a prediction from the unweighted component densities is not one of maximal probability); the empty-component test "
            "reads the raw responsibility masses and the log-sum-exp shifts every row by its own maximum. "
            "The triangular factor stored in precisions_chol (writer) and its uses in compute_precisions_full and in the Mahalanobis term (readers) agree on its orientation - transposition parities read from the three sites; the best-of-n-restarts incumbent is updated with the state it guards. "
            "reg_covar is added to the covariance diagonal after the normalisation by the component mass (nothing rescales the block afterwards). "
            "The fold that takes the row maximum for the shift starts from -infinity / min_value or from data. Hand-written Clone impls of the parameter sets and models copy every field (derived ones do by construction), no builder method resets another user-settable field to a value that does not depend on its argument, and builder methods that rebuild the struct carry every field; no generic-float / f64 value is narrowed to f32 and stored, and no f32 arithmetic over converted values is widened back into the generic float. "
            "Not decided: positive definiteness, weights summing to one. "
            "Also decided: the mixing weights are column sums of the responsibilities divided by the sample count only while the responsibilities handed to the parameter estimation are the unscaled exp(log_resp) (or the divisor is their sum). "
            "compute_precisions_full takes no path without the matrix product unless it is keyed on the feature extent (axes 1, 2) of the factor array; both factors of the covariance product are centred. "
            "predict_inplace overwrites its target in every implementation including macro-generated ones; block offsets are nominal. The writer of precisions_chol is recognised when factorisation and triangular solve are two statements. No call of a workspace function in the crates of this property passes two like-typed arguments that are named after each other's parameter (names resolved through lets to the field or accessor they were read from).",
    "design_ref": "DESIGN.md section 4, C10",
    "note": "Trusted: rustc resolution/typeck, the fact dump.",
    "technique": _T + ": ordering/dominance of refresh over store, error-propagation dataflow, shifted log-sum-exp chain rule",
}

CLAIMED["C12"] = {
    "text": "Decides structural necessary conditions for logistic and Tweedie regression for all data: target-support, label, shape, "
            "finiteness and initial-parameter validation return their errors before the optimiser runs and are applied to the very "
            "data handed to it; log-sum-exp and soft-max exponentiate v - max(v); the predicted class is computed from the same "
            "scores as the published probabilities (binary: threshold on predict_probabilities itself, >= threshold -> positive "
            "class; multinomial: arg-max of the scores that predict_probabilities soft-maxes, label read from the stored class "
            "list); every arm of the GLM link/distribution dispatchers calls the same operation of its variant; on every path "
            "(with and without intercept) the value of each loss / gradient function and of the optimiser's cost/gradient adapters is "
            "computed from the penalty strength alpha - a path-enumerating influence analysis; log-sum-exp shifts per row; no "
            "quotient has an unguarded exponential of the score above and below the line. For every link, inverse_derivative is the symbolic derivative of inverse (element-wise maps read into rational functions over x, exp, ln and differentiated by a small computer algebra), so the chain rule in the gradient differentiates the function the cost evaluates. "
            "Every value path of the unit-deviance derivative is computed from the predicted mean; the L-BFGS solver is configured with the gradient tolerance only (no cost-change stopping rule). "
            "The Tweedie target-range error is returned unconditionally (not under a configuration switch such as fit_intercept); max folds of the shifts start from their identity element. Hand-written Clone impls of the parameter sets and models copy every field (derived ones do by construction), no builder method resets another user-settable field to a value that does not depend on its argument, and builder methods that rebuild the struct carry every field; no generic-float / f64 value is narrowed to f32 and stored, and no f32 arithmetic over converted values is widened back into the generic float. "
            "The Tweedie support test admits no non-finite target: its predicate is evaluated symbolically at +inf, -inf and NaN (it admitted +inf: repaired). "
            "The user-supplied start vector of the logistic solvers is either normalised to the standard layout before it reaches the solver, or no objective function applies a layout-fallible operation (into_shape / as_slice + unwrap) to the parameter it receives (loss and gradient did: repaired). "
            "No two variants of the link dispatchers share one implementing type (each arm calls the implementation named after its variant); `TweedieRegressor::params()` builds what `TweedieRegressorParams::new()` builds. "
            "Not decided: stationarity of the "
            "returned point beyond these necessary conditions, numeric range of probabilities. "
            "The chain-rule check reads through same-crate helpers (a clamp shared 'for consistency' between link_derivative and inverse_derivative is a clamp in inverse_derivative only); every non-error path of the two logistic fits goes through the solver on the model's own problem. "
            "The gradient tolerance handed to L-BFGS is the configured one, not multiplied or divided by a size of the data; the running maximum behind the softmax / log-sum-exp shift starts from -inf or an element, not from a finite constant; a builder method does not write another setting conditionally (`get_or_insert` of the link inside `power`). A branch taken under `y == 0` in the GLM distribution code yields what the general branch tends to at y = 0 (terms with a factor y vanish; decided on the rational normal form of both branches); raw memory-order buffers are followed through `Cow::Borrowed` / `Some` / `Either` wrappers and the values of match arms. In every arm of TweedieDistribution::unit_deviance (Normal, Poisson, Gamma, the two general arms) the symbolic derivative with respect to the mean - rational normal form with ln u and mu^p as atoms, mu^(a + b p) = mu^a (mu^p)^b, chain rule - is -2 (y - mu) / unit_variance(mu), and unit_deviance_derivative computes exactly that: cost and gradient of the GLM are one function (the factor-2 defect repaired in ee80fac is now a rule: its revert is a catalogue mutant). TweedieProblem::cost and ::gradient cut the parameter vector (and the gradient buffer) with one and the same range (intercept first, coefficients after it). No call of a workspace function in the crates of this property passes two like-typed arguments that are named after each other's parameter (names resolved through lets to the field or accessor they were read from).",
    "design_ref": "DESIGN.md section 4, C12",
    "note": "Trusted: rustc resolution/typeck, the fact dump; soft-max is monotone per row.",
    "technique": _T + ": dominance of validation over the optimiser call, shifted log-sum-exp chain rule, common-producer check for decision and probabilities, sibling agreement of dispatcher arms, per-path influence (data-dependence) analysis",
}

CLAIMED["C16"] = {
    "text": "Decides structural necessary conditions for scalers and whiteners for all matrices: each dataset-level transform builds "
            "its output from the input's own targets, weights, feature and target names and replaces only the records by the "
            "array-level transform; every fit routine returns an error for zero samples before the first reduction; in the "
            "scalers every division by a data-derived quantity (std, max-min, max-abs, row norm) is control-dependent on a zero "
            "test of that divisor; LinearScaler::transform applies only affine per-element arithmetic (no clamp/min/max/abs, no "
            "branch on element values), so it is the fitted affine map on unseen rows too; every running column extremum starts from the identity element "
            "of its own operation. No field of a fitted scaler/whitener is computed from another stored field that is mutated before the model is built; raw buffers are used by position only behind a layout test. "
            "A builder call that keeps a part only on some path (conditional reset of the weights) counts as dropping it. "
            "Hand-written Clone impls of the parameter sets and models copy every field (derived ones do by construction), no builder method resets another user-settable field to a value that does not depend on its argument, and builder methods that rebuild the struct carry every field; no generic-float / f64 value is narrowed to f32 and stored, and no f32 arithmetic over converted values is widened back into the generic float. "
            "Not decided: achieved means, variances, covariances. "
            "Also decided: `transform` of a fitted scaler / whitener takes no statistic across the samples of the matrix it transforms (column means, sums .. of the input). "
            "`transform` hands the input back untouched for an empty matrix only; no mean of per-block means with one weight per block in the fit statistics. "
            "Every arm of the norm dispatcher calls norm_l1 / norm_l2 / norm_max or reduces absolute values; every non-optional field a method of a serialisable scaler reads takes part in the serialised form (no `serde(skip)` on a derived flag). NormScaler leaves a row unscaled only under an *exact* comparison of its norm with zero; no singular value / eigenvalue (or its inverse) is clamped by an absolute constant in Whitener::fit (both floors of the pinned tree were absolute: repaired in dfbc6f2, now relative to the largest value). Formula level (rules/formula.py): for a non-constant column the fitted offset and scale, read as formulas of the column's mean / standard deviation / minimum / maximum / largest absolute value, composed with the element map of transform give the documented maps - min-max sends the column minimum to the lower and the maximum to the upper end of the requested range (both ends attained), max-abs is x / maxabs, standard scaling is (x - mean) / std. No call of a workspace function in the crates of this property passes two like-typed arguments that are named after each other's parameter (names resolved through lets to the field or accessor they were read from).",
    "design_ref": "DESIGN.md section 4, C16",
    "note": "Trusted: rustc resolution/typeck, the fact dump. Divisions by singular values in the whiteners are outside the rule (the property claims whitening on full-rank data only).",
    "technique": _T + ": provenance of the output dataset's containers, dominance of the empty-input guard, zero-guard contradiction rule on data-derived divisors",
}

CLAIMED["C18"] = {
    "text": "Decides structural necessary conditions for PCA for all data: the empty-dataset and embedding-size (outside 1..p) "
            "tests return their errors before the records are reduced or decomposed; the divisor turning squared singular values "
            "into explained variances derives from the training sample count recorded at fit time (or, for the ratio, cancels); predict is (x - mean).components^T and inverse_transform composed with it is, in a "
            "non-commutative normal form over dot/+/-/t, exactly x.E^T.E - m.E^T.E + m, the projection about the mean; the variance ratio does not inherit a divisor that "
            "vanishes for one component. "
            "Pca::predict_inplace overwrites the caller's buffer (no accumulation into it); no field of the fitted model is computed from another stored field that is mutated (whitening rescale) before the model is built. "
            "Every value path of explained_variance_ratio is computed from the singular values (directly or through another method of the model); DatasetBase::nsamples (the n of the whitening scale) depends on the records only. "
            "Pca::predict_inplace uses the batch row by row only: no reduction along the batch axis (a batch mean in the centring) enters the projection. Hand-written Clone impls of the parameter sets and models copy every field (derived ones do by construction), no builder method resets another user-settable field to a value that does not depend on its argument, and builder methods that rebuild the struct carry every field; no generic-float / f64 value is narrowed to f32 and stored, and no f32 arithmetic over converted values is widened back into the generic float. "
            "Not decided: orthonormality, ordering, spectral optimality, whitening covariance. "
            "Also decided: the whitening scale is computed from the row count of the decomposed matrix, not from the sample weights; no method of Pca subtracts the mean from data it then hands to predict / transform (which centre themselves). "
            "No model is returned from Pca::fit before the whitening branch. "
            "The numerator of explained_variance_ratio is a squared singular value; counts are not narrowed. The singular values that scale the whitened embedding are the very binding stored in the model; the cut of the singular values is not an absolute constant (it was 1e-8: repaired in d276c71). The two calling forms of the projection (predict_inplace, Transformer::transform) reach reads of the same fields of the model. No call of a workspace function in the crates of this property passes two like-typed arguments that are named after each other's parameter (names resolved through lets to the field or accessor they were read from).",
    "design_ref": "DESIGN.md section 4, C18",
    "note": "Trusted: rustc resolution/typeck, the fact dump; the feature=blas branch cannot be built offline and is not analysed.",
    "technique": _T + ": dominance of input guards over the decomposition, dataflow of the variance divisor to the recorded sample count, symbolic normal form of the transform/inverse composition",
}

CLAIMED["C13"] = {
    "text": "Decides structural necessary conditions of 'fitting terminates with a model whose published coefficients are feasible and "
            "undo the shrinking permutation', for every dataset and setting with shrinking enabled (which the suite never does): "
            "every per-variable container indexed by position is permuted by swap; no counted loop takes its bound once from a "
            "field its body decrements; in solve, position-indexed state is never indexed with sample-space indices and the "
            "published alpha is sample-indexed; sibling sites of the solver agree (reconstruct_gradient always followed by "
            "unshrinking, i/j blocks of update equal up to renaming, is-free guard and summand on one variable, shrink tests' sign "
            "pattern); the three support-vector predicates are one expression; every status-change test compares against a snapshot taken "
            "before the first write; running bounds that start at +/-infinity are tightened by min/max respectively and every "
            "branch of calculate_rho feeds y_i*G_i. The maintenance of gradient_fixed in update() ranges over all ntotal() positions (loop bounds and lengths of zipped kernel columns); a nu-classification hyperplane is rescaled with rho; a term is added to gradient_fixed only where the variable is at its upper bound after the step and subtracted only where it has left it (the reached_upper() status governing each update is dated against the assignment of the new alpha, through flag parameters too); every call of the nu-classification set-up is preceded by a test, with an error exit, of that nu against counts of those targets (an infeasible nu is refused instead of fitted from a point that violates the equality constraint). "
            "The training kernel matrix is filled from KernelMethod::distance, the function prediction evaluates, not from a separate expanded-square formula. "
            "Problem set-ups are cross-checked against the solver kind: a nu formulation with two classes of variables (nu-SVC, nu-SVR) requests the nu-constrained solver, every other one the plain solver (the nu-SVR set-up of the pinned tree does not: known finding); the two running bounds of calculate_rho[_nu] are combined only under a finiteness test (one of them is still infinite when no variable of one kind exists, nu = 1); when solve() repeats the working-set selection and replaces the pair, no component of the first selection stays in use. Hand-written Clone impls of the parameter sets and models copy every field (derived ones do by construction), no builder method resets another user-settable field to a value that does not depend on its argument, and builder methods that rebuild the struct carry every field; no generic-float / f64 value is narrowed to f32 and stored, and no f32 arithmetic over converted values is widened back into the generic float. "
            "Not decided: KKT conditions, rho, objective values. "
            "Also decided: in the Permutable impls a field left alone by swap_indices (targets, the kernel, its diagonal) is read through kernel_indices, a field it permutes (signs) is read by position. "
            "The branch of solve() that folds the support vectors into one hyperplane is taken exactly under is_linear(); positions in the Permutable impls are the trait methods' own parameters and what ranges over 0..length (an index of unknown space is undecided, not a violation). "
            "What is iterated out of the position->sample map (`active_set.iter()`) is a sample index: a position-indexed field read with it is reported like `targets[active_set[i]]`; in tiled loops the end of a tile is computed from that tile's own start; macro-generated predict_inplace bodies overwrite their target. A starting point that is laid out by a truncated `nu * l` also depends on nu itself: the fractional remainder is placed on a variable, not dropped (one-class SVM). No call of a workspace function in the crates of this property passes two like-typed arguments that are named after each other's parameter (names resolved through lets to the field or accessor they were read from).",
    "design_ref": "DESIGN.md section 4, C13",
    "note": "Trusted: rustc resolution/typeck, the fact dump; the index-space tags are inferred from the code's own swap(); sibling rules were confirmed against the reference SMO algorithm.",
    "technique": _T + ": index-space tag inference, stale-loop-bound detection, sibling agreement (deviant-behaviour) rules on SolverState",
}

CLAIMED["C14"] = {
    "text": "Decides structural necessary conditions for all trees and data: the comparison that routes a training row to the "
            "left child when the child masks are built is the same canonical relation (feature OP split) as the one "
            "make_prediction descends by; split creation is dominated by the min_weight_split, max_depth and "
            "min_impurity_decrease tests, candidates leaving less than min_weight_leaf on a side are skipped, and children are "
            "created at depth + 1; the running side weights start from zero or from a total of sample weights and the fraction "
            "mixing the child impurities divides by a total of sample weights (not a sample count); the records are read only "
            "through axis-aware accessors (no raw memory-order buffer without a layout test); the relative importances are a "
            "sequence divided by its own sum. Every weight_for(i) receives a row index (an enumerate() index taken before any filter/skip/rev of the sample sequence); gini and entropy compare a class weight with zero only (thresholds apply to proportions: scale invariance in the sample weights). "
            "A filtered sample sequence is never zipped with a per-sample container walked from its start; the arg-max over class weights compares them exactly (no rounding, integer conversion or tolerance); DecisionTreeParams' builder methods store the limits exactly as given. "
            "No limit is compared through a truncating copy (`as usize`, round / floor). "
            "The stop test may sit in a helper (its match / if value is read as the exit condition). Hand-written Clone impls of the parameter sets and models copy every field (derived ones do by construction), no builder method resets another user-settable field to a value that does not depend on its argument, and builder methods that rebuild the struct carry every field; no generic-float / f64 value is narrowed to f32 and stored, and no f32 arithmetic over converted values is widened back into the generic float. "
            "Not decided: impurity arithmetic, leaf majorities, importances. "
            "Also decided: `check` hands the checked parameter set on unchanged (c04's R-C04-same, so that the limits that reach the fit are the ones the caller set); the split threshold between two neighbouring feature values is strictly below the upper one (R-C14-midpoint; a genuine defect of the pinned tree, repaired). "
            "relative_impurity_decrease returns no unnormalised values under a positive threshold on their sum. "
            "The two side-weight accumulators that the sweep moves in step are declared in the same block (both reset per feature); make_prediction's walk is not a counted loop with a constant bound. No call of a workspace function in the crates of this property passes two like-typed arguments that are named after each other's parameter (names resolved through lets to the field or accessor they were read from).",
    "design_ref": "DESIGN.md section 4, C14",
    "note": "Trusted: rustc resolution/typeck, the fact dump.",
    "technique": _T + ": sibling agreement of the fit-time and predict-time routing relation, dominance of limit tests over split creation, dependency analysis of weight accumulators, raw-buffer who-may-call rule",
}

CLAIMED["C19"] = {
    "text": "Decided on the workspace compiled with every crate's `serde` feature (which the test suite never builds): the "
            "configuration type-checks; every Serialize type has Deserialize and vice versa; in the expanded derive output "
            "every field and variant of every serialisable type is written under its own name directly from the field and "
            "restored from the input (no skip/default/rename/with/skip_serializing_if outside a reasoned allow-list); field "
            "types are closed under 'round-trips exactly'; and a generated harness crate, only type-checked, shows that every "
            "nameable serialisable type instantiated at f64 and f32 satisfies Serialize + DeserializeOwned; the one deliberately unrestored field (the tokenizer function) is protected by a "
            "serialised guard that is raised wherever a function is installed and checked first by every public entry of the fitted "
            "vectorisers. Holds for every "
            "value of every such type. In crates with a serialised regex no RegexBuilder option is set, so every compiled expression is determined by the pattern text that is serialised. "
            "`deserialize_with` adapters are found through the nested __DeserializeWith impls of the generated visitors. "
            "For every enum, the variant index the generated Serialize writes equals the index under which the generated identifier visitor restores the same variant (a skipped variant in the middle shifts one side only); every public tokenising method of the serialisable *checked* vectoriser parameters tests the tokenizer guard first; hand-written Clone impls copy every field (the guard included). "
            "No array with a known non-standard memory layout (stack / concatenate along an axis > 0, reversed_axes / permuted_axes, a transposed view copied with to_owned, an `.f()` shape, or the result of a workspace function returning one of these) is stored in a field of a serialisable type: ndarray restores every array in standard layout, and layout-dependent summation orders would differ after the round trip. "
            "Not decided: bit-level behaviour of third-party serialisers. "
            "Also decided: no hand-written Deserialize impl reads a borrowed `&str` / `&[u8]` (restoring from a reader or from escaped text would fail); the producer of a serialised `Result` field lets no error variant escape that serde skips (a `?` on a Result whose error is the payload type of a skipped variant). No call of a workspace function in the crates of this property passes two like-typed arguments that are named after each other's parameter (names resolved through lets to the field or accessor they were read from).",
    "design_ref": "DESIGN.md section 4, C19",
    "note": "Trusted: serde_derive's expansion (the pinned version's output is what is analysed), serde impls of std/ndarray/sprs/rand_xoshiro/serde_regex, the format crate.",
    "technique": _T + " on the serde configuration: structure preservation read off the expanded derive impls, type closure, compile-only witness crate",
}

CLAIMED["C20"] = {
    "text": "Decides, for all hash seeds, thread counts and schedules at once: every iteration over a HashMap/HashSet in lib code "
            "(and every call of a workspace function that hands hash order to its caller) reaches only order-insensitive "
            "consumers (integer count/sum, all/any, value min/max, keyed or per-entry updates, collection into hash/b-tree "
            "containers, a sort that is total on the unique key, an arg-extremum whose comparator falls back on the key); no "
            "entropy source is called outside the exclusions the property names; every RNG is seeded from a literal or a "
            "caller-supplied seed; every rayon construct writes only through its own per-element parameters and performs no "
            "parallel float reduction. A lexicographic sort key over hash-map entries ranks no value component that was numbered in hash-iteration order (`map.insert(k, (map.len(), ..))` inside a loop over a hash container, found workspace-wide) before the unique map key; the first element of a hash iterator may seed an incumbent only if every replacement is governed by a total predicate. A comparator that decides ties through arithmetic (tolerance bands, rounded keys) or through an unread local closure is not accepted as total; rayon constructs with per-split state (map_init & co.) must not create generators or counters in that state; Labels::labels no longer hands hash order to callers (allow-list entry removed). "
            "Not decided: floating-point identity across machines, third-party internals. "
            "Also decided: closure parameters lent from outer state (`Zip::from(&mut best).and(&mut *y).for_each(|b, t, ..| ..)` inside a loop over a hash map) are writes to outer state; `next()` under a test that the container has exactly one element, and incumbents replaced under a local closure that decides every pair of entries by value and then by key, are order-insensitive; named constants are literal seeds. "
            "KMeansInit::run hands no other initialiser's arm over to k-means|| (which is outside the claim); `select_nth_unstable(k)` + `truncate(k)` under a total order is an order-insensitive use of a hash iteration. "
            "FastICA's unseeded generator is reached on the no-seed side of a test of the Option, not under a particular seed *value* (`0 => entropy`); the compiled-tokeniser rule of C17 is part of 'same hyperparameters, same output'. No call of a workspace function in the crates of this property passes two like-typed arguments that are named after each other's parameter (names resolved through lets to the field or accessor they were read from).",
    "design_ref": "DESIGN.md section 4, C20",
    "note": "Trusted: rustc resolution/typeck, the fact dump; third-party crates draw entropy only through the listed APIs. Allow-list entries are single symbols with a reason (rules/c20.py).",
    "technique": _T + ": order/entropy/schedule taint classification of every unordered source to its consumer",
}

CLAIMED["C05"] = {
    "text": "Decides the clauses of 'every evaluation metric equals its definition' that are relations between pieces of the code, for all inputs at once - necessary conditions, not the numerical definitions: "
            "every multi-target regression metric applies the single-target metric of the same name, column by column over both operands (axis 1 of both, zipped); "
            "in the single-target regression metrics every sum or difference combines terms of the same homogeneity degree in the data (a dimensional analysis over the provided trait methods: prediction and truth have degree 1, products add and quotients subtract degrees, literals below 1e-6 are regularisers) - explained_variance of the pinned tree subtracts the mean error from a sum of squares (known finding with the failing input); "
            "the axis of the confusion matrix that is filled from the prediction (read off map_prediction_to_idx, its call and the indexing of the increment) is the one the binary precision fixes, the binary recall fixes the other, and split_one_vs_all takes the false positives from the prediction's line - binary precision and recall of the pinned tree fix the wrong axes, i.e. are exchanged (two known findings with the failing input); "
            "every (prediction, truth) pair adds exactly one to one cell of a square matrix over the class list, both indices looked up in one class map; accuracy is trace over total; split_one_vs_one enumerates the pairs i < j (it included the diagonal: repaired). "
            "every forwarding impl of ToConfusionMatrix keeps the roles - its receiver stays the prediction, its argument the ground truth (the impl for an array against a dataset exchanges them: known finding with the failing input); "
            "the numerator of the MCC uses row sums and column sums alike (or neither); an accumulator that a loop of the metric code resets at the end of its body is reset on every path to the next iteration (no `continue` skips it); "
            "median_absolute_error reads the middle position(s) of a *fully sorted* error sequence (a selection around one position does not order its neighbours); no sum or difference in the metric code has the same operand on both sides (a trapezoid uses both end points); the class list of a confusion matrix over a dataset is the key set of a label-count cache that starts empty (shared with C02). "
            "Not decided: the numerical definitions themselves - MCC, F-beta, ROC / AUC and its treatment of ties and of the first threshold, log-loss, the regression formulas beyond their degrees, silhouette, Pearson, permutation invariance. "
            "Also decided: the clip bounds of log_loss, evaluated exactly as f32 / f64 constants, lie strictly inside (0, 1) (`1 - MIN_POSITIVE` is 1.0); the class list a confusion matrix is laid out by is sorted where it is used or where it is made (nothing appended after the last sort); no ordering compares floats through their bit patterns. "
            "Every path of ConfusionMatrix::f1_score returns self.f_score(1); combined_labels drains an iterator that it consumes conditionally (next_if); the covariance behind pearson_correlation is a product of centred data, not a difference of raw moments. "
            "The position of pair (i, j) in the packed correlation triangle is evaluated over the loop nest as written for 4 and 5 features: it counts 0, 1, 2, .. in visiting order (the column-major closed form agrees up to 3 features); counts are not narrowed below 64 bits. Formula level (rules/formula.py): max / mean absolute / mean squared / squared-log / percentage error, R2 and explained variance, F-beta, the macro averages of precision and recall and the log-loss are read from the typed HIR into a rational normal form - element-wise atoms, sums expanded by linearity, |u| / ln u / clip u as uninterpreted atoms, literal regularisers of at most 1e-6 set to zero - and compared with the textbook definition built in the same algebra (by cross-multiplication, and by the value of both normal forms at three fixed rational points with uninterpreted functions hashed on their argument's value); multi-target scores that do not delegate are read column-wise (a whole-matrix mean in place of a column mean is another function). explained_variance of the pinned tree is recorded under a key that carries a fingerprint of today's formula, so any other formula is a new violation. A trapezoid (or any sum / difference) does not combine a loop-carried copy with the element it was just overwritten with. F-beta is also read with precision and recall inlined down to the cells of the 2x2 matrix (when they arrive through a helper) and compared with the formula over the public precision() / recall(); named constants of the crate are looked through in the clip bounds. No call of a workspace function in the crates of this property passes two like-typed arguments that are named after each other's parameter (names resolved through lets to the field or accessor they were read from).",
    "design_ref": "DESIGN.md section 4, C05",
    "note": "Trusted: rustc resolution/typeck, the fact dump; in ToConfusionMatrix::confusion_matrix(&self, ground_truth) the receiver is the prediction. Claimed late in the build (section 5).",
    "technique": _T + ": delegation-name agreement, homogeneity-degree (dimensional) abstract interpretation of the metric formulas, axis-role agreement between the construction of the confusion matrix and its consumers",
}

CLAIMED["C06"] = {
    "text": "Decides the clauses of 'kernel matrices hold the kernel function; hierarchical clustering partitions' that are relations between pieces of the code, for all inputs at once - necessary conditions, not the values: "
            "the cell (i, j) of the dense matrix and the stored value of the sparse one are KernelMethod::distance of rows i and j of the records, computed with the method passed in, over all rows (a triangle only when it is mirrored), and the sparse pattern comes from adjacency_matrix(records, k, index) with the configured k; "
            "in KernelMethod::distance every arm uses both operands, the Gaussian arm is exp of a negated sum of squared differences of the zipped operands, the polynomial arm adds its first and raises to its second parameter; "
            "adjacency_matrix asks the index for k + 1 points, drops the point itself and pushes the diagonal exactly once per row, advances indices / data / counter together, pushes one row pointer per row, builds a square matrix over the rows and combines it with its own transpose by a union (add); "
            "the merge replay stops on `clusters.len() <= requested` and on `step.dissimilarity >= threshold`, and the test stands before the merge of the step; "
            "a merge removes step.cluster1 and step.cluster2, inserts the union of both member lists under an id that starts at n and advances by one; "
            "the label vector has n slots, every member of a cluster receives the running index of that cluster, and it is returned next to the kernel; "
            "the linkage runs on the -ln transform (floored, ln of the similarity only above the floor) of the kernel's upper triangle, with kernel.size() and the configured linkage method; "
            "all six Kernel accessors dispatch to the Inner method of their own name in both arms with the argument passed on, the three to_upper_triangle impls keep col > row, Kernel::new / view / to_owned keep the variant, the builder of the variant, the configured neighbour count and the configured method; "
            "Clone impls, builder methods, accessors and constructors of linfa-kernel and linfa-hierarchical carry what was configured; no generic-float value is narrowed to f32 and stored. "
            "The requested number of clusters is not subtracted from the number of samples in unsigned arithmetic without a guard (more clusters than samples may be requested); a running position that is advanced by an amount depending on the loop index is advanced on every path through the loop body. "
            "The polynomial degree is used as given (not converted to an integer for an integer power); the -ln transform is not clamped; builder methods of the clustering and kernel parameters that rebuild the set carry every field and store their arguments unchanged. "
            "Not decided: numerical equality of entries, symmetry up to rounding, positive semidefiniteness, which points the index returns, agreement of dense and sparse products and sums, the linkage algorithm itself (kodama), ties. "
            "Also decided: no bisection (`partition_point`, `binary_search_by`) over the merge steps' dissimilarities (not monotone for centroid / median linkage); a hand-computed offset into the condensed triangle does not divide one factor of r(2n - r - 1) before the product is formed. "
            "The upper-triangle relation col > row is also read off explicit loops (`for (i, row) in outer_iterator().enumerate()`); no labels are returned before the linkage is computed (a threshold above every pairwise dissimilarity does not bound Ward's merge heights). "
            "The cap applied to the transformed dissimilarities is the transform of the floor applied before it (constant-branch evaluation of both). The stop tests may be written as one `if let Criterion::X(v) = self.stopping { if <comparison> { break } }` per criterion: each is judged by its comparison and by its position before the merge. A clamp of the -ln transform written as an outer branch (`if x >= 1 { 0 } else { .. }`) is a clamp. The cluster count may be kept in a counter that every merge decrements: the count test stands before the decrement. No call of a workspace function in the crates of this property passes two like-typed arguments that are named after each other's parameter (names resolved through lets to the field or accessor they were read from).",
    "design_ref": "DESIGN.md section 4, C06",
    "note": "Trusted: rustc resolution/typeck, the fact dump; kodama::linkage's documented step numbering; sprs::CsMatBase::new_from_unsorted's argument order. Claimed late in the build (section 5).",
    "technique": _T + ": index / operand agreement of the matrix fill, sign and operand analysis of the kernel arms, buffer-pairing and once-per-row analysis of the CSR construction, canonical relation and statement order of the stop test, remove / insert pairing of the merge, name agreement of the dispatchers",
}

CLAIMED["C11"] = {
    "text": "Decides, for all regression datasets at once, the clauses of 'least-squares estimators return a minimiser of their documented objective' that are visible in the shape of the code - necessary conditions, not optimality: "
            "the intercept an elastic-net fit publishes depends on the records (at the optimum it is mean(y) - mean(x).w; an intercept taken from the targets alone is optimal only for centred features - violated by both elastic-net fits of the pinned tree, recorded as a known finding with the failing input); "
            "the coordinate update clamps abs(t) - threshold at zero before the sign is restored, and the block update returns zeros below the threshold, so coefficients under the l1 threshold are exactly zero; "
            "the soft threshold is l1_ratio*penalty*n and the denominator adds (1 - l1_ratio)*penalty*n in both descents, and both duality gaps build l1_reg / l2_reg from the same factors; "
            "the descents stop on gap < tol*||y||^2 and return the gap that was compared; "
            "OLS under fit_intercept appends a ones column along the feature axis, publishes its coefficient (the last one) as the intercept and removes it from the parameters, publishes a zero intercept otherwise; "
            "Clone impls, builder methods, accessors and constructors of linfa-elasticnet and linfa-linear carry what was configured, no generic-float value is narrowed to f32 and stored, raw buffers are used by position only behind a layout test. "
            "The coordinate sweeps run over all features (a filtered list, never a prefix or a stride) and a whole-matrix term is added to the residual only after it was reset to the targets; with the axis roles of the parameters of the duality gaps declared (samples, features, tasks), products contract axes of one role, sums combine equally oriented arrays, and the axis-wise reductions of one function remove the same role from equally shaped arrays (a dimension-type inference: axisrole.py). "
            "Zero tests that decide whether a column is skipped or the residual is updated are exact comparisons - an absolute tolerance on a quantity that scales with the data makes the fit depend on the unit of the features (they were abs_diff tests: repaired). A residual update that is skipped under a zero test vanishes whenever the tested value is zero (it is a product with it: the residual never goes stale); no filtered list of column positions is zipped with an unfiltered walk over the columns; `Default::default()` and `new()` of the estimators build the same value. "
            "Not decided: optimality itself (KKT conditions, orthogonality of the OLS residual), non-negativity of the gap, convergence within the iteration budget. "
            "Also decided (R-C11-gap, R-C11-blocksoft): floats made from a matrix's `.len()` are element counts, not sample counts; the multi-task dual norm is a maximum over row norms (norm_max on the matrix itself is a violation); the residual is rescaled into the dual feasible set whenever its dual norm exceeds l1_reg (no conjunct narrowing the condition); block_soft_thresholding returns zero on the boundary norm == threshold, so that 0 / 0 is never formed (a genuine defect of the pinned tree, repaired). "
            "A filter on the features of a sweep may only drop empty columns (screening by the correlation with the target freezes features); the l2,1 norm of the multi-task gap takes the square root per row, before the sum over rows. "
            "A computation route that only inputs beyond a constant size reach (normal equations for tall problems) is reported as UNDECIDED, never as a violation. The dual norm of the multi-task penalty runs over the rows of X^T R (one per feature), not over its columns. No call of a workspace function in the crates of this property passes two like-typed arguments that are named after each other's parameter (names resolved through lets to the field or accessor they were read from).",
    "design_ref": "DESIGN.md section 4, C11",
    "note": "Trusted: rustc resolution/typeck, the fact dump. Claimed late in the build (section 5).",
    "technique": _T + ": ingredient (data-dependence) analysis of the published intercept, role agreement of the two penalty terms across the descents and the duality gaps, canonical form of the soft threshold and of the stopping test, branch structure of the OLS fit",
}

CLAIMED["C15"] = {
    "text": "Decides, for all histories of batches at once, the clauses of 'incremental fitting replays to the same model as batch fitting / its recurrence' that are visible in the shape of the code - necessary conditions, not the statistics: "
            "naive Bayes `fit` is `fit_with` started from the empty model (None through the shared routine, dataset handed through), so a one-batch history and batch fitting are the same computation; "
            "`fit_with` continues from the model it is given, reaches classes through entry().or_insert_with(default) (a class missing from a batch keeps its statistics), accumulates class counts with `+=` from the class subset's row count, and recomputes the priors for every class of the model from the accumulated counts over their sum on the same map; "
            "the variance boost (epsilon) subtracted from a continued Gaussian model is added back to every class unconditionally, exactly once; "
            "multinomial feature counts are stored unsmoothed and accumulated, alpha enters the log probabilities only; "
            "mini-batch k-means divides the shift by the cumulative per-cluster count, incremented by one before the division, the counts handed to the update are the model's own cluster_count, and Ok / NotConverged follow `shift < tolerance`; "
            "FTRL takes the weights before z and n are written, z gains the gradient and loses sigma*weights, n gains the squared gradient, sigma is computed before the update, a weight is exactly zero when |z| <= l1 (non-strict), and fit_with continues from the given model; "
            "hand-written Clone impls and builder methods of the two crates carry every field, no generic-float value is narrowed to f32 and stored. "
            "The per-coordinate learning-rate term of FTRL is 0, not 0/0, for a coordinate without any gradient so far (the formula evaluated over {zero, positive} at n = 0, g = 0); the fused (Zip) form of the FTRL update accumulates z and n like the statement form; raw memory-order buffers of linfa-bayes / linfa-ftrl are used by position only behind a layout test. "
            "The cluster counts that KMeans::fit stores are the counted memberships, unadjusted (fit_with continues a running mean from them); the variance boost is subtracted either from every class of the carried model or not at all - never per class of the current batch; a struct literal that copies from a struct with a like-named field takes the like-named field (Ftrl::new: l1 from l1). "
            "Not decided: the statistics themselves (pooled mean / variance algebra, log-probabilities, the learning-rate formula), equality of batch and incremental results as numbers, posterior arg-max (ties are decided under C20). "
            "Also decided: the per-class update of naive Bayes fit_with walks a duplicate-free collection of the batch's classes (labels(), a set, or sort + dedup); the shift of the mini-batch k-means centroids and the tolerance are compared in one space (a reduced distance against dist_to_rdist(tolerance), a distance against the tolerance itself). "
            "FTRL fit_with applies the update on every non-error path; GaussianNb's pooled variance is not a second moment minus the squared pooled mean. A variance-pooling helper that is handed the boost removes it from the old variance before pooling: as a rational function of the stored variance v and the boost e, its result satisfies g(v, e) = g(v - e, 0) (formula reader with substitution). No call of a workspace function in the crates of this property passes two like-typed arguments that are named after each other's parameter (names resolved through lets to the field or accessor they were read from).",
    "design_ref": "DESIGN.md section 4, C15",
    "note": "Trusted: rustc resolution/typeck, the fact dump. Claimed late in the build (section 5 explains what changed the earlier not-applicable verdict).",
    "technique": _T + ": delegation of batch to incremental fitting, accumulate-vs-replace of carried state, pairing of the epsilon subtraction and addition, read-before-write snapshot of the FTRL weights, canonical form of the sparsity and convergence tests",
}

CLAIMED["C17"] = {
    "text": "Decides, for all corpora and settings at once, the clauses of 'the vectorisers equal a naive count of the tokenised corpus' that are visible in the shape of the code - necessary conditions, not the recount: "
            "fitting and transforming tokenise through the same steps (the normalisation / lower-casing helper with each switch guarding its own action, tokenizer function or regex, n-gram windows with the configured range), so training and unseen documents are counted alike; "
            "while fitting, the n-grams of one document pass through a set, existing entries gain exactly one and new entries start at one (document frequency counts documents); "
            "every arm of the vocabulary filter admits exactly min <= df <= max and drops the configured stop words; "
            "the column written into the word -> column map is the position at which the word is pushed onto vocabulary() (column j is vocabulary()[j]); "
            "a count goes up by exactly one, at the column stored for the looked-up n-gram (component 0 of (column, document frequency)), only under a successful vocabulary lookup - no fallback value, so out-of-vocabulary n-grams contribute nothing; "
            "the sparse row pairs each count with an enumerate() column taken before the zero filter, the zero filter drops exactly the zero counts, and the document frequency of the same column is incremented; "
            "each tf-idf entry is the count times the idf indexed by its own column, computed from (number of transformed documents, that column's document frequency) in this order; "
            "hand-written Clone impls and builder methods of the vectorisers carry every field. "
            "Every constructor of a fitted count vectoriser derives the column -> word list from the word -> column map it stores (hashmap_to_vocabulary); every longer n-gram extends the previous one (a buffer carried across the iterations); the document frequency handed to compute_idf is counted over the transformed documents, not read from what the fitted vectoriser remembers. "
            "The lower end of the document-frequency window is not a truncated (floor) conversion of the relative minimum into a count (it was: repaired - the window now compares relative frequencies). Builder methods of the vectorisers store their arguments unchanged (no case folding, trimming or filtering of stop words or expressions); check_ref compiles the tokeniser expression that is configured now (the write of the compiled form is not skipped because one is already there). "
            "Not decided: the recount itself - what the regex or tokenizer function matches, the float-to-count arithmetic of the frequency window, the three idf formulas, which entries a feature cap keeps (the sort key's reproducibility is decided under C20), the order of the vocabulary. "
            "Also decided: stop words enter the fit-side and the transform-side tokenisation alike (a stop-word filter before the n-grams on one side only is a pipeline difference); an Iterator impl of the n-gram walk that overrides a provided method without going through next() is left undecided. "
            "The lookup loops of analyze_document have no written-out early exit; the relative document frequency is the quotient count / n, not a product with a precomputed reciprocal. "
            "The compiled tokeniser follows the expression also through borrow-guard aliases; counts are not narrowed below 64 bits. No admission test (filter / filter_map / retain) is applied after the feature cap (take / truncate) in the vocabulary filter; raw memory-order buffers of the document arrays are not consumed in order (also through a private helper whose callers push rows in a for loop) without a layout test. No call of a workspace function in the crates of this property passes two like-typed arguments that are named after each other's parameter (names resolved through lets to the field or accessor they were read from).",
    "design_ref": "DESIGN.md section 4, C17",
    "note": "Trusted: rustc resolution/typeck, the fact dump; HashSet iteration yields each element once; sprs append / iter_mut pair a value with its column index. Claimed late in the build (section 5 explains what changed the earlier not-applicable verdict).",
    "technique": _T + ": sibling agreement of the fit-time and transform-time tokenisation pipelines, tuple-position provenance of map-value components, enumerate-before-filter, index provenance of multipliers",
}

NOT_APPLICABLE = {
}

PENDING = ["C02", "C03", "C04", "C07", "C08", "C09", "C10", "C12", "C13", "C14", "C16", "C18", "C19", "C20"]
for _p in PENDING:
    if _p not in CLAIMED:
        NOT_APPLICABLE[_p] = "not claimed yet: the static rules for this property (DESIGN.md section 4) are still being built in this session"
