"""`predict_inplace(&self, x, y)` determines every element of `y` from `x` and the model alone.

The three calling forms of Predict (array, &array, dataset) all go `default_target` -> `predict_inplace`; a caller may
also hand its own buffer to `predict_inplace` (that is what the in-place form is for, and what the composing models
do).  The forms agree for every buffer exactly when predict_inplace never *reads* what the buffer held and writes every
element.  Decided per impl from the uses of the target parameter, in statement order:

  neutral     y.len() / nrows() / shape() / dim() ...           (extent only)
  overwrite   *y = E (E does not mention y), y.assign(..), y.fill(..)
  element     for (.., t) in ITER.zip(y.iter_mut()) { BODY }  /  Zip::from(..).and(y).for_each(|.., t| BODY)  /
              for (i, ..) in ... { y[i] = .. }:  BODY assigns the element on every path (if/else both, every match
              arm), never with a compound operator, and its right-hand side does not read the element
  delegate    y passed on to another predict_inplace, or to a helper of the workspace which is analysed the same way
              (depth 2); ndarray's general_mat_mul / general_mat_vec_mul with y as the output need beta == 0
  violation   a compound assignment (`*y += ..`, `*t += ..`), an accumulating BLAS-style call (beta != 0), a read of y
              (iter(), view(), dot, indexing on the right-hand side, mapv_inplace, zip_mut_with ...), or an element that
              some path through the loop body leaves unwritten - unless a whole overwrite came first
  undecided   any other use
"""
from .facts import walk, strip, peel_refs, pat_bindings, children, fn_key, fn_loc, Render
from .layout import with_parents

EXTENT = {"len", "nrows", "ncols", "shape", "dim", "raw_dim", "len_of", "ndim", "is_empty", "nsamples"}
WHOLE = {"assign", "fill"}
MUT_ITERS = {"iter_mut", "outer_iter_mut", "axis_iter_mut", "rows_mut", "genrows_mut", "lanes_mut", "view_mut", "indexed_iter_mut", "as_slice_mut", "par_iter_mut", "into_iter", "columns_mut", "exact_chunks_mut", "axis_chunks_iter_mut"}
READERS = {"iter", "view", "dot", "mapv", "map", "to_owned", "clone", "sum", "mean", "mapv_inplace", "map_inplace", "zip_mut_with", "scaled_add", "indexed_iter", "outer_iter", "axis_iter", "rows", "columns", "fold", "t", "as_slice", "to_vec", "mapv_into", "par_mapv_inplace", "row", "column", "slice", "index_axis", "first", "last", "get", "swap", "accumulate_axis_inplace"}
PASS = {"into_iter", "iter", "rev", "by_ref", "into_par_iter", "par_bridge", "skip", "take", "peekable", "map", "cloned", "copied", "into_iter_"}
ACCUM = {"general_mat_mul": (3, 4), "general_mat_vec_mul": (3, 4), "general_mat_vec_mul_impl": (3, 4)}   # name -> (beta position, output position)
ZERO_NAMES = {"zero"}


class V:
    def __init__(self, verdict, kind, msg, ln):
        self.verdict, self.kind, self.msg, self.ln = verdict, kind, msg, ln


def _mentions(n, loc):
    return any(x.get("k") == "Path" and x.get("local") == loc for x in walk(n))


def _is_zero(c, e):
    e = peel_refs(e)
    if e.get("k") == "Lit":
        try:
            return float(e["v"]) == 0.0
        except ValueError:
            return False
    if e.get("k") == "Call" and not e["args"]:
        f = strip(e["f"])
        if f.get("k") == "Path":
            return (c.dfn(f.get("def")) or {}).get("name") in ZERO_NAMES
    return False


def _pattern_for(iter_expr, pat, target):
    """the sub-pattern of `pat` that receives the items of sub-iterator `target` inside iterator expression `iter_expr`
    (zip <-> 2-tuple, enumerate / indexed <-> (index, item)); None if the correspondence is not understood"""
    e = strip(iter_expr)
    if e is target:
        return pat
    k = e.get("k")
    if k == "Ref" or (k == "Unary" and e["op"] == "*"):
        return _pattern_for(e["e"], pat, target)
    if k == "Call" and len(e["args"]) == 1:    # IntoIterator::into_iter(X)
        return _pattern_for(e["args"][0], pat, target)
    if k == "MethodCall":
        nm = e["name"]
        if nm == "zip" and len(e["args"]) == 1:
            p = pat
            while p.get("k") == "Ref":
                p = p["pat"]
            if p.get("k") != "Tuple" or len(p["pats"]) != 2:
                return None
            if any(x is target for x in walk(e["recv"])):
                return _pattern_for(e["recv"], p["pats"][0], target)
            return _pattern_for(e["args"][0], p["pats"][1], target)
        if nm == "enumerate" and not e["args"]:
            p = pat
            if p.get("k") != "Tuple" or len(p["pats"]) != 2:
                return None
            return _pattern_for(e["recv"], p["pats"][1], target)
        if nm in PASS and nm != "map":
            return _pattern_for(e["recv"], pat, target)
    return None


def must_assign(c, body, elem, ylocal, idx_form):
    """(all paths write the element, violations, unknown uses) for one loop/closure body.
    elem: local bound to the element (&mut T) or None; idx_form: element is `y[..]` with y = ylocal"""
    viol, unknown = [], []

    def is_elem(lhs):
        l0 = strip(lhs)
        if elem is not None:
            b = l0
            while b.get("k") == "Unary" and b["op"] == "*":
                b = strip(b["e"])
            if b.get("k") == "Path" and b.get("local") == elem and l0 is not b:
                return True
            if b.get("k") == "Path" and b.get("local") == elem and l0 is b:
                return True     # `t = ..` on a by-value binding of &mut is a rebinding, but ndarray Zip hands &mut: deref needed; accept
        if idx_form:
            b = l0
            if b.get("k") == "Index" and peel_refs(b["e"]).get("local") == ylocal:
                return True
        return False

    def reads_elem(n):
        for x in walk(n):
            if elem is not None and x.get("k") == "Path" and x.get("local") == elem:
                return True
            if idx_form and x.get("k") == "Index" and peel_refs(x["e"]).get("local") == ylocal:
                return True
        return False

    def go(n):
        """True if every path through n writes the element before leaving n normally"""
        n = strip(n)
        k = n.get("k")
        if k == "Block":
            done = False
            for s in n["stmts"] + ([n["e"]] if n.get("e") else []):
                s0 = strip(s)
                if go(s0):
                    done = True
                elif not done and _exits_unwritten(s0):
                    # `if c { continue; }` before the write: a path leaving the body with the element unwritten
                    go_rest = [go(strip(t)) for t in (n["stmts"] + ([n["e"]] if n.get("e") else []))[(n["stmts"] + ([n["e"]] if n.get("e") else [])).index(s) + 1:]]
                    return False
            return done
        if k == "LetStmt":
            if n.get("init") is not None and reads_elem(n["init"]) and not written[0]:
                viol.append(("reads-previous", n["ln"]))
            return False
        if k == "Assign":
            if is_elem(n["l"]):
                if reads_elem(n["r"]) and not written[0]:
                    viol.append(("reads-previous", n["ln"]))
                written[0] = True
                return True
            if reads_elem(n["r"]) and not written[0]:
                viol.append(("reads-previous", n["ln"]))
            return False
        if k == "AssignOp":
            if is_elem(n["l"]):
                if not written[0]:
                    viol.append(("accumulates", n["ln"]))
                return True
            if reads_elem(n["r"]) and not written[0]:
                viol.append(("reads-previous", n["ln"]))
            return False
        if k == "If":
            if reads_elem(n["c"]) and not written[0]:
                viol.append(("reads-previous", n["ln"]))
            w0 = written[0]
            a = go(n["then"])
            written[0] = w0
            b = go(n["else"]) if n.get("else") is not None else False
            written[0] = w0 or (a and b)
            return a and b
        if k == "Match":
            if reads_elem(n["scrut"]) and not written[0]:
                viol.append(("reads-previous", n["ln"]))
            w0 = written[0]
            allw = True
            for arm in n["arms"]:
                written[0] = w0
                if not go(arm["body"]):
                    # an arm that diverges (break/continue/return/panic) does not count as an unwritten path
                    if not _diverges_simple(arm["body"]):
                        allw = False
            written[0] = w0 or allw
            return allw and bool(n["arms"])
        if k == "MethodCall":
            r = peel_refs(n["recv"])
            if elem is not None and r.get("k") == "Path" and r.get("local") == elem:
                if n["name"] in WHOLE:
                    written[0] = True
                    return True
                if n["name"] in EXTENT:
                    return False
                if not written[0]:
                    (viol if n["name"] in READERS else unknown).append(("reads-previous" if n["name"] in READERS else "use:" + n["name"], n["ln"]))
                return False
            res = False
            for ch in children(n):
                if go(ch):
                    res = True
            return res
        if k == "Loop":
            go(n["body"])
            return False
        if k == "Closure":
            return False
        if k == "Path":
            if elem is not None and n.get("local") == elem and not written[0]:
                unknown.append(("use:bare", n.get("ln", 0)))
            return False
        res = False
        for ch in children(n):
            if go(ch):
                res = True
        return res

    def go_peek(n):
        return False

    def _exits_unwritten(n):
        # `if c { continue; }` before the write: a path leaving the body with the element unwritten
        stack = [n]
        while stack:
            x = stack.pop()
            if not isinstance(x, dict) or x.get("k") in ("Loop", "Closure"):
                continue
            if x.get("k") == "Continue":
                return True
            stack.extend(children(x))
        return False

    def _diverges_simple(b):
        b = strip(b)
        if b.get("k") in ("Break", "Continue", "Ret"):
            return True
        if b.get("k") == "Block":
            last = b.get("e") or (b["stmts"][-1] if b["stmts"] else None)
            if last is not None:
                return _diverges_simple(last)
        if b.get("k") == "Call":
            f = strip(b["f"])
            return f.get("k") == "Path" and (c.dfn(f.get("def")) or {}).get("name", "").startswith("panic")
        return False

    written = [False]
    allp = go(body)
    return allp, viol, unknown


class Checker:
    def __init__(self, facts):
        self.index = {}
        for f in facts.all_fns():
            self.index[(f["d"]["krate"], f["d"].get("raw"))] = f

    def callee(self, c, node):
        d = None
        if node.get("k") == "Call":
            f = strip(node["f"])
            if f.get("k") == "Path":
                d = c.dfn(f.get("def"))
        elif node.get("k") == "MethodCall":
            d = c.dfn(node.get("def"))
        if d is None:
            return None, None
        return d, self.index.get((d.get("krate"), d.get("raw")))

    def check(self, fn, ylocal, depth=0, stack=()):
        """list of V for the uses of target parameter `ylocal` in fn"""
        c = fn["crate"]
        out = []
        overwritten_at = None     # line of a top-level whole overwrite
        nodes = list(with_parents(fn["body"]))
        handled = set()
        top = strip(fn["body"])
        top_stmts = (top["stmts"] + ([top["e"]] if top.get("e") else [])) if top.get("k") == "Block" else [top]

        def top_index(anc, n):
            chain = anc + (n,)
            for i, s in enumerate(top_stmts):
                if any(x is s for x in chain) or any(x is strip(s) for x in chain):
                    return i
            return None

        def unconditional(anc):
            """no If / Match(non-desugar) / Loop / Closure between the function body and the node"""
            for a in anc:
                k = a.get("k")
                if k in ("If", "Loop", "Closure"):
                    return False
                if k == "Match" and a.get("src") not in ("ForLoopDesugar", "TryDesugar", "AwaitDesugar"):
                    # assert_eq! expands to a match on a tuple of references: treat a match whose arms do not mention y as neutral
                    return False
            return True

        whole_idx = None
        uses = []
        for n, anc in nodes:
            if n.get("k") == "Path" and n.get("local") == ylocal:
                uses.append((n, anc))
        for n, anc in uses:
            if id(n) in handled:
                continue
            ti = top_index(anc, n)
            after_whole = whole_idx is not None and ti is not None and ti > whole_idx
            # climb through refs / derefs / reborrows
            child = n
            i = len(anc) - 1
            while i >= 0 and (anc[i].get("k") in ("Ref", "Semi") or (anc[i].get("k") == "Unary" and anc[i]["op"] == "*") or (anc[i].get("k") == "Block" and not anc[i]["stmts"]) or (anc[i].get("k") == "MethodCall" and anc[i]["name"] in ("reborrow", "view_mut", "borrow_mut", "as_mut") and anc[i]["recv"] is child)):
                child = anc[i]
                i -= 1
            par = anc[i] if i >= 0 else None
            pk = par.get("k") if par else None
            ln = n.get("ln") or (par or {}).get("ln") or fn["line"]
            if pk == "Assign" and par["l"] is child:
                if _mentions(par["r"], ylocal):
                    if not after_whole:
                        out.append(V("violation", "reads-previous", "the new content of the target is computed from its previous content", ln))
                elif unconditional(anc[:i]):
                    if whole_idx is None and ti is not None:
                        whole_idx = ti
                    out.append(V("ok", "overwrite", "whole overwrite `*y = ..`", ln))
                else:
                    out.append(V("undecided", "conditional-overwrite", "the whole overwrite of the target is conditional", ln))
                continue
            if pk == "Assign" and par["r"] is child or (pk == "Assign" and any(x is child for x in walk(par["r"]))):
                if not after_whole:
                    out.append(V("violation", "reads-previous", "the previous content of the target is read", ln))
                continue
            if pk == "AssignOp" and par["l"] is child:
                if not after_whole:
                    out.append(V("violation", "accumulates", "compound assignment `%s=` on the target adds to whatever the caller's buffer held" % par["op"], ln))
                continue
            if pk == "MethodCall" and par["recv"] is child:
                nm = par["name"]
                if nm in EXTENT:
                    continue
                if nm in WHOLE:
                    if unconditional(anc[:i]):
                        if whole_idx is None and ti is not None:
                            whole_idx = ti
                        out.append(V("ok", "overwrite", "whole overwrite `y.%s(..)`" % nm, ln))
                    else:
                        out.append(V("undecided", "conditional-overwrite", "the whole overwrite of the target is conditional", ln))
                    continue
                if nm in MUT_ITERS:
                    out.append(self.element_form(fn, ylocal, par, anc[:i], after_whole))
                    continue
                if nm in READERS:
                    if not after_whole:
                        out.append(V("violation", "reads-previous", "`y.%s(..)` reads what the caller's buffer held" % nm, ln))
                    continue
                if nm == "predict_inplace":
                    continue
                if not after_whole:
                    out.append(V("undecided", "use:" + nm, "use of the target through `.%s(..)` not classified" % nm, ln))
                continue
            if pk == "Index" and par["e"] is child:
                # y[i] = .. / .. = y[i]
                j = i - 1
                top_ = par
                while j >= 0 and anc[j].get("k") in ("Ref",):
                    top_ = anc[j]
                    j -= 1
                pp = anc[j] if j >= 0 else None
                if pp is not None and pp.get("k") == "Assign" and pp["l"] is top_:
                    # handled by the loop form below (once per enclosing loop)
                    loop = None
                    for a in reversed(anc[:j]):
                        if a.get("k") == "Loop":
                            loop = a
                            break
                    if loop is None:
                        if not after_whole:
                            out.append(V("undecided", "indexed-write-outside-loop", "single indexed write to the target", ln))
                        continue
                    if id(loop) in handled:
                        continue
                    handled.add(id(loop))
                    allp, viol, unknown = must_assign(c, loop["body"], None, ylocal, True)
                    out.extend(self._verdicts(allp, viol, unknown, loop["ln"], after_whole))
                    continue
                if pp is not None and pp.get("k") == "AssignOp" and pp["l"] is top_:
                    if not after_whole:
                        out.append(V("violation", "accumulates", "compound assignment on an element of the target", ln))
                    continue
                # read of y[i]
                inloop = [a for a in anc if a.get("k") == "Loop"]
                if inloop and id(inloop[-1]) in handled:
                    continue
                if not after_whole:
                    out.append(V("violation", "reads-previous", "an element of the target is read", ln))
                continue
            if (pk == "MethodCall" and any(x is child for x in par["args"])) or (pk == "Call" and any(x is child for x in par["args"])):
                args = par["args"]
                pos = [x is child for x in args].index(True)
                d, g = self.callee(c, par)
                nm = par["name"] if pk == "MethodCall" else (d or {}).get("name")
                if nm in ("and", "and_broadcast") and pk == "MethodCall":
                    out.append(self.zip_form(fn, ylocal, par, anc[:i], after_whole))
                    continue
                if nm == "from" and d is not None and "Zip" in (d.get("path") or ""):
                    out.append(self.zip_form(fn, ylocal, par, anc[:i], after_whole))
                    continue
                if nm == "zip" and pk == "MethodCall":
                    out.append(self.element_form(fn, ylocal, child, anc[:i + 1], after_whole, whole_iter=True))
                    continue
                if nm in ACCUM and d is not None and d.get("krate") == "ndarray":
                    bpos, opos = ACCUM[nm]
                    if pos == opos:
                        if _is_zero(c, args[bpos]):
                            out.append(V("ok", "overwrite", "%s with beta = 0 overwrites the target" % nm, ln))
                            if whole_idx is None and ti is not None and unconditional(anc[:i]):
                                whole_idx = ti
                        elif not after_whole:
                            out.append(V("violation", "accumulates", "`%s(alpha, a, b, beta, y)` with beta that is not the constant zero adds the product to beta times whatever the caller's buffer held" % nm, ln))
                        continue
                if nm == "predict_inplace":
                    if g is not None and depth < 2 and id(g) not in stack and g is not fn:
                        gp = [p for p in g["params"]]
                        gpos = pos + (1 if pk == "MethodCall" else 0)
                        if gpos < len(gp) and gp[gpos].get("k") == "Bind":
                            sub = self.check(g, gp[gpos]["local"], depth + 1, stack + (id(fn),))
                            out.extend(V(v.verdict, v.kind, "via %s: %s" % (g["d"]["name"], v.msg), ln) for v in sub if v.verdict != "ok")
                            out.append(V("ok", "delegate", "delegates to %s" % fn_key(g), ln))
                            if whole_idx is None and ti is not None and unconditional(anc[:i]) and not any(v.verdict != "ok" for v in sub):
                                whole_idx = ti
                            continue
                    out.append(V("ok", "delegate", "delegates to another predict_inplace", ln))
                    if whole_idx is None and ti is not None and unconditional(anc[:i]):
                        whole_idx = ti
                    continue
                if g is not None and depth < 2 and id(g) not in stack and g is not fn:
                    gpos = pos + (1 if pk == "MethodCall" else 0)
                    gp = g["params"]
                    if gpos < len(gp) and gp[gpos].get("k") == "Bind":
                        sub = self.check(g, gp[gpos]["local"], depth + 1, stack + (id(fn),))
                        bad = [v for v in sub if v.verdict != "ok"]
                        out.extend(V(v.verdict, v.kind, "via %s: %s" % (g["d"]["name"], v.msg), ln) for v in bad)
                        if not bad and any(v.verdict == "ok" for v in sub):
                            out.append(V("ok", "delegate", "helper %s writes every element" % g["d"]["name"], ln))
                            if whole_idx is None and ti is not None and unconditional(anc[:i]):
                                whole_idx = ti
                        elif not bad:
                            out.append(V("undecided", "helper-no-write", "helper %s was not seen to write the target" % g["d"]["name"], ln))
                        continue
                if not after_whole:
                    out.append(V("undecided", "passed-to:" + str(nm), "the target is handed to `%s`, whose effect on it is not known" % nm, ln))
                continue
            if pk in ("Tup", "Match", "LetStmt", "Let", "Array"):
                # assert_eq!((a, y.len())) etc. reach here only if y itself (not y.len()) is placed in a tuple / bound
                if pk in ("LetStmt", "Let"):
                    bs = [b["local"] for b in pat_bindings(par["pat"])]
                    if len(bs) == 1:
                        sub = self.check_alias(fn, bs[0], depth, stack)
                        out.extend(sub)
                        continue
                if not after_whole:
                    out.append(V("undecided", "use:" + pk, "use of the target not classified", ln))
                continue
            if not after_whole:
                out.append(V("undecided", "use:" + str(pk), "use of the target not classified", ln))
        return out

    def check_alias(self, fn, loc, depth, stack):
        return self.check(fn, loc, depth, stack)

    def _verdicts(self, allp, viol, unknown, ln, after_whole):
        out = []
        if after_whole:
            return [V("ok", "after-overwrite", "element updates after a whole overwrite", ln)]
        for kind, l in viol:
            msg = {"accumulates": "a compound assignment on the element adds to whatever the caller's buffer held",
                   "reads-previous": "the element's previous content is read before it is written"}[kind]
            out.append(V("violation", kind, msg, l or ln))
        if unknown:
            out.append(V("undecided", unknown[0][0], "use of the target element not classified", unknown[0][1] or ln))
        elif not allp and not viol:
            out.append(V("violation", "conditional-write", "some path through the loop body leaves the element unwritten: it keeps whatever the caller's buffer held", ln))
        elif allp and not viol:
            out.append(V("ok", "element", "every path through the loop body writes the element", ln))
        return out

    def element_form(self, fn, ylocal, itnode, anc, after_whole, whole_iter=False):
        """y.iter_mut() (itnode) somewhere inside the iterator expression of a `for` loop or of `.for_each(closure)`"""
        c = fn["crate"]
        ln = itnode.get("ln", fn["line"])
        # climb to the for-loop desugaring or to a for_each call
        child = itnode
        for j in range(len(anc) - 1, -1, -1):
            a = anc[j]
            k = a.get("k")
            if k == "Match" and a.get("src") == "ForLoopDesugar":
                # Match(into_iter(ITER)) { mut iter => loop { match next(&mut iter) { None => break, Some(PAT) => BODY } } }
                loop = None
                for x in walk(a["arms"][0]["body"]):
                    if x.get("k") == "Loop":
                        loop = x
                        break
                inner = None
                for x in walk(loop["body"]):
                    if x.get("k") == "Match":
                        inner = x
                        break
                some = [arm for arm in inner["arms"] if (arm["pat"].get("k") == "TupleStruct" and arm["pat"].get("pats")) or (arm["pat"].get("k") == "Struct" and arm["pat"].get("fields"))]
                if not some:
                    return V("undecided", "for-form", "for-loop desugaring not understood", ln)
                pat = some[0]["pat"]["pats"][0] if some[0]["pat"]["k"] == "TupleStruct" else some[0]["pat"]["fields"][0]["pat"]
                sub = _pattern_for(a["scrut"], pat, itnode)
                if sub is None or sub.get("k") != "Bind":
                    bs = list(pat_bindings(sub)) if sub is not None else []
                    if len(bs) != 1:
                        return V("undecided", "for-pattern", "the loop pattern receiving the target's elements is not understood", ln)
                    sub = bs[0]
                allp, viol, unknown = must_assign(c, some[0]["body"], sub["local"], ylocal, False)
                vs = self._verdicts(allp, viol, unknown, ln, after_whole)
                return vs[0] if len(vs) == 1 else _merge(vs, ln)
            if k == "MethodCall" and a["name"] in ("for_each", "par_for_each", "try_for_each") and a["args"] and strip(a["args"][0]).get("k") == "Closure" and any(x is itnode for x in walk(a["recv"])):
                clo = strip(a["args"][0])
                if len(clo["params"]) != 1:
                    return V("undecided", "for_each-form", "closure arity not understood", ln)
                sub = _pattern_for(a["recv"], clo["params"][0], itnode)
                if sub is None:
                    return V("undecided", "for_each-pattern", "the closure pattern receiving the target's elements is not understood", ln)
                bs = list(pat_bindings(sub))
                if len(bs) != 1:
                    return V("undecided", "for_each-pattern", "the closure pattern receiving the target's elements is not understood", ln)
                allp, viol, unknown = must_assign(c, clo["body"], bs[0]["local"], ylocal, False)
                vs = self._verdicts(allp, viol, unknown, ln, after_whole)
                return vs[0] if len(vs) == 1 else _merge(vs, ln)
            if k in ("LetStmt", "Closure", "Loop", "If"):
                break
        if after_whole:
            return V("ok", "after-overwrite", "use after a whole overwrite", ln)
        return V("undecided", "mut-iter-form", "mutable iteration over the target outside a for loop / for_each", ln)

    def zip_form(self, fn, ylocal, andnode, anc, after_whole):
        """Zip::from(a).and(y)...for_each(|a, y| BODY): the closure parameter at y's position"""
        c = fn["crate"]
        ln = andnode.get("ln", fn["line"])
        # position of y among the producers
        def producers(e):
            e = strip(e)
            if e.get("k") == "MethodCall" and e["name"] in ("and", "and_broadcast"):
                return producers(e["recv"]) + [e["args"][0]]
            if e.get("k") == "Call":
                d = c.dfn(strip(e["f"]).get("def")) if strip(e["f"]).get("k") == "Path" else None
                if d and d.get("name") == "from":
                    return [e["args"][0]]
                if d and d.get("name") == "indexed":
                    return ["<index>", e["args"][0]]
            return None
        # climb to the consumer
        top = andnode
        for j in range(len(anc) - 1, -1, -1):
            a = anc[j]
            if a.get("k") == "MethodCall" and a["recv"] is top:
                if a["name"] in ("and", "and_broadcast"):
                    top = a
                    continue
                if a["name"] in ("for_each", "par_for_each", "fold_while", "map_collect", "par_map_collect", "map_assign_into", "par_map_assign_into"):
                    prods = producers(top)
                    if prods is None:
                        return V("undecided", "zip-producers", "Zip producers not understood", ln)
                    pos = None
                    for i_, p_ in enumerate(prods):
                        if isinstance(p_, dict) and peel_refs(p_).get("local") == ylocal:
                            pos = i_
                    if a["name"] in ("map_collect", "par_map_collect"):
                        return V("violation", "reads-previous", "the target is an input of a collecting Zip", ln) if not after_whole else V("ok", "after-overwrite", "", ln)
                    if a["name"] in ("map_assign_into", "par_map_assign_into"):
                        return V("undecided", "zip-consumer", "map_assign_into with the target as a producer", ln)
                    clo = strip(a["args"][-1]) if a["args"] else None
                    if pos is None or clo is None or clo.get("k") != "Closure" or pos >= len(clo["params"]):
                        return V("undecided", "zip-closure", "Zip consumer closure not understood", ln)
                    bs = list(pat_bindings(clo["params"][pos]))
                    if len(bs) != 1:
                        return V("undecided", "zip-closure", "Zip consumer closure pattern not understood", ln)
                    allp, viol, unknown = must_assign(c, clo["body"], bs[0]["local"], ylocal, False)
                    vs = self._verdicts(allp, viol, unknown, ln, after_whole)
                    return vs[0] if len(vs) == 1 else _merge(vs, ln)
                break
            if a.get("k") in ("Ref", "Semi"):
                continue
            break
        if after_whole:
            return V("ok", "after-overwrite", "use after a whole overwrite", ln)
        return V("undecided", "zip-consumer", "the Zip built over the target is not consumed by for_each", ln)


def _merge(vs, ln):
    for kind in ("violation", "undecided", "ok"):
        for v in vs:
            if v.verdict == kind:
                return v
    return V("undecided", "empty", "no verdict", ln)



def make_rule(rid, select, floor, what):
    """`predict_inplace` of the selected models overwrites the caller's buffer: nothing of what the buffer held is read or
    accumulated into (BLAS-style calls need beta = 0)"""
    from .core import RuleResult
    from .facts import fn_key, fn_loc

    def rule(ctx):
        res = RuleResult(rid, "predict_inplace of %s writes its result into the target without reading or accumulating into its previous content" % what)
        F = ctx.facts()
        ck = Checker(F)
        # macro-generated impls (linfa-svm's impl_predict!) are predict_inplace bodies like any other
        fns = [f for f in F.all_fns() if f["d"]["name"] == "predict_inplace" and select(f)]
        if len(fns) < floor:
            res.missing_anchor("predict_inplace of %s (found %d)" % (what, len(fns)))
        for fn in fns:
            key = fn_key(fn) + " [" + (fn["inputs"][1][:24] if len(fn["inputs"]) > 1 else "") + "]"
            ps = fn["params"]
            if len(ps) < 3 or ps[2].get("k") != "Bind":
                res.instance(key)
                res.undecided("%s : target-parameter" % key, "third parameter of predict_inplace is not a plain binding", fn_loc(fn))
                continue
            vs = ck.check(fn, ps[2]["local"])
            res.instance("%s : %d uses of the target classified" % (key, len(vs)))
            bad = [v for v in vs if v.verdict != "ok"]
            if not vs:
                res.undecided("%s : no-write" % key, "no write to the target recognised", fn_loc(fn))
            elif not bad:
                res.ok()
            for v in bad:
                if v.verdict == "violation":
                    res.violate("%s : %s" % (key, v.kind), v.msg, fn_loc(fn, v.ln))
                else:
                    res.undecided("%s : %s" % (key, v.kind), v.msg, fn_loc(fn, v.ln))
        return res.finish(floor)
    rule.__name__ = "rule_" + rid.replace("-", "_")
    return rule
