"""C12 — logistic / Tweedie regression: validation dominates the optimiser; shifted soft-max; decision and probabilities share one score."""
from . import layout
import re
from .core import RuleResult
from .facts import fn_key, fn_loc, fn_file, walk, strip, peel_refs, pat_bindings, Render
from .sym import Tracer, Term, Cmp, k, as_term, walk_terms
from . import lse

LEVEL = ("Static analysis of linfa-logistic and the Tweedie GLM: (validate) the target-support test of the Tweedie fit and the "
         "label/shape/finiteness/initial-parameter validation of both logistic fits return their errors before the optimiser "
         "is run; (lse) log-sum-exp and soft-max exponentiate v - max(v), so probabilities stay finite for extreme scores; "
         "(same) the predicted class is computed from the very scores the published probabilities are computed from: the "
         "binary predictor thresholds predict_probabilities(x) itself and maps >= threshold to the positive class, the "
         "multinomial predictor takes the arg-max of the scores that predict_probabilities soft-maxes row by row and reads the "
         "label from the stored class list at that index; (dispatch) every arm of the GLM link/distribution dispatchers calls the "
         "same operation; (penalty) on every path the value of each loss/gradient function and of the optimiser's cost/gradient "
         "adapters is computed from alpha (path-enumerating influence analysis). Stationarity of the returned point is not decided.")
ASSUME = ["rustc resolution/typeck; HIR faithfully dumped", "soft-max is monotone per row, so arg-max of scores equals arg-max of probabilities"]


def rule_validate(ctx):
    res = RuleResult("R-C12-validate", "input/target validation returns its error before the optimiser runs")
    F = ctx.facts()
    # Tweedie
    tw = [f for f in F.find_fns(name="fit", krate="linfa_linear", trait="Fit") if (f["d"].get("self_adt") or "").endswith("TweedieRegressorValidParams")]
    if not tw:
        res.missing_anchor("<TweedieRegressorValidParams as Fit>::fit")
    for fn in tw:
        key = fn_key(fn)
        tr = Tracer(fn).run()
        runs = [e for e in tr.events if e.kind == "call" and e.name == "run" and e.d and "argmin" in e.d.get("path", "")]
        rets = [e for e in tr.events if e.kind == "ret" and as_term(e.val) is not None and as_term(e.val).is_call("Err") and any("call:in_range" in g[1] for g in e.guards)]
        res.instance("%s : in_range(targets) -> Err before Executor::run" % key)
        if runs and rets and min(e.order for e in rets) < min(e.order for e in runs):
            g = [g for g in rets[0].guards if "call:in_range" in g[1]][0]
            neg = g[1].startswith("not(") and g[0] == "+" or (not g[1].startswith("not(") and g[0] == "-")
            # the check is unconditional: every return of the range error that sits under a further condition (a
            # configuration switch such as fit_intercept) leaves the targets unchecked on the other branch
            uncond = [e for e in rets if not [g2 for g2 in e.guards if "call:in_range" not in g2[1]]]
            if neg and not uncond:
                extra = [g2 for g2 in rets[0].guards if "call:in_range" not in g2[1]]
                res.violate("%s : target-range-check-conditional" % key, "the target range check is made only under `%s`: with the condition false the targets are handed to the optimiser unchecked" % extra[0][1][:80], fn_loc(fn, rets[0].node["ln"]))
            elif neg:
                res.ok()
                res.sample({"fn": key, "guard": g[1][:80]})
            else:
                res.violate("%s : in-range-polarity" % key, "the error is returned when the targets ARE in range", fn_loc(fn, rets[0].node["ln"]))
        else:
            res.violate("%s : target-range-not-checked-first" % key, "no `!dist.in_range(y) -> return Err(InvalidTargetRange)` before the optimiser is run", fn_loc(fn))
    # logistic (binary, multinomial)
    lg = [f for f in F.find_fns(name="fit", krate="linfa_logistic", trait="Fit")]
    if len(lg) < 2:
        res.missing_anchor("the two logistic Fit::fit impls (found %d)" % len(lg))
    for fn in lg:
        key = fn_key(fn) + ("#multi" if "label_classes_multi" in Render(fn["crate"]).e(fn["body"]) else "#binary")
        tr = Tracer(fn).run()
        solver = [e for e in tr.events if e.kind == "call" and e.name == "run_solver"]
        if not solver:
            res.undecided("%s : no-solver-call" % key, "run_solver call not found (fail closed)", fn_loc(fn))
            continue
        s0 = min(e.order for e in solver)
        tries = [e for e in tr.events if e.kind == "try" and e.order < s0]
        for what in ("label_classes", "validate_data"):
            res.instance("%s : %s(..)? before run_solver" % (key, what))
            hit = [t for t in tries if as_term(t.val) is not None and as_term(t.val).name.startswith(what)]
            if hit:
                res.ok()
            else:
                res.violate("%s : %s-not-before-solver" % (key, what), "`%s(..)?` does not precede the optimiser call" % what, fn_loc(fn))
        # validate_data is applied to the records and to the encoded target that is optimised
        vd = [e for e in tr.events if e.kind == "call" and e.name == "validate_data"]
        sp = [e for e in tr.events if e.kind == "call" and e.name == "setup_problem"]
        res.instance("%s : validate_data and setup_problem see the same (x, target)" % key)
        if vd and sp and [k(a) for a in vd[0].args] == [k(a) for a in sp[0].args]:
            res.ok()
        else:
            res.violate("%s : validated-other-data" % key, "validate_data is not applied to the (records, encoded target) pair handed to the optimiser", fn_loc(fn))
    # validate_data itself rejects shape mismatch and non-finite values
    for fn in F.find_fns(name="validate_data", krate="linfa_logistic"):
        key = fn_key(fn)
        tr = Tracer(fn).run()
        errs = [e for e in tr.events if e.kind == "ret" and as_term(e.val) is not None and as_term(e.val).is_call("Err")]
        txt = " ".join(g[1] for e in errs for g in e.guards)
        for what, needle in (("shape mismatch", "call:shape("), ("non-finite values", "call:is_finite")):
            res.instance("%s : rejects %s" % (key, what))
            if needle in txt:
                res.ok()
            else:
                res.violate("%s : missing:%s" % (key, what.replace(" ", "-")), "validate_data no longer rejects %s" % what, fn_loc(fn))
    return res.finish(9)


def rule_lse(ctx):
    res = RuleResult("R-LSE", "log-sum-exp / soft-max in linfa-logistic exponentiate v - max(v)")
    F = ctx.facts()
    lse.run(res, F, lambda fn: fn["d"]["krate"] == "linfa_logistic")
    return res.finish(2)


def value_paths(fn):
    """(tail expression, enclosing guards) of every value a function can produce: the tails of its body, of its `return`s
    and of the element closures it maps over arrays with"""
    from .layout import with_parents
    out = []

    def tails(e, guards):
        e = strip(e)
        kk = e.get("k")
        if kk == "Block":
            if e.get("e") is not None:
                tails(e["e"], guards)
            return
        if kk == "If":
            tails(e["then"], guards + [(e["c"], True)])
            if e.get("else") is not None:
                tails(e["else"], guards + [(e["c"], False)])
            return
        if kk == "Match" and e.get("src", "Normal") == "Normal":
            for a in e["arms"]:
                tails(a["body"], guards)
            return
        out.append((e, guards))
    tails(fn["body"], [])
    for n, anc in with_parents(fn["body"]):
        if n.get("k") == "Ret" and n.get("e") is not None:
            g = []
            for j, a in enumerate(anc):
                if a.get("k") == "If":
                    nxt = anc[j + 1] if j + 1 < len(anc) else n
                    g.append((a["c"], nxt is a["then"] or strip(a["then"]) is nxt))
            tails(n["e"], g)
        if n.get("k") == "Closure" and anc and anc[-1].get("k") == "MethodCall" and anc[-1]["name"] in ("mapv", "map", "map_collect", "mapv_into", "par_map_collect", "mapv_inplace", "map_inplace"):
            tails(n["body"], [])
    return out


def rule_derivpaths(ctx):
    """The GLM gradient multiplies deviance'(y, mu) into the chain rule.  Whatever the target, the derivative of the unit
    deviance with respect to the mean depends on the mean (it is -2 (y - mu) / v(mu)): a path of
    unit_deviance_derivative that returns a value computed without the predicted mean - a constant for y == 0, say - is
    the derivative of some other function for every power but one, and the optimiser then solves for the root of a
    gradient that is not the cost's."""
    res = RuleResult("R-C12-derivpaths", "every value path of TweedieDistribution::unit_deviance_derivative is computed from the predicted mean")
    F = ctx.facts()
    fns = [f for f in F.all_fns() if f["d"]["krate"] == "linfa_linear" and f["d"]["name"] == "unit_deviance_derivative"]
    if not fns:
        res.missing_anchor("TweedieDistribution::unit_deviance_derivative")
    for fn in fns:
        key = fn_key(fn)
        ps = [b for p_ in fn["params"] for b in pat_bindings(p_) if b["name"] != "self"]
        if len(ps) < 2:
            res.instance(key)
            res.undecided("%s : parameters" % key, "expected (y, ypred) parameters", fn_loc(fn))
            continue
        mean = "param:" + ps[1]["name"]
        paths = value_paths(fn)
        res.instance("%s : %d value paths" % (key, len(paths)))
        bad = None
        for e, guards in paths:
            ing = ingredients(fn, e)
            if mean not in ing and not any(x.startswith("?") for x in ing):
                bad = (e, ing)
                break
        if bad:
            res.violate("%s : path-ignores-mean" % key, "a value path of the deviance derivative (`%s`) is computed without the predicted mean `%s`: on that path it is not the derivative of the unit deviance with respect to the mean" % (Render(fn["crate"]).e(bad[0])[:50], ps[1]["name"]), fn_loc(fn, bad[0].get("ln")))
        elif not paths:
            res.undecided("%s : no-value-path" % key, "no value path found", fn_loc(fn))
        else:
            res.ok()
    return res.finish(1)


def rule_stop(ctx):
    """'fit returns a point whose gradient is within the tolerance, or reports that it did not converge': the only
    stopping criteria the logistic solver is configured with are the gradient tolerance and the iteration budget.  A cost
    tolerance makes the solver return, as converged, a point whose gradient is far above the tolerance on badly scaled data."""
    res = RuleResult("R-C12-stop", "the L-BFGS solver of linfa-logistic is configured with the gradient tolerance only (no additional cost-change stopping rule)")
    F = ctx.facts()
    fns = [f for f in F.all_fns() if f["d"]["krate"] == "linfa_logistic" and f["d"]["name"] == "setup_solver"]
    if not fns:
        res.missing_anchor("LogisticRegressionValidParams::setup_solver")
    for fn in fns:
        c = fn["crate"]
        key = fn_key(fn)
        calls = [n for n in walk(fn["body"]) if n.get("k") == "MethodCall" and (c.dfn(n.get("def")) or {}).get("krate", "").startswith("argmin")]
        names = sorted(set(n["name"] for n in calls))
        res.instance("%s : solver configured through %s" % (key, names))
        if "with_tolerance_grad" not in names:
            res.undecided("%s : gradient-tolerance" % key, "the call that sets the gradient tolerance was not found", fn_loc(fn))
        elif "with_tolerance_cost" in names:
            n0 = [n for n in calls if n["name"] == "with_tolerance_cost"][0]
            res.violate("%s : cost-tolerance" % key, "the solver is also given a cost tolerance: it stops, and reports success, when the cost changes by less than that between two iterations - on badly scaled features long before the gradient is within gradient_tolerance", fn_loc(fn, n0["ln"]))
        else:
            res.ok()
    return res.finish(1)


def binary_decision(res, F, fn, key):
    """The binary decision compares a probability with self.threshold.  The compared value must be computed from the
    same ingredients as the published probabilities (predict_probabilities itself, or the same score function applied
    to the same model fields), and a probability at or above the threshold must select the positive class."""
    c = fn["crate"]
    r = Render(c)
    pp = [f for f in F.find_fns(name="predict_probabilities", krate="linfa_logistic") if (f["d"].get("self_adt") or "").endswith("FittedLogisticRegression")]
    if not pp:
        return False
    pbody = strip(pp[0]["body"])
    pval = pbody.get("e") if pbody.get("k") == "Block" and pbody.get("e") is not None else pbody
    P = set(x for x in ingredients(pp[0], pbody) if not x.startswith("param:"))
    cands = []
    for n in walk(fn["body"]):
        if n.get("k") == "If" and n.get("else") is not None:
            cond = strip(n["c"])
            if cond.get("k") == "Binary" and cond["op"] in (">=", ">", "<", "<="):
                il, ir = ingredients(fn, cond["l"]), ingredients(fn, cond["r"])
                if "self.threshold" in il or "self.threshold" in ir:
                    cands.append((n, cond, il, ir))
    if not cands:
        return False
    n, cond, il, ir = cands[0]
    thr_left = "self.threshold" in il and "self.threshold" not in ir
    prob = ir if thr_left else il
    prob = set(x for x in prob if not x.startswith("param:"))
    res.instance("%s : decision value computed from %s" % (key, sorted(prob)))
    unresolved = [x for x in prob if x.startswith("?")]
    if "call:predict_probabilities" in prob:
        res.ok()
    elif unresolved:
        res.undecided("%s : decision-value" % key, "the value compared with the threshold could not be traced (%s)" % unresolved, fn_loc(fn, cond.get("ln")))
    elif prob == P:
        res.ok()
        res.sample({"fn": key, "rule": "decision value and predict_probabilities are built from the same ingredients %s" % sorted(P)})
    else:
        res.violate("%s : other-scores" % key, "the value compared with the threshold is built from %s, the published probabilities from %s: the decision is not a threshold on the published probability" % (sorted(prob), sorted(P)), fn_loc(fn, cond.get("ln")))
    # direction: probability >= threshold -> positive class
    defs = {}
    for s_ in walk(fn["body"]):
        if s_.get("k") == "LetStmt" and s_.get("init") is not None:
            for b in pat_bindings(s_["pat"]):
                defs[b["name"]] = r.e(s_["init"])

    def side(t):
        for nm, d in defs.items():
            if re.search(r"\b%s\b" % re.escape(nm), t):
                if ".pos." in d:
                    return "pos"
                if ".neg." in d:
                    return "neg"
        return "pos" if ".pos." in t else ("neg" if ".neg." in t else None)
    ts, es = side(r.e(n["then"])), side(r.e(n["else"]))
    op = cond["op"]
    prob_left = not thr_left
    high_is_then = (prob_left and op in (">=", ">")) or (thr_left and op in ("<=", "<"))
    strict_wrong = False
    res.instance("%s : prob %s threshold -> %s else %s" % (key, op, ts, es))
    if ts is None or es is None:
        res.undecided("%s : class-sides" % key, "the classes selected by the two branches were not identified", fn_loc(fn, n.get("ln")))
    elif ((high_is_then and ts == "pos" and es == "neg") or (not high_is_then and ts == "neg" and es == "pos")) and not strict_wrong:
        res.ok()
    else:
        res.violate("%s : threshold-direction" % key, "probabilities at or above the threshold are not mapped to the positive class (or the comparison is not against self.threshold)", fn_loc(fn, n.get("ln")))
    return True


def closure_of_for_each(fn):
    for n in walk(fn["body"]):
        if n.get("k") == "MethodCall" and n["name"] == "for_each" and n["args"]:
            c = strip(n["args"][0])
            if c.get("k") == "Closure":
                return n, c
    return None, None


SEMANTIC_EXTERNAL = {"dot", "argmax", "argmin", "exp", "ln", "sum_axis", "general_mat_vec_mul", "general_mat_mul"}


def ingredients(fn, expr, depth=0, seen=None):
    """What a value is computed from, as a set of names: self fields (`self.params`), calls of functions defined in the
    workspace (`logistic`, `predict_probabilities`) and a few numeric library calls (dot, argmax, exp).  Locals are followed
    to their initialisers, loop / closure bindings to the sequences they iterate over.  '?name' marks an unresolved local."""
    from .layout import with_parents
    c = fn["crate"]
    seen = seen if seen is not None else set()
    out = set()
    if "_bind" not in fn:
        binds = {}
        for n, anc in with_parents(fn["body"]):
            k_ = n.get("k")
            if k_ == "LetStmt" and n.get("init") is not None:
                for b in pat_bindings(n["pat"]):
                    binds[b["local"]] = n["init"]
            elif k_ == "Let":
                for b in pat_bindings(n["pat"]):
                    binds[b["local"]] = n["init"]
            elif k_ == "Match":
                for arm in n["arms"]:
                    for b in pat_bindings(arm["pat"]):
                        binds.setdefault(b["local"], n["scrut"])
            elif k_ == "Closure":
                # the closure is an argument of some call: its parameters range over that call's receiver / other arguments
                par = anc[-1] if anc else None
                src = None
                if par is not None and par.get("k") == "MethodCall":
                    src = {"k": "Tup", "es": [par["recv"]] + [a for a in par["args"] if strip(a) is not n]}
                elif par is not None and par.get("k") == "Call":
                    src = {"k": "Tup", "es": [a for a in par["args"] if strip(a) is not n]}
                for p_ in n["params"]:
                    for b in pat_bindings(p_):
                        if src is not None:
                            binds[b["local"]] = src
        for p_ in fn["params"]:
            for b in pat_bindings(p_):
                binds.setdefault(b["local"], None)
        fn["_bind"] = binds
    binds = fn["_bind"]
    skip = set()
    for n in walk(expr):
        if n.get("k") == "MethodCall" and n["name"] in ("len", "nrows", "ncols", "dim", "raw_dim", "shape", "len_of", "ndim", "is_empty"):
            for y in walk(n["recv"]):
                skip.add(id(y))       # an extent does not depend on the values stored in the array
    for n in walk(expr):
        if id(n) in skip:
            continue
        k_ = n.get("k")
        if k_ == "Field":
            b = peel_refs(n["e"])
            if b.get("k") == "Path" and b.get("name") == "self":
                out.add("self." + n["name"])
        if k_ == "MethodCall":
            d = c.dfn(n.get("def"))
            if d is not None and (d.get("krate", "").startswith("linfa") or n["name"] in SEMANTIC_EXTERNAL):
                out.add("call:" + n["name"])
        if k_ == "Call":
            f = strip(n["f"])
            d = c.dfn(f.get("def")) if f.get("k") == "Path" else None
            if d is not None and d.get("krate", "").startswith("linfa") and d.get("name") and d["name"][0].islower():
                out.add("call:" + d["name"])
        if k_ == "Path" and "def" in n and "local" not in n:
            d = c.dfn(n["def"])
            if d is not None and d.get("krate", "").startswith("linfa") and d.get("name") and d["name"][0].islower() and d.get("pk") != "trait":
                out.add("call:" + d["name"])     # a function passed by name (mapv_inplace(logistic))
        if k_ == "Path" and "local" in n and n.get("name") != "self":
            l = n["local"]
            if l in seen:
                continue
            seen.add(l)
            if l in binds and binds[l] is not None and depth < 8:
                out |= ingredients(fn, binds[l], depth + 1, seen)
            elif l in binds and binds[l] is None:
                out.add("param:" + (n.get("name") or "?"))
            else:
                out.add("?" + (n.get("name") or "?"))
    return out


def rule_same(ctx):
    res = RuleResult("R-C12-same", "class decision and published probabilities share one score computation")
    F = ctx.facts()
    preds = [f for f in F.find_fns(name="predict_inplace", krate="linfa_logistic", trait="PredictInplace")]
    if len(preds) < 2:
        res.missing_anchor("logistic predict_inplace impls (found %d)" % len(preds))
    for fn in preds:
        c = fn["crate"]
        r = Render(c)
        st = (fn["d"].get("self_adt") or "").split("::")[-1]
        key = fn_key(fn)
        xname = fn["params"][1]["name"] if len(fn["params"]) > 1 and fn["params"][1].get("k") == "Bind" else "x"
        call, clo = closure_of_for_each(fn)
        if st == "FittedLogisticRegression":
            done = binary_decision(res, F, fn, key)
            if done:
                continue
        if clo is None:
            res.undecided("%s : no-row-closure" % key, "per-row decision closure not found (fail closed)", fn_loc(fn))
            continue
        chain = r.e(call["recv"])
        if st == "FittedLogisticRegression":
            res.instance("%s : thresholds predict_probabilities(%s)" % (key, xname))
            if "self.predict_probabilities(%s)" % xname in chain:
                res.ok()
            else:
                res.violate("%s : other-scores" % key, "the binary decision does not iterate over self.predict_probabilities(%s): %s" % (xname, chain[:100]), fn_loc(fn))
            # >= threshold -> positive class
            ifs = [n for n in walk(clo["body"]) if n.get("k") == "If" and n.get("else")]
            ok = False
            for n in ifs:
                cond = strip(n["c"])
                if cond.get("k") == "Binary" and cond["op"] in (">=", ">", "<", "<="):
                    l, rr = r.e(cond["l"]), r.e(cond["r"])
                    pids = [b["name"] for p in clo["params"] for b in pat_bindings(p)]
                    prob_left = pids and pids[0] in l and "threshold" in rr
                    prob_right = pids and pids[0] in rr and "threshold" in l
                    then_txt, else_txt = r.e(n["then"]), r.e(n["else"])
                    # resolve the class locals to their definitions
                    defs = {}
                    for s in walk(fn["body"]):
                        if s.get("k") == "LetStmt" and s.get("init") is not None:
                            for b in pat_bindings(s["pat"]):
                                defs[b["name"]] = r.e(s["init"])
                    def side(t):
                        for nm, d in defs.items():
                            if nm in t:
                                if ".pos." in d:
                                    return "pos"
                                if ".neg." in d:
                                    return "neg"
                        return "pos" if ".pos." in t else ("neg" if ".neg." in t else None)
                    ts, es = side(then_txt), side(else_txt)
                    high_is_then = (prob_left and cond["op"] in (">=", ">")) or (prob_right and cond["op"] in ("<=", "<"))
                    high_is_else = (prob_left and cond["op"] in ("<=", "<")) or (prob_right and cond["op"] in (">=", ">"))
                    if (high_is_then and ts == "pos" and es == "neg") or (high_is_else and ts == "neg" and es == "pos"):
                        ok = True
                    res.instance("%s : prob %s threshold -> %s else %s" % (key, cond["op"], ts, es))
            if ok:
                res.ok()
            else:
                res.violate("%s : threshold-direction" % key, "probabilities at or above the threshold are not mapped to the positive class (or the comparison is not against self.threshold)", fn_loc(fn))
        else:
            res.instance("%s : arg-max over predict_nonorm_probabilities(%s)" % (key, xname))
            defs = {}
            for s in walk(fn["body"]):
                if s.get("k") == "LetStmt" and s.get("init") is not None:
                    for b in pat_bindings(s["pat"]):
                        defs[b["name"]] = r.e(s["init"])
            src = chain
            for nm, d in defs.items():
                if nm + "." in chain or "(" + nm + ")" in chain:
                    src = chain.replace(nm, d)
            if "self.predict_nonorm_probabilities(%s)" % xname in src or "self.predict_probabilities(%s)" % xname in src:
                res.ok()
            else:
                res.violate("%s : other-scores" % key, "the multinomial decision does not iterate over the rows of the model's own scores: %s" % src[:100], fn_loc(fn))
            body = r.e(clo["body"])
            res.instance("%s : label = classes[argmax(row)]" % key)
            pids = [b["name"] for p in clo["params"] for b in pat_bindings(p)]
            if pids and "%s.argmax()" % pids[0] in body and "self.classes[idx]" in body.replace("*", "") or (pids and ".argmax()" in body and "self.classes[" in body):
                res.ok()
            else:
                res.violate("%s : label-lookup" % key, "the label is not read from the stored class list at the arg-max index of the row", fn_loc(fn))
    # the multinomial probabilities are the soft-max of the same scores
    for fn in F.find_fns(name="predict_probabilities", krate="linfa_logistic"):
        st = (fn["d"].get("self_adt") or "").split("::")[-1]
        if st != "MultiFittedLogisticRegression":
            continue
        r = Render(fn["crate"])
        body = r.e(fn["body"])
        key = fn_key(fn)
        res.instance("%s : soft-max of predict_nonorm_probabilities(x), row by row" % key)
        if "self.predict_nonorm_probabilities(x)" in body and "softmax_inplace" in body and "rows_mut()" in body:
            res.ok()
        else:
            res.violate("%s : probabilities-from-other-scores" % key, "published probabilities are not the row-wise soft-max of predict_nonorm_probabilities(x)", fn_loc(fn))
    return res.finish(5)


def rule_dispatch(ctx):
    """Sibling agreement of enum dispatchers in the GLM: every arm of `match self { A => AImpl::f(..), B => BImpl::f(..) }`
    must call the same method (functions stored in the same dispatch slot must be the same operation)."""
    res = RuleResult("R-C12-dispatch", "every arm of a GLM link/distribution dispatcher calls the same method of its variant's implementation")
    F = ctx.facts()
    fns = [f for f in F.all_fns() if f["d"]["krate"] == "linfa_linear" and "/glm/" in fn_file(f) and (f["d"].get("self_adt") or "").split("::")[-1] in ("Link", "TweedieDistribution")]
    n = 0
    for fn in fns:
        c = fn["crate"]
        b = strip(fn["body"])
        if b.get("k") != "Match" or b.get("src") != "Normal" or len(b["arms"]) < 2:
            continue
        if peel_refs(b["scrut"]).get("name") != "self":
            continue
        names = []
        for a in b["arms"]:
            body = strip(a["body"])
            if body.get("k") == "Call":
                d = c.dfn(strip(body["f"]).get("def")) if strip(body["f"]).get("k") == "Path" else None
                names.append(d["name"] if d else "?")
            elif body.get("k") == "MethodCall":
                names.append(body["name"])
            else:
                names.append(None)
        if None in names:
            continue
        n += 1
        key = fn_key(fn)
        res.instance("%s : arms call %s" % (key, sorted(set(names))))
        if len(set(names)) == 1:
            res.ok()
            res.sample({"dispatcher": key, "method": names[0], "arms": len(names)})
        else:
            from collections import Counter
            odd = [x for x, cnt in Counter(names).items() if cnt == 1]
            res.violate("%s : arms-disagree" % key, "the arms of the dispatcher call different methods %s: one variant is dispatched to the wrong operation" % sorted(set(names)), fn_loc(fn))
    return res.finish(3)


def rule_penalty(ctx):
    """The documented objectives carry the L2 penalty alpha: loss, gradient and the optimiser's cost/gradient adapters
    must be influenced by alpha on every path (with and without intercept). A path that returns a value computed
    without alpha is the objective of another problem, so the returned point is not stationary for the documented one."""
    from .influence import Influence
    res = RuleResult("R-C12-penalty", "on every path, each objective / gradient function (and its optimiser adapter) computes its value from the regularisation strength alpha")
    F = ctx.facts()
    targets = []
    for nm in ("logistic_loss", "logistic_grad", "multi_logistic_loss", "multi_logistic_grad"):
        fs = F.find_fns(name=nm, krate="linfa_logistic")
        if not fs:
            res.missing_anchor("linfa_logistic::%s" % nm)
        targets += [(f, "param:alpha") for f in fs]
    for krate, want in (("linfa_logistic", 4), ("linfa_linear", 2)):
        fs = [f for f in F.all_fns() if f["d"]["krate"] == krate and f["d"]["name"] in ("cost", "gradient") and (f["d"].get("trait") or "").split("::")[-1] in ("CostFunction", "Gradient")]
        if len(fs) < want:
            res.missing_anchor("%s: optimiser adapters cost/gradient (expected %d, found %d)" % (krate, want, len(fs)))
        targets += [(f, "self.alpha") for f in fs]
    for f, src in targets:
        key = fn_key(f)
        inf = Influence(f).run()
        rets = [r_ for r_ in inf.returns]
        res.instance("%s : %d paths" % (key, len(rets)))
        bad = [r_ for r_ in rets if src not in r_[0] and not (r_[0] and all(x.startswith("call:Err") for x in r_[0]))]
        # error returns (`?` residuals) carry no objective value
        bad = [r_ for r_ in bad if r_[1] is None or True]
        if not rets:
            res.undecided("%s : no-return-paths" % key, "no return path found (fail closed)", fn_loc(f))
        elif bad:
            path = " / ".join(bad[0][2]) or "the only path"
            res.violate("%s : path-without-penalty" % key, "on path [%s] the returned value is computed without `%s`: the L2 penalty is missing from that branch of the objective/gradient" % (path[:120], src.split(":")[-1]), fn_loc(f))
        else:
            res.ok()
            res.sample({"fn": key, "paths": len(rets), "source": src})
    return res.finish(10)


def rule_ratio(ctx):
    """'predictions in the link's range', 'probabilities lie in [0,1] even for extreme inputs': a quotient with an
    exponential of the same unbounded argument above and below the line is inf/inf = NaN once exp overflows."""
    res = RuleResult("R-C12-ratio", "no quotient has an unshifted, unguarded exp of the score both in numerator and denominator (sigmoid / inverse links stay finite for extreme scores)")
    F = ctx.facts()
    n = 0
    scope = lambda fn: fn["d"]["krate"] == "linfa_logistic" or (fn["d"]["krate"] == "linfa_linear" and "/glm/" in fn_file(fn)) or (fn["d"]["krate"] == "linfa" and fn_file(fn).endswith("platt_scaling.rs"))
    checked = 0
    for fn in F.all_fns():
        if not scope(fn):
            continue
        checked += 1
        for node, ok, why in lse.exp_ratio_sites(fn):
            n += 1
            inst = "%s : quotient of exponentials #%d (%s)" % (fn_key(fn), n, why)
            res.instance(inst)
            if ok:
                res.ok()
            else:
                res.violate("%s : exp-over-exp" % fn_key(fn), "`%s` divides an exponential of the score by an expression containing the same exponential, with no sign test and no shift: for scores beyond the overflow threshold of exp the quotient is inf/inf = NaN instead of saturating" % Render(fn["crate"]).e(node)[:80], fn_loc(fn, node["ln"]))
    res.instance("scope: %d function bodies of linfa-logistic, the GLM and Platt scaling scanned for exp/exp quotients" % checked)
    if checked >= 40:
        res.ok()
    else:
        res.undecided("scope-too-small", "only %d function bodies in scope (expected at least 40): the rule would pass vacuously" % checked, "")
    return res.finish(1)


rule_memorder = layout.make_rule("R-C12-memorder", "raw memory-order buffers (as_slice_memory_order, into_raw_vec, as_ptr) of records and parameters are used by position only behind an is_standard_layout() test", lambda f: f["d"]["krate"] in ("linfa_logistic",) or (f["d"]["krate"] == "linfa_linear" and "glm" in fn_file(f)), "linfa-logistic and the GLM of linfa-linear")

def rule_chain(ctx):
    """The GLM gradient is the chain rule d cost / d coef = X^T (deviance'(mu) * h'(eta)) with mu = h(eta): it is the
    gradient of the cost only if `inverse_derivative` is the derivative of `inverse`, for every link.  Both are
    element-wise maps written as closed expressions; they are read into rational functions over x, exp(.), ln(.),
    `inverse` is differentiated and the two are compared by cross-multiplication (rules/calc.py).  A clamp or branch in
    one of the two that the other does not have makes them a function and the derivative of a different function."""
    from . import calc
    res = RuleResult("R-C12-chain", "for every link, inverse_derivative is the symbolic derivative of inverse (the gradient's chain rule differentiates the function the cost evaluates)")
    F = ctx.facts()
    impls = {}
    for f in F.all_fns():
        d = f["d"]
        if d["krate"] == "linfa_linear" and (d.get("trait") or "").endswith("LinkFn") and d["name"] in ("inverse", "inverse_derivative"):
            impls.setdefault(d.get("self_adt") or d.get("self_ty"), {})[d["name"]] = f
    if len(impls) < 3:
        res.missing_anchor("LinkFn impls with inverse / inverse_derivative (found %d)" % len(impls))
    for adt in sorted(impls):
        pair = impls[adt]
        label = "linfa_linear::%s" % adt.split("::")[-1]
        res.instance("%s : d/dx inverse == inverse_derivative" % label)
        if "inverse" not in pair or "inverse_derivative" not in pair:
            res.undecided("%s : pair-incomplete" % label, "inverse / inverse_derivative not both found", "algorithms/linfa-linear/src/glm/link.rs")
            continue
        out = {}
        for nm in ("inverse", "inverse_derivative"):
            ck = calc.Calc()
            try:
                out[nm] = (ck, ck.read_array_fn(pair[nm]), None)
            except calc.Unsupported as e:
                out[nm] = (ck, None, str(e))
        (c1, f1, e1), (c2, f2, e2) = out["inverse"], out["inverse_derivative"]
        if e1 or e2:
            if bool(c1.clamps) != bool(c2.clamps):
                which = "inverse" if c1.clamps else "inverse_derivative"
                other = "inverse_derivative" if c1.clamps else "inverse"
                res.violate("%s : clamp-in-%s-only" % (label, which), "`%s` is clamped or branches (%s) while `%s` is a smooth expression: where the clamp is active the one is not the derivative of the other, so the gradient and the cost belong to different functions" % (which, ", ".join((c1.clamps or c2.clamps)[:2]), other), fn_loc(pair[which]))
            else:
                res.undecided("%s : not-read" % label, "the element-wise map could not be read: %s" % (e1 or e2), fn_loc(pair["inverse"]))
            continue
        try:
            df = c1.diff(f1)
            # atoms of the two readers carry the same names by construction (canonical argument keys)
            same = df.equals(f2)
        except calc.Unsupported as e:
            res.undecided("%s : not-differentiated" % label, str(e), fn_loc(pair["inverse"]))
            continue
        if same:
            res.ok()
            res.sample({"link": label, "inverse": f1.key()[:120], "derivative": df.key()[:160]})
        else:
            res.violate("%s : derivative-mismatch" % label, "d/dx of `inverse` is %s, but `inverse_derivative` computes %s" % (df.key()[:120], f2.key()[:120]), fn_loc(pair["inverse_derivative"]))
    return res.finish(3)


def rule_ownsolver(ctx):
    """The point a logistic fit returns is a stationary point of *its* penalised objective only if it comes out of the solver
    run on that objective.  A special case that hands the data to a sibling model (the binomial solver for two classes) and
    re-packs its solution optimises the sibling's objective - the same likelihood, but another penalty for the same alpha."""
    res = RuleResult("R-C12-ownsolver", "every non-error path of the logistic fits goes through the solver run on the model's own problem (no early return of a re-packed sibling fit)")
    F = ctx.facts()
    fns = [f for f in F.all_fns() if f["d"]["krate"] == "linfa_logistic" and f["d"]["name"] == "fit" and (f["d"].get("trait") or "").endswith("Fit") and not f.get("exp")]
    if len(fns) < 2:
        res.missing_anchor("the two Fit impls of linfa-logistic (found %d)" % len(fns))
    for fn in fns:
        c = fn["crate"]
        r = Render(c)
        key = fn_key(fn)
        res.instance(key)
        run = next((y for y in walk(fn["body"]) if y.get("k") in ("MethodCall", "Call") and ((y.get("name") in ("run_solver", "setup_problem", "run")) or (y.get("k") == "Call" and (c.dfn(strip(y["f"]).get("def")) or {}).get("name") in ("run_solver", "setup_problem")))), None)
        if run is None:
            res.undecided("%s : solver-run" % key, "no setup_problem / run_solver call (fail closed)", fn_loc(fn))
            continue
        early = None
        for y in walk(fn["body"]):
            if y.get("k") == "Ret" and y.get("e") is not None and (y.get("ln") or 0) < (run.get("ln") or 0):
                e0 = peel_refs(y["e"])
                nm = (c.dfn(strip(e0["f"]).get("def")) or {}).get("name") if e0.get("k") == "Call" and strip(e0["f"]).get("k") == "Path" else None
                if nm not in ("Err", "from_residual"):
                    early = y
        if early is not None:
            # a second route to a model (a special case handed to a sibling solver, say): whether it optimises the same
            # penalised objective depends on how the parameters are translated - a statement about values
            res.undecided("%s : second-route-to-a-model" % key, "`%s` returns a model before the model's own problem is set up and solved; that this route optimises the same objective (the same penalty for the same alpha) is not decided" % r.e(early)[:60], fn_loc(fn, early.get("ln")))
        else:
            res.ok()
    return res.finish(2)


def rule_tolgrad(ctx):
    """The fits stop when the gradient norm falls below the configured tolerance: that is the number handed to the solver.
    Multiplied by the number of samples (a "per-sample" reading of it) the returned point's gradient is n times larger than
    the caller asked for - invisible on the tests' handful of rows."""
    res = RuleResult("R-C12-tolgrad", "the gradient tolerance handed to L-BFGS is the configured one, not scaled by a size of the data")
    F = ctx.facts()
    n = 0
    for fn in F.all_fns():
        if fn["d"]["krate"] not in ("linfa_logistic", "linfa_linear") or fn.get("exp"):
            continue
        c = fn["crate"]
        r = Render(c)
        inits = {}
        for y in walk(fn["body"]):
            if y.get("k") == "LetStmt" and y.get("init") is not None and y["pat"].get("k") == "Bind":
                inits[y["pat"]["local"]] = y["init"]
        for y in walk(fn["body"]):
            if y.get("k") != "MethodCall" or y["name"] not in ("with_tolerance_grad", "with_tolerance_cost") or not y["args"]:
                continue
            n += 1
            key = "%s : %s" % (fn_key(fn), y["name"])
            res.instance(key)
            e = peel_refs(y["args"][0])
            seen = 0
            while seen < 6:
                seen += 1
                if e.get("k") == "Path" and e.get("local") in inits:
                    e = peel_refs(inits[e["local"]])
                elif e.get("k") == "Call" and len(e["args"]) == 1:
                    e = peel_refs(e["args"][0])
                elif e.get("k") == "MethodCall" and e["name"] in ("unwrap", "into") and not e["args"]:
                    e = peel_refs(e["recv"])
                else:
                    break
            if e.get("k") == "Binary" and e["op"] in ("*", "/"):
                sizes = [z for z in walk(e) if z.get("k") == "MethodCall" and z["name"] in ("len", "nrows", "ncols", "nsamples", "nfeatures", "len_of", "dim", "shape")]
                if sizes:
                    res.violate("%s : tolerance-scaled-by-data-size" % key, "`%s`: the configured tolerance is multiplied / divided by `%s` before it reaches the solver: the gradient at the returned point is bounded by another number than the one the caller set (looser by the number of samples, say)" % (r.e(e)[:50], r.e(sizes[0])[:30]), fn_loc(fn, y.get("ln")))
                else:
                    res.undecided("%s : tolerance-arithmetic" % key, "`%s`: arithmetic between the setting and the solver (fail closed)" % r.e(e)[:50], fn_loc(fn, y.get("ln")))
            else:
                res.ok()
    if n < 2:
        res.missing_anchor("with_tolerance_grad calls in linfa-logistic / linfa-linear (found %d)" % n)
    return res.finish(2)


def rule_shift(ctx):
    """softmax and log-sum-exp subtract the lane's *maximum* before exponentiating - that is what keeps exp() in range for
    |x.w| ~ 1e3.  A running maximum started from a finite constant (`fold(0, max)`) is the maximum only for lanes with an
    entry above the constant: for a lane of large negative scores the shift is 0, every exp() underflows and the
    probabilities are 0 / 0."""
    res = RuleResult("R-C12-shift", "the shift of softmax_inplace / log_sum_exp is a maximum over the lane alone (a running maximum starts from -inf or from an element)")
    F = ctx.facts()
    fns = [f for f in F.all_fns() if f["d"]["krate"] == "linfa_logistic" and f["d"]["name"] in ("softmax_inplace", "log_sum_exp")]
    if len(fns) < 2:
        res.missing_anchor("softmax_inplace / log_sum_exp (found %d)" % len(fns))
    for fn in fns:
        c = fn["crate"]
        r = Render(c)
        key = fn_key(fn)
        res.instance(key)
        bad = None
        found = False
        for y in walk(fn["body"]):
            if y.get("k") != "MethodCall" or y["name"] not in ("fold", "fold_axis") or len(y["args"]) < 2:
                continue
            f_ = strip(y["args"][-1])
            is_max = any((z.get("k") == "MethodCall" and z["name"] == "max") or (z.get("k") == "Path" and (c.dfn(z.get("def")) or {}).get("name") == "max") for z in walk(f_))
            if not is_max:
                continue
            found = True
            init = peel_refs(y["args"][-2])
            while init.get("k") == "Call" and len(init["args"]) == 1:
                init = peel_refs(init["args"][0])
            nm = (c.dfn(strip(init.get("f", {})).get("def")) or {}).get("name") if init.get("k") == "Call" else (c.dfn(init.get("def")) or {}).get("name") if init.get("k") == "Path" else None
            if init.get("k") == "Lit" or nm in ("zero", "one", "epsilon", "min_positive_value"):
                bad = (y, init)
            elif init.get("k") == "Unary" and init.get("op") in ("-", "Neg") and peel_refs(init["e"]).get("k") == "Lit":
                bad = (y, init)
        if any(z.get("k") == "MethodCall" and z["name"] in ("reduce", "max_by", "fold_first") for z in walk(fn["body"])):
            found = True
        if bad:
            res.violate("%s : maximum-started-from-finite-constant" % key, "`%s`: the running maximum starts from `%s`, so for a lane whose entries are all below it the shift is that constant, not the lane's maximum - exp() underflows for large negative scores and the probabilities are 0 / 0" % (r.e(bad[0])[:50], r.e(bad[1])[:20]), fn_loc(fn, bad[0].get("ln")))
        elif found:
            res.ok()
        else:
            res.undecided("%s : shift-form" % key, "no maximum reduction recognised (fail closed)", fn_loc(fn))
    return res.finish(2)


def rule_zerobranch(ctx):
    """The unit deviance of a count / non-negative target has a removable singularity at y = 0 (y ln(y / mu) -> 0): the code
    treats it in a branch of its own.  What that branch produces has to be what the general branch tends to at y = 0 - the
    terms with a factor y vanish, the others stay.  A zero branch that returns something else (zero for the whole expression
    where 2 mu remains) makes cost and gradient disagree for data with zeros."""
    from .formula import Formula, V
    from .calc import Unsupported, Rat, Poly
    from .zeroskip import zero_test_kind
    res = RuleResult("R-C12-zerobranch", "in the GLM distribution code a branch taken under `v == 0` yields the value of the general branch at v = 0 (terms with a factor v vanish)")
    F = ctx.facts()
    n = 0
    for fn in F.all_fns():
        d = fn["d"]
        if d["krate"] != "linfa_linear" or "distribution" not in fn_file(fn) or fn.get("exp") or "tests" in d["path"]:
            continue
        c = fn["crate"]
        key = fn_key(fn)
        for clo in walk(fn["body"]):
            if clo.get("k") != "Closure":
                continue
            params = [b for p_ in clo["params"] for b in pat_bindings(p_)]
            for y in walk(clo["body"]):
                if y.get("k") != "If" or y.get("else") is None or zero_test_kind(c, y["c"]) != "exact":
                    continue
                cnd = strip(y["c"])
                neg = False
                while cnd.get("k") == "Unary" and cnd["op"] == "!":
                    cnd, neg = strip(cnd["e"]), not neg
                if cnd.get("k") != "Binary":
                    continue
                if cnd["op"] == "!=":
                    neg = not neg
                v = next((peel_refs(x) for x in (cnd["l"], cnd["r"]) if peel_refs(x).get("k") == "Path" and peel_refs(x).get("local") in [b["local"] for b in params]), None)
                if v is None:
                    continue
                zero_b, gen_b = (y["else"], y["then"]) if neg else (y["then"], y["else"])
                n += 1
                res.instance("%s : branch on `%s == 0`" % (key, v.get("name")))

                def value_of(blk):
                    """the value the branch yields: its tail expression, or the right-hand side of its single assignment"""
                    b = strip(blk)
                    while b.get("k") == "Block" and not b["stmts"] and b.get("e") is not None:
                        b = strip(b["e"])
                    if b.get("k") == "Block" and len(b["stmts"]) == 1 and b.get("e") is None:
                        b = strip(b["stmts"][0])
                    if b.get("k") == "Assign":
                        return b["r"], Render(c).e(b["l"])
                    return b, None
                try:
                    fm = Formula(F)
                    env = {b["local"]: V("scal", fm.atom("v:" + b["name"])) for b in params}
                    (ze, zt), (ge, gt) = value_of(zero_b), value_of(gen_b)
                    if zt != gt:
                        raise Unsupported("the branches do not produce the same thing")
                    zv, gv = fm.expr(c, ze, env), fm.expr(c, ge, env)
                    va = "v:" + v.get("name")

                    def at_zero(poly):
                        return Poly({m: cf for m, cf in poly.d.items() if not any(a == va for a, _ in m)})
                    # a function atom of an argument that vanishes or blows up at v = 0 must come with a factor v
                    for m, cf in gv.r.num.d.items():
                        if not any(a == va for a, _ in m) and any(a in fm.args and va in (fm.args[a][1].num.atoms() | fm.args[a][1].den.atoms()) for a, _ in m):
                            raise Unsupported("a term without the factor `%s` contains a function of it" % v.get("name"))
                    if va in gv.r.den.atoms():
                        raise Unsupported("the general branch divides by `%s`" % v.get("name"))
                    lim = Rat(at_zero(gv.r.num), gv.r.den)
                    zr = Rat(at_zero(zv.r.num), zv.r.den)
                    if fm.same(lim, zr):
                        res.ok()
                    else:
                        res.violate("%s : zero-branch-is-not-the-limit:%s" % (key, v.get("name")), "under `%s == 0` the closure yields %s, the general branch at %s = 0 is %s: the two agree only where that difference vanishes" % (v.get("name"), zr.key()[:80], v.get("name"), lim.key()[:120]), fn_loc(fn, y.get("ln")))
                except (Unsupported, TypeError, KeyError, AttributeError) as e_:
                    res.undecided("%s : zero-branch:%s" % (key, v.get("name")), "the branches under `%s == 0` are outside the vocabulary of the formula reader: %s (fail closed)" % (v.get("name"), e_), fn_loc(fn, y.get("ln")))
    if n < 1:
        res.missing_anchor("a closure in glm/distribution.rs that branches on an exact zero test of its parameter")
    return res.finish(1)


def rule_devderiv(ctx):
    """The gradient handed to L-BFGS is built from unit_deviance_derivative, the cost from unit_deviance: they describe one
    function only if, in every arm of the power dispatcher, the former is the derivative of the latter with respect to the
    mean.  Both are read into the rational normal form of rules/formula.py (ln and mu^power as atoms, mu^(a + b p) =
    mu^a (mu^p)^b), the deviance is differentiated symbolically and compared with -2 (y - mu) / V(mu), V read from
    unit_variance."""
    from .formula import Formula, V
    from .calc import Unsupported, Rat, Poly
    from fractions import Fraction
    res = RuleResult("R-C12-devderiv", "in every arm of TweedieDistribution::unit_deviance the symbolic derivative with respect to the mean is unit_deviance_derivative (= -2 (y - mu) / unit_variance(mu))")
    F = ctx.facts()
    def one(name):
        return next((f for f in F.all_fns() if f["d"]["krate"] == "linfa_linear" and f["d"]["name"] == name and (f["d"].get("self_adt") or "").endswith("TweedieDistribution")), None)
    dev, der, var = one("unit_deviance"), one("unit_deviance_derivative"), one("unit_variance")
    if not (dev and der and var):
        res.missing_anchor("TweedieDistribution::unit_deviance / unit_deviance_derivative / unit_variance")
        return res.finish(4)
    c = dev["crate"]

    def reader():
        fm = Formula(F)
        fm.skip_early_returns = True
        return fm

    def env_for(fm, fn, names):
        env = {}
        ps = [b for p_ in fn["params"] for b in pat_bindings(p_)]
        for b in ps:
            if b["name"] == "self":
                env[b["local"]] = V("scal", fm.atom("self"))
            elif b["name"] in names:
                env[b["local"]] = V("elem", fm.atom(names[b["name"]], elem=True))
        return env

    class PowerFormula(Formula):
        """`self.power` (a field of self) is the scalar parameter p"""
        def expr(self, c_, e, env):
            e0 = strip(e)
            if e0.get("k") == "Field" and e0.get("name") == "power":
                return V("scal", self.atom("p"))
            return Formula.expr(self, c_, e, env)

    def mk():
        fm = PowerFormula(F)
        fm.skip_early_returns = True
        return fm
    m = next((y for y in walk(dev["body"]) if y.get("k") == "Match" and y.get("src", "Normal") == "Normal" and any(z.get("k") == "Field" and z.get("name") == "power" for z in walk(y["scrut"]))), None)
    if m is None:
        res.undecided("%s : dispatcher" % fn_key(dev), "no match over self.power in unit_deviance (fail closed)", fn_loc(dev))
        return res.finish(4)
    key = fn_key(dev)
    n = 0
    for i, arm in enumerate(m["arms"]):
        fmx = mk()
        if fmx.is_err(c, arm["body"]):
            continue
        # which power does the arm stand for: a guard `power == c` / `(power - c).abs() < eps` fixes it, otherwise p stays symbolic
        fixed = None
        g = arm.get("guard")
        if g is not None:
            for z in walk(g):
                if z.get("k") == "Binary" and z["op"] == "==":
                    for side in (z["l"], z["r"]):
                        cv = fmx.const_of(c, side)
                        if cv is not None:
                            fixed = cv
                if z.get("k") == "Binary" and z["op"] == "-" and peel_refs(z["l"]).get("k") == "Path":
                    cv = fmx.const_of(c, z["r"])
                    if cv is not None and any(w.get("k") == "MethodCall" and w["name"] == "abs" for w in walk(g)):
                        fixed = cv
        n += 1
        label = "arm %d (power %s)" % (i, fixed if fixed is not None else "symbolic")
        res.instance("%s : %s" % (key, label))
        try:
            fm = mk()
            env = env_for(fm, dev, {"y": "y", "ypred": "mu"})
            for b in pat_bindings(arm["pat"]):
                env[b["local"]] = V("scal", fm.atom("p"))
            d = fm.expr(c, arm["body"], env)
            dd = fm.diff(d.r, "mu")
            env_v = env_for(fm, var, {"ypred": "mu"})
            vv = fm.expr(c, var["body"], env_v)
            y_, mu_ = fm.atom("y"), fm.atom("mu")
            want = Rat.const(-2) * (y_ - mu_) / vv.r
            # the derivative function itself must be that expression too
            env_d = env_for(fm, der, {"y": "y", "ypred": "mu"})
            fm.opaque_any_fn = None
            got_der = None
            try:
                got_der = PowerFormula.expr(fm, c, der["body"], env_d)
            except (Unsupported, TypeError, KeyError, AttributeError):
                got_der = None
            if fixed is not None:
                # p := fixed: mu^p = mu^fixed for an integer power
                def fix(r):
                    if fixed.denominator != 1 or fixed < 0:
                        raise Unsupported("a fixed power that is not a non-negative integer")
                    r2 = r
                    for a_, (kind_, arg_) in list(fm.args.items()):
                        if kind_ == "powsym:p":
                            rep = Poly.const(1)
                            if arg_.den.d != {(): Fraction(1)}:
                                raise Unsupported("power of a quotient")
                            for _ in range(int(fixed)):
                                rep = rep * arg_.num
                            r2 = fm.substitute(r2, a_, rep)
                    return fm.substitute(r2, "p", Poly.const(fixed))
                dd, want = fix(dd), fix(want)
            if not fm.same(dd, want):
                res.violate("%s : derivative-mismatch:arm%d" % (key, i), "in %s the derivative of the unit deviance with respect to the mean is %s, but unit_deviance_derivative computes -2 (y - mu) / V(mu) = %s: cost and gradient of the GLM describe different functions, the optimiser's stationary point is not a minimum of the documented objective" % (label, dd.key()[:160], want.key()[:160]), fn_loc(dev, arm["body"].get("ln")))
            else:
                res.ok()
                res.sample({"arm": label, "d deviance / d mu": dd.key()[:120]})
        except (Unsupported, TypeError, KeyError, AttributeError) as e_:
            res.undecided("%s : not-read:arm%d" % (key, i), "%s of unit_deviance is outside the vocabulary of the formula reader: %s (fail closed)" % (label, e_), fn_loc(dev, arm["body"].get("ln")))
    # the derivative function is -2 (y - mu) / V(mu)
    res.instance("%s : form" % fn_key(der))
    try:
        fm = mk()
        env_d = env_for(fm, der, {"y": "y", "ypred": "mu"})
        got = fm.expr(c, der["body"], env_d)
        env_v = env_for(fm, var, {"ypred": "mu"})
        vv = fm.expr(c, var["body"], env_v)
        want = Rat.const(-2) * (fm.atom("y") - fm.atom("mu")) / vv.r
        if fm.same(got.r, want):
            res.ok()
        else:
            res.violate("%s : not-the-documented-form" % fn_key(der), "unit_deviance_derivative computes %s, not -2 (y - mu) / unit_variance(mu) = %s" % (got.r.key()[:160], want.key()[:160]), fn_loc(der))
    except (Unsupported, TypeError, KeyError, AttributeError) as e_:
        res.undecided("%s : not-read" % fn_key(der), "unit_deviance_derivative is outside the vocabulary of the formula reader: %s (fail closed)" % e_, fn_loc(der))
    if n < 4:
        res.missing_anchor("non-error arms of unit_deviance (found %d)" % n)
    return res.finish(4)


def rule_coefslice(ctx):
    """The parameter vector of the GLM holds the intercept first and the coefficients after it.  Cost and gradient describe one
    objective only if they cut it the same way: every slice that takes part in the penalty in `TweedieProblem::cost` and in
    `TweedieProblem::gradient` (the part that is penalised, the part of the gradient the penalty is added to) has the same range.  `p.slice(s![..n_features])` in one and `p.slice(s![offset..])` in
    the other penalises the intercept in the gradient and the last coefficient not at all."""
    res = RuleResult("R-C12-coefslice", "TweedieProblem::cost and ::gradient cut the parameter vector (and the gradient buffer) with one and the same range")
    F = ctx.facts()
    fns = [f for f in F.all_fns() if f["d"]["krate"] == "linfa_linear" and f["d"]["name"] in ("cost", "gradient") and "TweedieProblem" in (f["d"].get("self_adt") or f["d"].get("self_ty") or fn_key(f))]
    if len(fns) < 2:
        res.missing_anchor("TweedieProblem::cost and TweedieProblem::gradient (found %d)" % len(fns))
        return res.finish(2)
    ranges = {}
    for fn in fns:
        c = fn["crate"]
        r = Render(c)
        key = fn_key(fn)
        res.instance(key)
        got = set()
        # only the slices that take part in the penalty: those in a statement that mentions alpha (or a local computed from
        # it), and those bound to a local that such a statement uses
        body0 = strip(fn["body"])
        stmts0 = list(body0.get("stmts") or []) + ([body0["e"]] if body0.get("e") is not None else [])
        tainted = set()
        def mentions_alpha(e):
            return any((z.get("k") == "Field" and z.get("name") == "alpha") or (z.get("k") == "Path" and (z.get("name") == "alpha" or z.get("local") in tainted)) for z in walk(e))
        grew = True
        while grew:
            grew = False
            for st in stmts0:
                for y in walk(st):
                    if y.get("k") == "LetStmt" and y.get("init") is not None and y["pat"].get("k") == "Bind" and y["pat"]["local"] not in tainted and mentions_alpha(y["init"]):
                        tainted.add(y["pat"]["local"])
                        grew = True
        pen_stmts = [st for st in stmts0 if mentions_alpha(st)]
        used = set(z.get("local") for st in pen_stmts for z in walk(st) if z.get("k") == "Path" and "local" in z)
        relevant = set()
        for st in stmts0:
            if st in pen_stmts:
                relevant |= set(id(z) for z in walk(st))
            for y in walk(st):
                if y.get("k") == "LetStmt" and y.get("init") is not None and y["pat"].get("k") == "Bind" and y["pat"]["local"] in used:
                    relevant |= set(id(z) for z in walk(y["init"]))
        for y in walk(fn["body"]):
            if id(y) not in relevant:
                continue
            if y.get("k") == "MethodCall" and y["name"] in ("slice", "slice_mut", "slice_move") and y["args"]:
                # the s![..] macro: the range expressions inside it
                for z in walk(y["args"][0]):
                    if z.get("k") == "Struct" and "Range" in ((c.dfn(z.get("def")) or {}).get("path") or ""):
                        got.add(re.sub(r"\s+", "", r.e(z)))
                    elif z.get("k") == "Call" and "Range" in ((c.dfn(strip(z["f"]).get("def")) or {}).get("path") or ""):
                        got.add(re.sub(r"\s+", "", r.e(z)))
        ranges[key] = (fn, got)
    allr = set()
    for fn, got in ranges.values():
        allr |= got
    if not allr:
        res.undecided("coefslice : ranges", "no range of a slice of the parameter vector was read (fail closed)", fn_loc(fns[0]))
        return res.finish(2)
    if len(allr) == 1:
        for _ in ranges:
            res.ok()
    else:
        for key, (fn, got) in sorted(ranges.items()):
            if got:
                res.ok()
        odd = sorted(allr)
        fn = next(fn for fn, got in ranges.values() if len(got) > 1 or got != next(iter(ranges.values()))[1])
        res.violate("%s : parameter-vector-cut-differently" % fn_key(fn), "cost and gradient slice the parameter vector with different ranges (%s): the part that is penalised (or that enters the linear predictor) in one is not the part in the other, so the gradient is not the gradient of the cost" % ", ".join(odd)[:160], fn_loc(fn))
    return res.finish(2)


def rules(tier):
    from . import carry, c04
    from . import extrema
    from . import precision
    from . import support, initlayout, shortcut, dispatchimpl
    from . import sizeroute
    return [sizeroute.make_rule("R-C12-sizeroute", lambda f: f["d"]["krate"] == "linfa_logistic" or (f["d"]["krate"] == "linfa_linear" and "glm" in fn_file(f)), "logistic regression and the GLM"),
            rule_tolgrad, rule_shift, rule_zerobranch, rule_devderiv, rule_coefslice, support.make_rule("R-C12-support", "TweedieDistribution::in_range admits no non-finite target (the predicate is evaluated at +inf, -inf and NaN)",
                              lambda f: f["d"]["krate"] == "linfa_linear" and f["d"]["name"] == "in_range" and (f["d"].get("self_adt") or "").endswith("TweedieDistribution"),
                              2, "TweedieDistribution::in_range"),
            initlayout.make_rule("R-C12-initlayout", "linfa_logistic", "setup_init_params", "ArgminParam", 3),
            shortcut.make_rule("R-C12-shortcut", {"linfa_linear", "linfa_logistic"}, 1),
            dispatchimpl.make_rule("R-C12-dispatchimpl", lambda f: f["d"]["krate"] == "linfa_linear" and "/glm/" in fn_file(f) and (f["d"].get("self_adt") or "").split("::")[-1] == "Link", 4, "the GLM links"),
            rule_validate, rule_lse, rule_same, rule_dispatch, rule_penalty, rule_ratio, rule_memorder, rule_chain, rule_derivpaths, rule_stop,
            carry.make_clone_rule("R-C12-clone", {"linfa_logistic", "linfa_linear"}, 6), carry.make_setter_rule("R-C12-override", {"linfa_logistic", "linfa_linear"}, 8), c04.make_carry_rule("R-C12-carry", {"LogisticRegressionParams", "TweedieRegressorParams"}, 6),
            extrema.make_rule("R-C12-extrema", "the maxima the logistic log-sum-exp / soft-max are shifted by are real maxima: the folds start from -infinity / min_value or from data", lambda f: f["d"]["krate"] == "linfa_logistic", 1, "the max folds of log_sum_exp / softmax in linfa-logistic"),
            precision.make_rule("R-C12-precision", lambda f: f["d"]["krate"] in ("linfa_logistic", "linfa_linear"), 100, "linfa-logistic and linfa-linear"),
            carry.make_accessor_rule("R-C12-accessor", {"linfa_logistic", "linfa_linear"}, 8), carry.make_ctor_rule("R-C12-ctor", {"linfa_logistic", "linfa_linear"}, 1), rule_ownsolver]
