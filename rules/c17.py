"""C17 - count / tf-idf vectorisers: the structural clauses of 'equals a naive count of the tokenised corpus'.

The property as a whole is a value-level statement (a recount over all corpora).  Its clauses that are visible in the
shape of the code, for every corpus at once, are decided here; the rest (what the regex matches, float-to-count
truncation of the document-frequency window, the idf formulas) is not."""
import re
from .core import RuleResult
from .facts import fn_key, fn_loc, fn_file, walk, strip, peel_refs, pat_bindings, Render
from .facts import lit_float, lit_number

LEVEL = ("Static analysis of linfa-preprocessing's vectorisers. Decided, for all corpora and settings: (pipeline) fitting and "
         "transforming tokenise through the same steps - normalisation/lower-casing helper, tokenizer function or regex, "
         "n-gram windows with the configured range; (docfreq) while fitting, the n-grams of one document pass through a set, "
         "so an entry's document frequency grows by one per document, new entries start at one; (window) every arm of the "
         "vocabulary filter admits exactly min <= df <= max and, where stop words are configured, excludes them; (reindex) "
         "the column written into the word -> column map and the position of the word in vocabulary() are the same number; "
         "(lookup) a count is incremented by one, at the column stored for the n-gram, only under a successful vocabulary "
         "lookup - out-of-vocabulary n-grams contribute nothing; (row) the sparse row is built from (column, count) pairs "
         "whose column is an enumerate() index taken before the zero filter, and the same column's document frequency is "
         "incremented; (tfidf) each count is multiplied by the idf of its own column, computed from that column's document "
         "frequency and the number of transformed documents. Not decided: the recount itself - what the tokenizer matches, "
         "threshold arithmetic of the frequency window, the idf formulas, order of the vocabulary.")
ASSUME = ["rustc resolution/typeck; HIR faithfully dumped", "HashSet iteration yields each element once; sprs append / iter_mut pair a value with its column index"]

CRATE = "linfa_preprocessing"


def find(F, name, adt=None):
    out = []
    for fn in F.all_fns():
        d = fn["d"]
        if d["krate"] == CRATE and d["name"] == name and (adt is None or (d.get("self_adt") or "").endswith(adt)) and not fn.get("exp"):
            out.append(fn)
    return out


def for_loops(root):
    """(iterated expression, element pattern, body, node) of every `for` loop below root"""
    for n in walk(root):
        if n.get("k") != "Match" or n.get("src") != "ForLoopDesugar":
            continue
        if not n["arms"] or n["arms"][0]["pat"].get("k") != "Bind":
            continue            # the inner `match iter.next()` of the desugaring
        it = n["scrut"]
        if it.get("k") == "Call" and it.get("args"):
            it = it["args"][0]
        for y in walk(n["arms"][0]["body"]):
            if y.get("k") == "Match":
                for a in y["arms"]:
                    p = a["pat"]
                    if p.get("k") in ("TupleStruct", "Struct") and (p.get("pats") or p.get("fields")):
                        pat = p["pats"][0] if p.get("pats") else p["fields"][0]["pat"]
                        yield it, pat, a["body"], n
                break


def explicit_exits(body, crate=None):
    """`break` / `return` written in a loop body: not the `None => break` of a nested `for` loop's desugaring, not the
    `return from_residual(..)` of a `?`, and nothing inside a closure"""
    skip = set()
    for n in walk(body):
        if n.get("k") == "Match" and n.get("src") == "ForLoopDesugar":
            for a in n["arms"]:
                b = strip(a["body"])
                if b.get("k") == "Break":
                    skip.add(id(b))
            # the inner `match next() { None => break, Some(..) => .. }` sits below the outer binding arm
            for y in walk(n):
                if y.get("k") == "Match" and y is not n:
                    for a in y["arms"]:
                        b = strip(a["body"])
                        if b.get("k") == "Break" and a["pat"].get("k") in ("Path", "TupleStruct", "Struct") and not (a["pat"].get("pats") or a["pat"].get("fields")):
                            skip.add(id(b))
                    break

    def rec(n):
        if n.get("k") == "Closure":
            return
        if n.get("k") in ("Break", "Ret") and id(n) not in skip:
            e = peel_refs(n["e"]) if n.get("k") == "Ret" and n.get("e") is not None else None
            is_try = False
            if e is not None and e.get("k") == "Call" and strip(e["f"]).get("k") == "Path" and crate is not None:
                is_try = (crate.dfn(strip(e["f"]).get("def")) or {}).get("name") == "from_residual"
            if not is_try:
                yield n
        from .facts import children
        for ch in children(n):
            for z in rec(ch):
                yield z
    return list(rec(body))


def tuple_positions(pat):
    """{local: position path} of the bindings of a (possibly nested) tuple pattern, e.g. (word, (x, freq)) -> word:(0,), x:(1,0), freq:(1,1)"""
    out = {}

    def rec(q, path):
        while q is not None and q.get("k") == "Ref":
            q = q.get("pat")
        if q is None:
            return
        if q.get("k") == "Tuple":
            for i, s in enumerate(q["pats"]):
                rec(s, path + (i,))
        elif q.get("k") in ("TupleStruct",) and q.get("pats"):
            for i, s in enumerate(q["pats"]):
                rec(s, path if len(q["pats"]) == 1 else path + (i,))
        elif q.get("k") == "Struct" and q.get("fields"):
            for i, f_ in enumerate(q["fields"]):
                rec(f_["pat"], path if len(q["fields"]) == 1 else path + (i,))
        elif q.get("k") == "Bind":
            out[q["local"]] = path
            if q.get("sub") is not None:
                rec(q["sub"], path)
    rec(pat, ())
    return out


def vocabulary_lookups(fn):
    """[(node that binds, {local: position}, scope body or None)] for `if let Some(p) = <..>.vocabulary.get(..)` / match arms"""
    out = []
    for n in walk(fn["body"]):
        if n.get("k") == "If" and strip(n["c"]).get("k") == "Let":
            le = strip(n["c"])
            if _is_vocab_get(le["init"]):
                out.append((n, tuple_positions(le["pat"]), n["then"]))
        if n.get("k") == "Match" and n.get("src", "Normal") == "Normal" and _is_vocab_get(n["scrut"]):
            for a in n["arms"]:
                pos = tuple_positions(a["pat"])
                if pos:
                    out.append((n, pos, a["body"]))
    return out


def _is_vocab_get(e):
    e = peel_refs(e)
    if e.get("k") != "MethodCall" or e["name"] not in ("get", "get_mut", "get_key_value"):
        return False
    r = peel_refs(e["recv"])
    return r.get("k") == "Field" and r["name"] == "vocabulary" or (r.get("k") == "Path" and r.get("name") == "vocabulary")


def rule_reindex(ctx):
    """'Column j always refers to vocabulary()[j]': the re-indexing after filtering writes into the word -> column map the
    very position at which the word is pushed onto the list."""
    res = RuleResult("R-C17-reindex", "the column stored for a word and the word's position in vocabulary() are the same number (re-indexing after filtering)")
    F = ctx.facts()
    fns = find(F, "hashmap_to_vocabulary")
    if not fns:
        res.missing_anchor("hashmap_to_vocabulary")
    for fn in fns:
        c = fn["crate"]
        key = fn_key(fn)
        res.instance(key)
        done = False
        for it, pat, body, node in for_loops(fn["body"]):
            pos = tuple_positions(pat)
            counter = None
            it0 = peel_refs(it) if isinstance(it, dict) else {}
            if it0.get("k") == "MethodCall" and it0["name"] == "enumerate":
                # `for (position, (word, (idx, _))) in map.iter_mut().enumerate()`: the entry is component 1, the counter 0
                cs = [l for l, p in pos.items() if p == (0,)]
                counter = cs[0] if cs else None
                pos = {l: p[1:] for l, p in pos.items() if p and p[0] == 1}
            keyb = [l for l, p in pos.items() if p and p[0] == 0]
            stmts = []
            b0 = strip(body)
            if b0.get("k") == "Block":
                stmts = list(b0.get("stmts") or []) + ([b0["e"]] if b0.get("e") is not None else [])
            assign_i = push_i = None
            a_node = p_node = None
            for i, st in enumerate(stmts):
                for y in walk(st):
                    if y.get("k") == "Assign" and a_node is None and any(z.get("k") == "Path" and z.get("local") in pos for z in walk(y["l"])):
                        assign_i, a_node = i, y
                    if y.get("k") == "MethodCall" and y["name"] == "push" and p_node is None:
                        push_i, p_node = i, y
            if a_node is None or p_node is None:
                continue
            done = True
            vec = peel_refs(p_node["recv"]).get("local")
            rhs = peel_refs(a_node["r"])
            # which component of the map value is written: the column is component 0 of (column, document frequency)
            tgt = [pos[z["local"]] for z in walk(a_node["l"]) if z.get("k") == "Path" and z.get("local") in pos]
            pushed_key = any(z.get("k") == "Path" and z.get("local") in keyb for z in walk(p_node["args"][0])) if p_node["args"] else False
            is_len = rhs.get("k") == "MethodCall" and rhs["name"] == "len" and peel_refs(rhs["recv"]).get("local") == vec
            is_len_m1 = rhs.get("k") == "Binary" and rhs["op"] == "-" and peel_refs(rhs["l"]).get("k") == "MethodCall" and peel_refs(rhs["l"])["name"] == "len" and peel_refs(peel_refs(rhs["l"])["recv"]).get("local") == vec and str(peel_refs(rhs["r"]).get("v")) == "1"
            if tgt and tgt[0][-1:] != (0,) and len(tgt[0]) >= 2:
                res.violate("%s : column-written-to-other-component" % key, "the new position is written into component %s of the map value; the column is component 0 of (column, document frequency)" % (tgt[0][-1],), fn_loc(fn, a_node["ln"]))
            elif not pushed_key:
                res.violate("%s : pushed-not-the-key" % key, "the value pushed onto the vocabulary list is not the map key of the entry whose column is being written", fn_loc(fn, p_node["ln"]))
            elif is_len and assign_i <= push_i and a_node["ln"] <= p_node["ln"]:
                res.ok()
                res.sample({"fn": key, "column": "vec.len() before the push of the same word"})
            elif counter is not None and rhs.get("k") == "Path" and rhs.get("local") == counter:
                # the counter of `enumerate()` is the position in the list iff the list starts empty and grows by exactly
                # one word per entry: one push, a statement of the loop body itself (not under a condition)
                pushes = [y for st in stmts for y in walk(st) if y.get("k") == "MethodCall" and y["name"] in ("push", "insert", "extend", "pop", "remove") and peel_refs(y["recv"]).get("local") == vec]
                top = any(strip(st.get("e") if st.get("k") == "Semi" else st) is p_node for st in stmts)
                init = next((y["init"] for y in walk(fn["body"]) if y.get("k") == "LetStmt" and y.get("init") is not None and y["pat"].get("k") == "Bind" and y["pat"]["local"] == vec), None)
                fresh = False
                if init is not None:
                    i0 = peel_refs(init)
                    f0 = strip(i0["f"]) if i0.get("k") == "Call" else {}
                    d0 = c.dfn(f0.get("def")) if f0.get("k") == "Path" else None
                    fresh = bool(d0 and d0["name"] in ("new", "with_capacity"))
                if len(pushes) == 1 and top and fresh:
                    res.ok()
                    res.sample({"fn": key, "column": "the counter of enumerate(), one unconditional push per entry onto a list that starts empty"})
                else:
                    res.undecided("%s : column-source" % key, "the column is the counter of `enumerate()`, but the list does not provably start empty and grow by one word per entry (fail closed)", fn_loc(fn, a_node["ln"]))
            elif is_len_m1 and push_i <= assign_i:
                res.ok()
            elif is_len or is_len_m1:
                res.violate("%s : column-off-by-one" % key, "the column is taken as `%s` %s the word is pushed: it is the position of the neighbouring word" % (Render(c).e(rhs)[:30], "after" if is_len else "before"), fn_loc(fn, a_node["ln"]))
            else:
                res.undecided("%s : column-source" % key, "the value written as the column (`%s`) is not recognised as the word's position (fail closed)" % Render(c).e(rhs)[:40], fn_loc(fn, a_node["ln"]))
        if not done:
            res.undecided("%s : reindex-shape" % key, "no loop that writes the column and pushes the word was found (fail closed)", fn_loc(fn))
    return res.finish(1)


def rule_lookup(ctx):
    """'entry (d, j) is the number of occurrences of vocabulary item j in document d ... out-of-vocabulary tokens
    contributing nothing': a count goes up by one, at the column stored for the n-gram, only under a successful lookup."""
    res = RuleResult("R-C17-lookup", "counts are incremented by one at the looked-up column, only under a successful vocabulary lookup")
    F = ctx.facts()
    fns = find(F, "analyze_document")
    if not fns:
        res.missing_anchor("CountVectorizer::analyze_document")
    for fn in fns:
        c = fn["crate"]
        key = fn_key(fn)
        looks = vocabulary_lookups(fn)
        res.instance("%s : %d vocabulary lookups" % (key, len(looks)))
        # a lookup with a fallback value counts out-of-vocabulary n-grams somewhere
        for y in walk(fn["body"]):
            if y.get("k") == "MethodCall" and y["name"] in ("unwrap_or", "unwrap_or_default", "unwrap_or_else") and _is_vocab_get(y["recv"]):
                res.violate("%s : oov-counted" % key, "the vocabulary lookup falls back to a default (`.%s`): n-grams outside the vocabulary are counted in that column" % y["name"], fn_loc(fn, y["ln"]))
        if not looks:
            res.undecided("%s : lookup-shape" % key, "no `if let Some(..) = vocabulary.get(..)` / match on the lookup found (fail closed)", fn_loc(fn))
            continue
        inits = {}
        for y in walk(fn["body"]):
            if y.get("k") == "LetStmt" and y.get("init") is not None and y["pat"].get("k") == "Bind":
                inits[y["pat"]["local"]] = y["init"]
        n_inc = 0
        for node, pos, scope in looks:
            for y in walk(scope):
                if y.get("k") != "AssignOp" or y["op"] != "+":
                    continue
                n_inc += 1
                # the index expression: `buf[idx] += 1`, or `*slot += 1` with `let slot = buf.get_mut(idx)..`
                l = peel_refs(y["l"])
                while l.get("k") == "Unary":
                    l = peel_refs(l["e"])
                idx = None
                if l.get("k") == "Index":
                    idx = l["i"]
                elif l.get("k") == "Path" and l.get("local") in inits:
                    for z in walk(inits[l["local"]]):
                        if z.get("k") == "MethodCall" and z["name"] in ("get_mut", "index_mut", "uget_mut") and z["args"]:
                            idx = z["args"][0]
                        if z.get("k") == "Index":
                            idx = z["i"]
                res.instance("%s : increment under the lookup" % key)
                if idx is None:
                    res.undecided("%s : increment-target" % key, "the element that is incremented could not be traced to an index (fail closed)", fn_loc(fn, y["ln"]))
                    continue
                used = [pos[z["local"]] for z in walk(idx) if z.get("k") == "Path" and z.get("local") in pos]
                amount = peel_refs(y["r"])
                if not used:
                    res.violate("%s : count-at-foreign-column" % key, "the count is incremented at `%s`, which is not the column stored for the n-gram that was looked up" % Render(c).e(idx)[:40], fn_loc(fn, y["ln"]))
                elif used[0][-1:] != (0,):
                    res.violate("%s : count-indexed-by-document-frequency" % key, "the count is incremented at component %d of the looked-up value; the column is component 0 of (column, document frequency)" % used[0][-1], fn_loc(fn, y["ln"]))
                elif not (amount.get("k") == "Lit" and str(amount.get("v")) == "1"):
                    res.violate("%s : increment-not-one" % key, "an occurrence adds `%s` to the count instead of one" % Render(c).e(amount)[:30], fn_loc(fn, y["ln"]))
                else:
                    res.ok()
        if n_inc == 0:
            res.undecided("%s : no-increment" % key, "no increment found under the vocabulary lookup (fail closed)", fn_loc(fn))
    return res.finish(2)


TRUNCATING = ("filter", "skip", "rev", "step_by", "take", "skip_while", "take_while", "filter_map")


def rule_row(ctx):
    """The sparse row of a document pairs each non-zero count with its column: the column is the enumerate() index of the
    dense count buffer, taken before the zero filter, and the same column's document frequency is incremented."""
    res = RuleResult("R-C17-row", "sparse rows pair counts with enumerate() columns taken before the zero filter; the zero filter drops exactly the zero counts")
    F = ctx.facts()
    fns = find(F, "analyze_document")
    if not fns:
        res.missing_anchor("CountVectorizer::analyze_document")
    for fn in fns:
        c = fn["crate"]
        key = fn_key(fn)
        found = False
        for it, pat, body, node in for_loops(fn["body"]):
            names = []
            e = peel_refs(it)
            chain = []
            while e.get("k") == "MethodCall":
                chain.append(e)
                e = peel_refs(e["recv"])
            names = [x["name"] for x in chain]          # outermost first
            if "enumerate" not in names:
                continue
            if not any(y.get("k") == "MethodCall" and y["name"] in ("append", "push", "insert") for y in walk(body)):
                continue
            found = True
            res.instance("%s : row construction loop" % key)
            i_enum = names.index("enumerate")
            inner = names[i_enum + 1:]                   # adaptors applied before enumerate()
            bad = [x for x in inner if x in TRUNCATING]
            if bad:
                res.violate("%s : column-index-after-filter" % key, "`enumerate()` is applied after `.%s(..)`: the index it yields is a position among the kept counts, not the column" % bad[0], fn_loc(fn, node["ln"]))
                continue
            # the zero filter
            flt = [x for x in chain[:i_enum] if x["name"] == "filter"]
            okf = True
            for f_ in flt:
                clo = strip(f_["args"][0]) if f_["args"] else {}
                cond = strip(clo.get("body") or {})
                while cond.get("k") == "Block" and not cond.get("stmts") and cond.get("e") is not None:
                    cond = strip(cond["e"])
                lit = None
                if cond.get("k") == "Binary":
                    for side in (cond["l"], cond["r"]):
                        t = peel_refs(side)
                        while t.get("k") == "Unary":
                            t = peel_refs(t["e"])
                        if t.get("k") == "Lit":
                            lit = str(t.get("v"))
                    form = (cond["op"], lit)
                    if form in ((">", "0"), ("!=", "0"), (">=", "1"), ("<", "0")):
                        continue
                    okf = False
                    res.violate("%s : zero-filter-threshold" % key, "the filter that keeps the non-zero counts tests `%s`: counts that are not zero are dropped from the row" % Render(c).e(cond)[:40], fn_loc(fn, f_["ln"]))
            pos = tuple_positions(pat)
            col = [l for l, p in pos.items() if p == (0,)]
            # document frequency of the same column
            dfs = [y for y in walk(body) if y.get("k") == "AssignOp" and y["op"] == "+" and peel_refs(y["l"]).get("k") == "Index"]
            for y in dfs:
                ix = peel_refs(peel_refs(y["l"])["i"])
                if ix.get("local") not in col:
                    okf = False
                    res.violate("%s : document-frequency-at-foreign-column" % key, "the document frequency is incremented at `%s`, not at the column of the count being appended" % Render(c).e(ix)[:30], fn_loc(fn, y["ln"]))
            apps = [y for y in walk(body) if y.get("k") == "MethodCall" and y["name"] in ("append", "push", "insert") and len(y["args"]) >= 2]
            for y in apps:
                a0 = peel_refs(y["args"][0])
                if a0.get("local") not in col:
                    okf = False
                    res.violate("%s : count-appended-at-foreign-column" % key, "the count is appended at `%s`, not at its enumerate() column" % Render(c).e(a0)[:30], fn_loc(fn, y["ln"]))
            if okf:
                res.ok()
        if not found:
            res.instance("%s : row construction" % key)
            res.undecided("%s : row-shape" % key, "the loop that turns the dense counts into a sparse row was not found (fail closed)", fn_loc(fn))
    return res.finish(1)


def rule_docfreq(ctx):
    """While fitting, an entry's document frequency is the number of documents that contain it: the n-grams of one
    document go through a set, existing entries gain one, new entries start at one."""
    res = RuleResult("R-C17-docfreq", "document frequencies count documents: per-document n-grams pass through a set; +1 for known entries, 1 for new ones")
    F = ctx.facts()
    fns = find(F, "read_document_into_vocabulary")
    if not fns:
        res.missing_anchor("read_document_into_vocabulary")
    for fn in fns:
        c = fn["crate"]
        key = fn_key(fn)
        res.instance(key)
        loops = list(for_loops(fn["body"]))
        inits = {}
        for y in walk(fn["body"]):
            if y.get("k") == "LetStmt" and y.get("init") is not None and y["pat"].get("k") == "Bind":
                inits[y["pat"]["local"]] = (y["init"], y)
        verdict = None
        for it, pat, body, node in loops:
            if not any(y.get("k") == "MethodCall" and y["name"] in ("insert", "or_insert", "entry") for y in walk(body)):
                continue
            t = peel_refs(it)
            ty = c.ty(t.get("t")) or ""
            if t.get("k") == "Path" and t.get("local") in inits and not ty:
                ty = c.ty(peel_refs(inits[t["local"]][0]).get("t")) or ""
            if re.search(r"\b(HashSet|BTreeSet)<", ty):
                verdict = "set"
            elif re.search(r"\b(Vec|NGramList|Flatten|IntoIter|Iter)\b", ty):
                verdict = ("seq", ty, node)
            else:
                verdict = verdict or ("unknown", ty, node)
            # +1 on the document-frequency component, 1 for new entries
            for y in walk(body):
                if y.get("k") == "AssignOp" and y["op"] == "+":
                    amt = peel_refs(y["r"])
                    if not (amt.get("k") == "Lit" and str(amt.get("v")) == "1"):
                        res.violate("%s : docfreq-increment-not-one" % key, "a document adds `%s` to an entry's document frequency" % Render(c).e(amt)[:30], fn_loc(fn, y["ln"]))
                if y.get("k") == "MethodCall" and y["name"] in ("insert", "or_insert") and y["args"]:
                    v = peel_refs(y["args"][-1])
                    if v.get("k") == "Tup" and len(v["es"]) == 2:
                        one = peel_refs(v["es"][1])
                        if not (one.get("k") == "Lit" and str(one.get("v")) == "1"):
                            res.violate("%s : new-entry-docfreq" % key, "a new entry starts with document frequency `%s` instead of 1" % Render(c).e(one)[:30], fn_loc(fn, y["ln"]))
        if verdict == "set":
            res.ok()
        elif verdict and verdict[0] == "seq":
            res.violate("%s : per-document-duplicates-counted" % key, "the n-grams of a document are walked as a sequence (`%s`), not as a set: an n-gram occurring twice in one document raises its document frequency twice" % verdict[1][:50], fn_loc(fn, verdict[2]["ln"]))
        else:
            res.undecided("%s : per-document-collection" % key, "the collection the per-document n-grams are walked from was not classified (fail closed)", fn_loc(fn))
    return res.finish(1)


def bind_inits(fn):
    """local -> initialiser, also through `let (a, b) = (ea, eb);`"""
    out = {}
    for y in walk(fn["body"]):
        if y.get("k") != "LetStmt" or y.get("init") is None:
            continue
        if y["pat"].get("k") == "Bind":
            out[y["pat"]["local"]] = y["init"]
        elif y["pat"].get("k") == "Tuple" and strip(y["init"]).get("k") == "Tup" and len(y["pat"]["pats"]) == len(strip(y["init"])["es"]):
            for q, e_ in zip(y["pat"]["pats"], strip(y["init"])["es"]):
                if q.get("k") == "Bind":
                    out[q["local"]] = e_
    return out


def rule_window(ctx):
    """The vocabulary filter admits exactly the entries with min <= df <= max (both ends inclusive, as documented) that are
    not stop words - in every arm of its case analysis."""
    res = RuleResult("R-C17-window", "every arm of the vocabulary filter keeps exactly min_df <= df <= max_df and drops configured stop words")
    F = ctx.facts()
    fns = find(F, "filter_vocabulary")
    if not fns:
        res.missing_anchor("filter_vocabulary")
    for fn in fns:
        c = fn["crate"]
        r = Render(c)
        key = fn_key(fn)
        filters = [y for y in walk(fn["body"]) if y.get("k") == "MethodCall" and y["name"] in ("filter", "retain") and y["args"] and strip(y["args"][0]).get("k") == "Closure"]
        n = 0
        for f_ in filters:
            clo = strip(f_["args"][0])
            txt = r.e(clo["body"])
            cmps = [y for y in walk(clo["body"]) if y.get("k") == "Binary" and y["op"] in ("<", "<=", ">", ">=")]
            has_stop = any(y.get("k") == "MethodCall" and y["name"] == "contains" for y in walk(clo["body"]))
            if not cmps and not has_stop:
                continue
            n += 1
            res.instance("%s : filter arm #%d" % (key, n))
            bad = None
            lo = hi = False
            for cm in cmps:
                l, rr = r.e(cm["l"]), r.e(cm["r"])
                # canonical: df OP bound
                if "min" in rr or "min" in l:
                    df_left = "min" in rr
                    op = cm["op"] if df_left else {"<": ">", "<=": ">=", ">": "<", ">=": "<="}[cm["op"]]
                    if op == ">=":
                        lo = True
                        # a relative minimum turned into a count by truncation (`(min * n) as usize`) is one too small
                        # whenever min * n is not an integer: `count >= floor(min * n)` admits count / n < min
                        bound = cm["r"] if df_left else cm["l"]
                        b0 = strip(bound)
                        while b0.get("k") in ("Ref",) or (b0.get("k") == "Unary" and b0["op"] == "*"):
                            b0 = strip(b0["e"])
                        init = bind_inits(fn).get(b0.get("local")) if b0.get("k") == "Path" else b0
                        i0 = strip(init) if init is not None else {}
                        if i0.get("k") == "Cast" and re.match(r"^(u|i)(8|16|32|64|128|size)$", c.ty(i0.get("t")) or "") and re.search(r"\bf(32|64)\b|^F$", c.ty(strip(i0["e"]).get("t")) or ""):
                            bad = "the lower bound `%s` is a truncated (floor) conversion of the relative minimum times the number of documents: an entry whose relative document frequency is below the minimum passes whenever min*n is not an integer" % r.e(i0)[:40]
                    else:
                        bad = "lower bound tested with `%s` (documented: df >= min)" % r.e(cm)[:40]
                elif "max" in rr or "max" in l:
                    df_left = "max" in rr
                    op = cm["op"] if df_left else {"<": ">", "<=": ">=", ">": "<", ">=": "<="}[cm["op"]]
                    if op == "<=":
                        hi = True
                    else:
                        bad = "upper bound tested with `%s` (documented: df <= max)" % r.e(cm)[:40]
            if cmps and not bad and not (lo and hi):
                bad = "only one end of the document-frequency window is tested"
            if has_stop:
                # the stop-word test must exclude: `!stopwords.contains(..)`
                neg = any(y.get("k") == "Unary" and y["op"] == "!" and any(z.get("k") == "MethodCall" and z["name"] == "contains" for z in walk(y["e"])) for y in walk(clo["body"]))
                if not neg:
                    bad = bad or "the stop-word test keeps the stop words (`contains` without negation)"
            if bad:
                res.violate("%s : window-arm:%d" % (key, n), "an arm of the vocabulary filter: %s" % bad, fn_loc(fn, f_["ln"]))
            else:
                res.ok()
        # arms in which stop words are configured must test them
        for m in walk(fn["body"]):
            if m.get("k") == "Match" and m.get("src", "Normal") == "Normal" and any(z.get("k") == "MethodCall" and z["name"] == "stopwords" for z in walk(m["scrut"])):
                for a in m["arms"]:
                    binds = set(b["local"] for b in pat_bindings(a["pat"]))
                    if binds:
                        res.instance("%s : stop words used where configured" % key)
                        if any(z.get("k") == "Path" and z.get("local") in binds for z in walk(a["body"])):
                            res.ok()
                        else:
                            res.violate("%s : stopwords-ignored" % key, "an arm that has the configured stop words at hand does not use them", fn_loc(fn, a["body"].get("ln")))
        if n < 3:
            res.missing_anchor("filter arms of filter_vocabulary (found %d)" % n)
    return res.finish(4)


def rule_pipeline(ctx):
    """Counting 'for training and unseen documents alike' needs one tokenisation: the fit side and the transform side go
    through the same string preparation, the same tokenizer choice and the same n-gram windows."""
    from .c12 import ingredients
    res = RuleResult("R-C17-pipeline", "fit and transform tokenise through the same steps (string preparation, tokenizer function or regex, n-gram range)")
    F = ctx.facts()
    fit = find(F, "read_document_into_vocabulary")
    tra = find(F, "analyze_document")
    if not fit or not tra:
        res.missing_anchor("read_document_into_vocabulary / analyze_document")
        return res.finish(2)

    from .shortcut import _fn_of_def
    STEP_NAMES = ("tokenizer_function", "find_iter", "n_gram_range", "split_regex", "captures_iter", "split", "normalize", "convert_to_lowercase", "nfkd", "nfkc", "nfc", "nfd", "to_lowercase", "to_uppercase", "stopwords")

    def steps(fn, depth=0, seen=None):
        """tokenisation steps of fn, private helpers of the crate followed (a pipeline split over helpers is the same pipeline)"""
        seen = seen if seen is not None else set()
        out = set()
        for y in walk(fn["body"]):
            if y.get("k") == "MethodCall" and y["name"] in STEP_NAMES:
                out.add(y["name"])
            callee = None
            if y.get("k") == "Call" and strip(y["f"]).get("k") == "Path":
                d = fn["crate"].dfn(strip(y["f"]).get("def")) or {}
                if d.get("krate") == CRATE and d.get("name"):
                    out.add(("%s::%s" % ((d.get("self_adt") or "").split("::")[-1], d["name"])).lstrip(":"))
                    callee = strip(y["f"]).get("def")
            elif y.get("k") == "MethodCall" and y["name"] not in STEP_NAMES and (fn["crate"].dfn(y.get("def")) or {}).get("krate") == CRATE:
                callee = y.get("def")
            if callee is not None and depth < 2:
                g = _fn_of_def(F, fn["crate"], callee)
                if g is not None and id(g) not in seen and not (g.get("vis") or "").startswith("pub") and g["d"]["name"] not in ("transform_string",):
                    seen.add(id(g))
                    out |= steps(g, depth + 1, seen)
        return out
    sf, st = steps(fit[0]), steps(tra[0])
    # the string preparation is applied by the callers on the fit side
    prep_fit = set()
    for g in F.all_fns():
        if g["d"]["krate"] == CRATE and any(y.get("k") == "MethodCall" and y["name"] == "read_document_into_vocabulary" for y in walk(g["body"])):
            prep_fit |= set(x for x in steps(g) if "transform_string" in str(x))
            res.instance("%s : string preparation before read_document_into_vocabulary" % fn_key(g))
            if any("transform_string" in str(x) for x in steps(g)):
                res.ok()
            else:
                res.violate("%s : document-not-prepared" % fn_key(g), "the document is handed to the vocabulary reader without the normalisation / lower-casing step that transform applies", fn_loc(g))
    sf_all = sf | prep_fit
    res.instance("tokenisation steps: fit %s / transform %s" % (sorted(map(str, sf_all)), sorted(map(str, st))))
    core = lambda s: set(x for x in s if x in ("tokenizer_function", "find_iter", "n_gram_range", "captures_iter", "split", "stopwords") or "NGramList" in str(x) or "transform_string" in str(x))
    if core(sf_all) == core(st):
        res.ok()
    else:
        only_f, only_t = core(sf_all) - core(st), core(st) - core(sf_all)
        res.violate("tokenisation : fit-transform-differ", "fitting and transforming do not tokenise through the same steps: only while fitting %s, only while transforming %s" % (sorted(map(str, only_f)), sorted(map(str, only_t))), fn_loc(tra[0]))
    # the helper applies both preparations, each under its own switch
    for g in find(F, "transform_string"):
        res.instance("%s : switches" % fn_key(g))
        guards = {}
        for y in walk(g["body"]):
            if y.get("k") == "If":
                sw = [z["name"] for z in walk(y["c"]) if z.get("k") == "MethodCall" and z["name"] in ("normalize", "convert_to_lowercase")]
                acts = [z["name"] for z in walk(y["then"]) if z.get("k") == "MethodCall" and z["name"] in ("nfkd", "nfkc", "nfc", "nfd", "to_lowercase", "to_uppercase")]
                for s_ in sw:
                    guards[s_] = acts
        if guards.get("normalize") and all(a.startswith("nf") for a in guards["normalize"]) and guards.get("convert_to_lowercase") == ["to_lowercase"]:
            res.ok()
        elif guards:
            res.violate("%s : switch-action-mismatch" % fn_key(g), "the preparation switches do not guard their own actions: %s" % guards, fn_loc(g))
        else:
            res.undecided("%s : switches" % fn_key(g), "the two preparation switches were not found (fail closed)", fn_loc(g))
    return res.finish(4)


def rule_tfidf(ctx):
    """'each tf-idf entry is that count times the documented inverse document frequency of item j over the transformed
    corpus': the multiplier is indexed by the entry's own column and computed from that column's document frequency and
    the number of transformed documents."""
    res = RuleResult("R-C17-tfidf", "every count is multiplied by the idf of its own column, computed from the column's document frequency and the number of documents")
    F = ctx.facts()
    fns = find(F, "apply_tf_idf")
    if not fns:
        res.missing_anchor("FittedTfIdfVectorizer::apply_tf_idf")
    for fn in fns:
        c = fn["crate"]
        r = Render(c)
        key = fn_key(fn)
        muls = []
        for it, pat, body, node in for_loops(fn["body"]):
            pos = tuple_positions(pat)
            for y in walk(body):
                if y.get("k") == "AssignOp" and y["op"] == "*" and not any(z.get("k") == "Match" and z.get("src") == "ForLoopDesugar" for z in walk(body)):
                    muls.append((y, pos))
        res.instance("%s : %d scaling sites" % (key, len(muls)))
        if not muls:
            res.undecided("%s : scaling-shape" % key, "no `*val *= idf[col]` in a loop over (column, value) pairs found (fail closed)", fn_loc(fn))
            continue
        for y, pos in muls:
            rhs = peel_refs(y["r"])
            col = [l for l, p in pos.items() if p == (0,)]
            if rhs.get("k") == "Index" and peel_refs(rhs["i"]).get("local") in col:
                res.ok()
            elif rhs.get("k") == "Index":
                res.violate("%s : idf-of-foreign-column" % key, "the count is scaled by `%s`, which is not indexed by the entry's own column" % r.e(rhs)[:40], fn_loc(fn, y["ln"]))
            else:
                res.undecided("%s : multiplier" % key, "the multiplier `%s` is not an indexed idf vector (fail closed)" % r.e(rhs)[:40], fn_loc(fn, y["ln"]))
        # the idf vector: compute_idf(number of rows, document frequency of the column)
        calls = [y for y in walk(fn["body"]) if y.get("k") == "MethodCall" and y["name"] == "compute_idf"]
        res.instance("%s : idf arguments" % key)
        if not calls:
            res.undecided("%s : idf-call" % key, "compute_idf call not found (fail closed)", fn_loc(fn))
        else:
            a = calls[0]["args"]
            n_ok = len(a) == 2 and any(z.get("k") == "MethodCall" and z["name"] in ("rows", "nrows", "outer_dims", "len") for z in walk(a[0]))
            clo = None
            for y in walk(fn["body"]):
                if y.get("k") == "Closure" and any(z is calls[0] for z in walk(y["body"])):
                    clo = y
            cps = set(b["local"] for p_ in (clo["params"] if clo else []) for b in pat_bindings(p_))
            df_ok = len(a) == 2 and any(z.get("k") == "Path" and z.get("local") in cps for z in walk(a[1]))
            # where does the document frequency come from?  "over the transformed corpus": from what was counted for this
            # call (a parameter), not from what the fitted vectoriser remembers of the training corpus
            stored = None
            if len(a) == 2:
                for it, pat, body, node in for_loops(fn["body"]):
                    if any(z is calls[0] for z in walk(body)):
                        lb = set(b["local"] for b in pat_bindings(pat))
                        if any(z.get("k") == "Path" and z.get("local") in lb for z in walk(a[1])) and any(z.get("k") == "Path" and z.get("name") == "self" for z in walk(it)):
                            stored = r.e(it)[:60]
                if clo is not None and stored is None:
                    for y in walk(fn["body"]):
                        if y.get("k") == "MethodCall" and y["args"] and any(strip(x) is clo for x in y["args"]) and any(z.get("k") == "Path" and z.get("name") == "self" for z in walk(y["recv"])) and df_ok:
                            stored = r.e(y["recv"])[:60]
            if stored:
                res.violate("%s : idf-from-stored-frequencies" % key, "the document frequency handed to compute_idf is read from `%s` - what the fitted vectoriser remembers of the training corpus - not counted over the documents being transformed" % stored, fn_loc(fn, calls[0]["ln"]))
            elif n_ok and df_ok:
                res.ok()
            elif len(a) == 2 and any(z.get("k") == "Path" and z.get("local") in cps for z in walk(a[0])) and not df_ok:
                res.violate("%s : idf-arguments-swapped" % key, "compute_idf(n, df) is called with the document frequency in the place of the document count", fn_loc(fn, calls[0]["ln"]))
            else:
                res.undecided("%s : idf-arguments" % key, "the arguments of compute_idf were not recognised as (number of documents, document frequency) (fail closed)", fn_loc(fn, calls[0]["ln"]))
    return res.finish(2)


def rule_views(ctx):
    """`Column j always refers to vocabulary()[j]`: a fitted vectoriser holds the word -> column map and the column -> word
    list.  They agree by construction when the list is produced from that very map by the one function that also renumbers
    the map's columns (hashmap_to_vocabulary); a list taken from anywhere else (the caller's word list, which may repeat a
    word) is a second numbering."""
    res = RuleResult("R-C17-views", "every constructor of a fitted count vectoriser derives the column -> word list from the word -> column map it stores (through hashmap_to_vocabulary)")
    F = ctx.facts()
    n = 0
    for fn in F.all_fns():
        if fn["d"]["krate"] != CRATE or fn.get("exp") or "tests" in fn["d"]["path"]:
            continue
        c = fn["crate"]
        r = Render(c)
        for lit in walk(fn["body"]):
            if lit.get("k") != "Struct" or not lit.get("fields"):
                continue
            fs = {f_["name"]: f_["e"] for f_ in lit["fields"]}
            if "vocabulary" not in fs or "vec_vocabulary" not in fs:
                continue
            n += 1
            key = fn_key(fn)
            res.instance("%s : vocabulary views" % key)
            inits = {}
            for y in walk(fn["body"]):
                if y.get("k") == "LetStmt" and y.get("init") is not None and y["pat"].get("k") == "Bind":
                    inits[y["pat"]["local"]] = y["init"]
            m_loc = peel_refs(fs["vocabulary"]).get("local")
            v = peel_refs(fs["vec_vocabulary"])
            if v.get("k") == "Path" and v.get("local") in inits:
                v = peel_refs(inits[v["local"]])
            if lit.get("base") is not None:
                res.ok()
                continue
            if v.get("k") == "Call" and strip(v["f"]).get("k") == "Path" and (c.dfn(strip(v["f"]).get("def")) or {}).get("name") == "hashmap_to_vocabulary" and v["args"]:
                if m_loc is not None and peel_refs(v["args"][0]).get("local") == m_loc:
                    res.ok()
                else:
                    res.violate("%s : views-from-different-maps" % key, "the word list is derived from `%s`, the stored map is another value" % r.e(v["args"][0])[:30], fn_loc(fn, lit.get("ln")))
            elif any(z.get("k") == "Path" and z.get("local") == m_loc for z in walk(v)) and m_loc is not None:
                res.undecided("%s : views-derivation" % key, "the word list is derived from the map by `%s`, not by hashmap_to_vocabulary (fail closed)" % r.e(v)[:50], fn_loc(fn, lit.get("ln")))
            else:
                res.violate("%s : views-built-from-different-sources" % key, "the column -> word list is `%s`: it is not derived from the word -> column map that is stored next to it, so `vocabulary()[j]` need not be the word that is counted in column j (a repeated word in a fixed vocabulary shifts every later entry)" % r.e(v)[:60], fn_loc(fn, lit.get("ln")))
    if n < 3:
        res.missing_anchor("constructors of CountVectorizer (found %d)" % n)
    return res.finish(3)


def rule_ngrams(ctx):
    """The n-grams that start at one word are that word, that word plus the next, plus the next two, ...: every item extends
    the *previous* item by one word.  An item built from a fixed earlier item (the shortest one) plus the current word skips
    the words in between as soon as the range spans more than two lengths."""
    res = RuleResult("R-C17-ngrams", "in NGramList::ngram_items every longer n-gram extends the previous one (a buffer carried from iteration to iteration), not a fixed earlier item")
    F = ctx.facts()
    fns = [f for f in F.all_fns() if f["d"]["krate"] == CRATE and f["d"]["name"] == "ngram_items"]
    if not fns:
        res.missing_anchor("NGramList::ngram_items")
    for fn in fns:
        c = fn["crate"]
        r = Render(c)
        key = fn_key(fn)
        loops = list(for_loops(fn["body"]))
        found = 0
        for it, pat, body, node in loops:
            pushes = [y for y in walk(body) if y.get("k") == "MethodCall" and y["name"] == "push" and y["args"] and "Vec<" in (c.ty(peel_refs(y["recv"]).get("t")) or c.ty(peel_refs(y["recv"]).get("at")) or "")]
            if not pushes:
                continue
            found += 1
            res.instance("%s : items pushed in the loop at line %s" % (key, node.get("ln")))
            inner = {}
            for y in walk(body):
                if y.get("k") == "LetStmt" and y["pat"].get("k") == "Bind":
                    inner[y["pat"]["local"]] = y
            v = peel_refs(pushes[-1]["args"][0])
            src = v.get("local") if v.get("k") == "Path" else None
            if src is None and v.get("k") == "MethodCall":
                src = peel_refs(v["recv"]).get("local")
            if src is None:
                res.undecided("%s : pushed-value" % key, "`%s` (fail closed)" % r.e(v)[:40], fn_loc(fn, pushes[-1].get("ln")))
            elif src not in inner:
                res.ok()        # a buffer that lives across the iterations and grows in each of them
            else:
                # a fresh buffer per iteration: what is it started from?
                uses = [y for y in walk(body) if y.get("k") == "MethodCall" and y["name"] in ("push_str", "extend", "clone_from") and peel_refs(y["recv"]).get("local") == src] + [inner[src].get("init")]
                fixed = [z for u in uses if u is not None for z in walk(u) if z.get("k") == "Index" and peel_refs(z["i"]).get("k") == "Lit" and "Vec<" in (c.ty(peel_refs(z["e"]).get("t")) or c.ty(peel_refs(z["e"]).get("at")) or "")]
                prev = [z for u in uses if u is not None for z in walk(u) if z.get("k") == "MethodCall" and z["name"] in ("last", "last_mut")]
                if fixed and not prev:
                    res.violate("%s : extension-from-fixed-item" % key, "each longer n-gram is built from `%s` plus one word: the words between the shortest n-gram and the current word are left out (range (1, 3): `a c` instead of `a b c`)" % r.e(fixed[0])[:20], fn_loc(fn, fixed[0].get("ln")))
                elif prev:
                    res.ok()
                else:
                    res.undecided("%s : extension-base" % key, "what a new item is started from was not recognised (fail closed)", fn_loc(fn, pushes[-1].get("ln")))
        if not found:
            res.instance("%s : extension loop" % key)
            res.undecided("%s : extension-loop" % key, "no loop that pushes the longer n-grams (fail closed)", fn_loc(fn))
    return res.finish(1)


def rule_lookupall(ctx):
    """Counting looks every n-gram of the document up in the vocabulary.  The vocabulary is *filtered* (stop words, document
    frequency window, feature cap, user-given lists): a shorter n-gram that is not an entry says nothing about the longer
    ones that start at the same token, so the lookup loops have no early exit."""
    res = RuleResult("R-C17-lookupall", "the lookup loops of analyze_document visit every n-gram (no break / return inside them)")
    F = ctx.facts()
    fns = find(F, "analyze_document")
    if not fns:
        res.missing_anchor("CountVectorizer::analyze_document")
    for fn in fns:
        key = fn_key(fn)
        n = 0
        for it, pat, body, node in for_loops(fn["body"]):
            if not any(y.get("k") == "MethodCall" and y["name"] == "get" for y in walk(body)):
                continue
            n += 1
            res.instance("%s : lookup loop at line %s" % (key, node.get("ln")))
            early = next(iter(explicit_exits(body, fn["crate"])), None)
            if early is not None:
                res.violate("%s : lookup-loop-left-early" % key, "the loop over the n-grams is left with `%s`: the n-grams after that point are not counted although they may be vocabulary entries (a filtered vocabulary can hold `a b` without holding `a`)" % early["k"].lower(), fn_loc(fn, early.get("ln")))
            else:
                res.ok()
        if not n:
            res.instance("%s : lookup loops" % key)
            res.undecided("%s : lookup-loops" % key, "no loop with a vocabulary lookup (fail closed)", fn_loc(fn))
    # the relative document frequency is the correctly rounded quotient count / n: the product with a reciprocal is rounded
    # twice and differs from it by an ulp for particular (count, n) - entries exactly on an inclusive bound are then dropped
    for fn in find(F, "filter_vocabulary"):
        c = fn["crate"]
        key = fn_key(fn)
        res.instance("%s : relative frequency is a quotient" % key)
        inits = {}
        for y in walk(fn["body"]):
            if y.get("k") == "LetStmt" and y.get("init") is not None and y["pat"].get("k") == "Bind":
                inits[y["pat"]["local"]] = y["init"]
        recips = set()
        for loc, ini in inits.items():
            i0 = peel_refs(ini)
            if i0.get("k") == "Binary" and i0["op"] == "/" and peel_refs(i0["l"]).get("k") == "Lit" and lit_float(peel_refs(i0["l"]).get("v")) == 1.0:
                recips.add(loc)
            if i0.get("k") == "MethodCall" and i0["name"] == "recip":
                recips.add(loc)
        bad = None
        for y in walk(fn["body"]):
            if y.get("k") == "Binary" and y["op"] == "*" and (peel_refs(y["l"]).get("local") in recips or peel_refs(y["r"]).get("local") in recips):
                bad = y
        if bad is not None:
            res.violate("%s : frequency-through-reciprocal" % key, "`%s`: the relative frequency is a product with a precomputed reciprocal - rounded twice, so for particular (count, n) it is an ulp away from count / n and an entry exactly on an inclusive bound (9 of 10 documents, maximum 0.9) is dropped" % Render(c).e(bad)[:50], fn_loc(fn, bad.get("ln")))
        else:
            res.ok()
    return res.finish(2)


def rule_regexfresh(ctx):
    """The tokeniser that `fit` uses is the compiled form of the expression that is configured *now*.  The compiled form lives
    in a cell beside the expression string and `tokenizer(..)` replaces only the string, so the check has to recompile on
    every call - or compare the cached expression with the string.  A write that is skipped merely because the cell is
    already filled keeps the tokeniser of an earlier configuration."""
    from .layout import with_parents
    res = RuleResult("R-C17-regexfresh", "check_ref compiles the tokeniser expression that is configured now: the write of the compiled form is not skipped because a compiled form is already there")
    F = ctx.facts()
    fns = [f for f in F.all_fns() if f["d"]["krate"] == CRATE and f["d"]["name"] == "check_ref" and (f["d"].get("self_adt") or "").endswith("CountVectorizerParams")]
    if not fns:
        res.missing_anchor("<CountVectorizerParams as ParamGuard>::check_ref")
    for fn in fns:
        c = fn["crate"]
        r = Render(c)
        key = fn_key(fn)
        res.instance("%s : compiled form written" % key)
        writes = []
        alias = set()
        for n in walk(fn["body"]):
            if n.get("k") == "LetStmt" and n.get("init") is not None and n["pat"].get("k") == "Bind" and any(z.get("k") == "Field" and z["name"] == "split_regex" for z in walk(n["init"])):
                alias.add(n["pat"]["local"])      # `let mut cell = self.0.split_regex.borrow_mut();`
        for n, anc in with_parents(fn["body"]):
            if n.get("k") == "Assign" and any(z.get("k") == "Field" and z["name"] == "split_regex" for z in walk(n["l"])):
                writes.append((n, anc))
            if n.get("k") == "Assign" and any(z.get("k") == "Path" and z.get("local") in alias for z in walk(n["l"])):
                writes.append((n, anc))
            if n.get("k") == "MethodCall" and n["name"] in ("replace", "set", "get_or_insert_with", "insert") and any(z.get("k") == "Field" and z["name"] == "split_regex" for z in walk(n["recv"])):
                writes.append((n, anc))
        if not writes:
            res.undecided("%s : write" % key, "no write of the compiled expression in check_ref (fail closed)", fn_loc(fn))
            continue
        bad = None
        for n, anc in writes:
            if n.get("k") == "MethodCall" and n["name"] == "get_or_insert_with":
                bad = (n, "get_or_insert_with")
                break
            for a in anc:
                if a.get("k") == "If":
                    cond = a["c"]
                    reads_cell = any((z.get("k") == "Field" and z["name"] == "split_regex") or (z.get("k") == "Path" and z.get("local") in alias) for z in walk(cond))
                    reads_expr = any(z.get("k") == "Field" and z["name"] == "split_regex_expr" for z in walk(cond))
                    if reads_cell and not reads_expr:
                        bad = (n, r.e(strip(cond))[:60])
                        break
            if bad:
                break
        if bad:
            res.violate("%s : compiled-form-kept-when-present" % key, "the compiled expression is only written under `%s`, a test of the cell itself and not of the expression string: after `tokenizer(..)` replaced the string (or on a clone), the next fit still tokenises with the old expression" % bad[1], fn_loc(fn, bad[0].get("ln")))
        else:
            res.ok()
    return res.finish(1)


def rule_caporder(ctx):
    """`under a feature cap: the most frequent of them` - of the n-grams the settings *admit*.  The cap (`take(max_features)`)
    therefore cuts a sequence that was already filtered by stop words and the document-frequency window.  A `filter` applied
    to what `take` left is a filter after the cut: rejected entries have used up places of the cap, and fewer than
    max_features admitted entries survive although more exist."""
    res = RuleResult("R-C17-caporder", "in the vocabulary filter no admission test (`filter` / `filter_map` / `retain`) is applied after the feature cap (`take` / `truncate`)")
    F = ctx.facts()
    fns = find(F, "filter_vocabulary")
    n = 0
    for fn in fns:
        c = fn["crate"]
        key = fn_key(fn)
        caps = 0
        bad = None
        for y in walk(fn["body"]):
            if y.get("k") != "MethodCall" or y["name"] not in ("filter", "filter_map", "retain", "skip_while", "take_while"):
                continue
            cur = peel_refs(y["recv"])
            hops = 0
            while isinstance(cur, dict) and hops < 30:
                hops += 1
                if cur.get("k") == "MethodCall":
                    if cur["name"] in ("take", "truncate"):
                        bad = (y, cur)
                    cur = peel_refs(cur["recv"])
                elif cur.get("k") == "Call" and cur.get("args"):
                    cur = peel_refs(cur["args"][0])
                else:
                    break
        for y in walk(fn["body"]):
            if y.get("k") == "MethodCall" and y["name"] in ("take", "truncate"):
                caps += 1
        n += 1
        res.instance("%s : %d caps" % (key, caps))
        if caps == 0:
            res.undecided("%s : cap" % key, "no `take` / `truncate` in the vocabulary filter (fail closed)", fn_loc(fn))
        elif bad is None:
            res.ok()
        else:
            res.violate("%s : admission-after-cap" % key, "`%s(..)` is applied to what `%s(..)` left: entries that the stop words or the document-frequency window reject take up places of the feature cap, and admitted entries beyond it are lost" % (bad[0]["name"], bad[1]["name"]), fn_loc(fn, bad[0].get("ln")))
    if n < 1:
        res.missing_anchor("filter_vocabulary")
    return res.finish(1)


def rules(tier):
    from . import carry, c04, iteroverride, layout
    from . import intnarrow
    return [intnarrow.make_rule("R-C17-narrow", lambda f: f["d"]["krate"] == CRATE and any(x in fn_file(f) for x in ("countgrams", "tf_idf", "helpers")), "the vectorisers of linfa-preprocessing"),
            rule_lookupall, rule_caporder, layout.make_rule("R-C17-memorder", "raw memory-order buffers of the document arrays are consumed in order only behind an is_standard_layout() test (row d of the count matrix is document d)", lambda f: f["d"]["krate"] == CRATE and any(x in fn_file(f) for x in ("countgrams", "tf_idf", "helpers")), "the vectorisers of linfa-preprocessing"), iteroverride.make_rule("R-C17-iter", {CRATE}, 1, "linfa-preprocessing (the n-gram walk)"), rule_regexfresh, rule_views, rule_ngrams, rule_pipeline, rule_docfreq, rule_window, rule_reindex, rule_lookup, rule_row, rule_tfidf,
            carry.make_clone_rule("R-C17-clone", {CRATE}, 8), carry.make_setter_rule("R-C17-override", {CRATE}, 4),
            c04.make_carry_rule("R-C17-carry", {"CountVectorizerParams"}, 4), c04.make_setter_value_rule("R-C17-setter", {"CountVectorizerParams", "TfIdfVectorizer"}, 6),
            carry.make_accessor_rule("R-C17-accessor", {"linfa_preprocessing"}, 6), carry.make_ctor_rule("R-C17-ctor", {"linfa_preprocessing"}, 2)]
