"""The expanded square  |a - b|^2 = <a,a> + <b,b> - 2<a,b>  (and its weighted variants).

Algebraically it is the squared distance; in floating point it subtracts two large, nearly equal numbers whenever a and b
are close to each other but far from the origin, and loses all significant digits of the distance (absolute error about
eps * |a|^2).  Code that computes distances, kernel entries or squared deviations this way agrees with the direct formula
sum (a_k - b_k)^2 only near the origin.  Where a property requires two code paths to agree (training-time and
prediction-time kernel, the linear scan and the trees, batch and single-row prediction), one path using the expansion
while the other uses the direct formula is a structural, source-visible reason for them to disagree.

`sites(fn)` finds expressions of the shape  P + Q - 2*R  (in any association / operand order, `R + R` or `two * R` for
the doubling) where P, Q, R are inner products: a call of `dot`, the diagonal / an element of a matrix that was computed
by `dot`, or a local holding such a value."""
from .facts import walk, strip, peel_refs, pat_bindings


def _inits(fn):
    m = {}
    for n in walk(fn["body"]):
        if n.get("k") == "LetStmt" and n.get("init") is not None:
            for b in pat_bindings(n["pat"]):
                m[b["local"]] = n["init"]
    # closure parameters of map / for_each over collections keep the nature of what they range over
    for n in walk(fn["body"]):
        if n.get("k") == "MethodCall" and n["args"] and strip(n["args"][-1]).get("k") == "Closure" and n["name"] in ("for_each", "map", "map_collect", "par_for_each", "mapv", "fold", "filter", "filter_map"):
            clo = strip(n["args"][-1])
            prods = []
            e = strip(n["recv"])
            while e.get("k") == "MethodCall" and e["name"] in ("and", "and_broadcast", "zip"):
                prods.insert(0, e["args"][0])
                e = strip(e["recv"])
            if e.get("k") == "Call" and e.get("args"):
                prods.insert(0, e["args"][0])      # Zip::from(a)
            else:
                prods.insert(0, e)
            params = clo["params"]
            if n["name"] == "fold" and len(params) == 2:
                params = params[1:]
            if len(params) == len(prods):
                for p_, src in zip(params, prods):
                    for b in pat_bindings(p_):
                        m.setdefault(b["local"], src)
            elif len(params) == 1:
                for b in pat_bindings(params[0]):
                    m.setdefault(b["local"], n["recv"])
    return m


def _is_product(e, inits, depth=0):
    """e is an inner product / squared norm: x.dot(y), sum of squares, an element or the diagonal of such a matrix"""
    e = peel_refs(e)
    if depth > 4 or not isinstance(e, dict):
        return False
    k = e.get("k")
    if k == "MethodCall":
        if e["name"] == "dot":
            return True
        if e["name"] == "map" and e["args"]:
            return any(y.get("k") == "MethodCall" and y["name"] == "dot" for y in walk(e["args"][0])) or any(y.get("k") == "Binary" and y["op"] == "*" for y in walk(e["args"][0]))
        if e["name"] in ("collect", "iter", "into_iter", "iter_mut", "view_mut", "rows", "outer_iter"):
            return _is_product(e["recv"], inits, depth + 1)
        if e["name"] in ("diag", "to_owned", "clone", "view", "sum", "unwrap", "sum_axis", "into_owned", "mapv", "row", "column", "index_axis"):
            if e["name"] == "mapv":
                # x.mapv(|v| v * v) is a vector of squares
                return any(y.get("k") == "Binary" and y["op"] == "*" for y in walk(e["args"][0])) if e["args"] else False
            return _is_product(e["recv"], inits, depth + 1)
        return False
    if k == "Index":
        return _is_product(e["e"], inits, depth + 1)
    if k == "Path" and e.get("local") in inits:
        return _is_product(inits[e["local"]], inits, depth + 1)
    return False


def _doubled(e, inits):
    """e is 2 * R, R * 2, two * R or R + R with R an inner product; returns R or None"""
    e = peel_refs(e)
    if e.get("k") != "Binary":
        return None
    if e["op"] == "+":
        l, r = peel_refs(e["l"]), peel_refs(e["r"])
        if _is_product(l, inits) and _is_product(r, inits):
            # R + R: same expression twice (compare by the locals / indices they mention)
            sl = sorted(str(y.get("local")) for y in walk(l) if y.get("k") == "Path" and "local" in y)
            sr = sorted(str(y.get("local")) for y in walk(r) if y.get("k") == "Path" and "local" in y)
            return l if sl == sr and sl else None
        return None
    if e["op"] == "*":
        for a, b in ((e["l"], e["r"]), (e["r"], e["l"])):
            if _is_product(a, inits) and _is_two(b, inits):
                return a
    return None


def _is_two(e, inits, depth=0):
    e = peel_refs(e)
    if depth > 3:
        return False
    if e.get("k") == "Lit":
        from .facts import lit_float
        return lit_float(e.get("v")) == 2.0
    if e.get("k") == "Call" and len(e.get("args", [])) == 1:
        return _is_two(e["args"][0], inits, depth + 1)
    if e.get("k") == "MethodCall" and e["name"] == "unwrap":
        return _is_two(e["recv"], inits, depth + 1)
    if e.get("k") == "Binary" and e["op"] == "+":
        # F::one() + F::one()
        def one(x):
            x = peel_refs(x)
            return x.get("k") == "Call" and not x.get("args")
        return one(e["l"]) and one(e["r"])
    if e.get("k") == "Path" and e.get("local") in inits:
        return _is_two(inits[e["local"]], inits, depth + 1)
    return False


def _terms(e, sign=1, out=None):
    """flatten a +/- chain into (sign, term)"""
    out = out if out is not None else []
    e0 = peel_refs(e)
    if e0.get("k") == "Binary" and e0["op"] in ("+", "-"):
        _terms(e0["l"], sign, out)
        _terms(e0["r"], sign if e0["op"] == "+" else -sign, out)
    else:
        out.append((sign, e0))
    return out


def sites(fn):
    """[(node, description)] for every expanded-square expression in fn"""
    inits = _inits(fn)
    out = []
    seen = set()
    for n in walk(fn["body"]):
        if n.get("k") != "Binary" or n["op"] not in ("+", "-") or id(n) in seen:
            continue
        ts = _terms(n)
        for y in walk(n):
            if y.get("k") == "Binary" and y["op"] in ("+", "-"):
                seen.add(id(y))
        pos = [t for s_, t in ts if s_ > 0]
        neg = [t for s_, t in ts if s_ < 0]
        prods = [t for t in pos if _is_product(t, inits)]
        dbl = [t for t in neg if _doubled(t, inits) is not None]
        # a doubled product written as a '+' chain was flattened: R + R shows as two equal negative products
        negp = [t for t in neg if _is_product(t, inits)]
        if len(prods) >= 2 and (dbl or len(negp) >= 2):
            out.append((n, "sum of two squared norms minus twice an inner product"))
    return out
