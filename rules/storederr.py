"""A serialised model field of type `Result<T, E>` stores whatever error its producer returns.  Error enums of the
workspace have variants that serde is told to skip (`#[serde(skip)]` on `linfa::Error::NdShape`, which wraps an
`ndarray::ShapeError` that is not serialisable): a value of such a variant makes the *whole model* unserialisable
("the enum variant Error::NdShape cannot be serialized").

So the function whose result is stored must not let a skipped variant escape.  The ways one gets in are conversions:
`?` (or `map_err(E::from)?`) applied to a `Result<_, S>` where `S` is the payload type of a skipped variant.  The rule
reads the skipped variants off the generated `Serialize` impls (their arms return the "cannot be serialized" error),
finds the stored-result fields of serialisable types, resolves the producers of the stored values and reports a `?`
whose operand carries a skipped variant's payload type."""
import re

from .core import RuleResult
from .facts import fn_key, fn_loc, walk, strip, peel_refs, Render

SKIP_RE = re.compile(r"the enum variant (\w+)::(\w+) cannot be serialized")


def make_rule(rid, floor):
    def rule(ctx):
        from .shortcut import _fn_of_def
        from .c19 import ser_impls
        res = RuleResult(rid, "the producer of a serialised `Result` field lets no error variant escape that serde skips")
        F = ctx.facts("serde")
        if F is None:
            return res.finish(0)
        skipped = {}
        for fn in F.all_fns():
            if fn["d"]["name"] != "serialize":
                continue
            for y in walk(fn["body"]):
                if y.get("k") == "Lit" and isinstance(y.get("v"), str):
                    m = SKIP_RE.search(y["v"])
                    if m:
                        skipped.setdefault(m.group(1), set()).add(m.group(2))
        sources = {}
        for c in F.crates.values():
            for a in c.adts:
                nm = a["path"].split("::")[-1]
                for v in a.get("variants") or []:
                    if v["name"] in skipped.get(nm, ()):
                        for f_ in v["fields"]:
                            t = (f_.get("ty") or "").split("<")[0].split("::")[-1]
                            if t:
                                sources[t] = "%s::%s" % (nm, v["name"])
        res.info.append("variants skipped by serde: %s; payload types %s" % ({k_: sorted(v) for k_, v in skipped.items()}, sorted(sources)))
        if not sources:
            res.missing_anchor("enum variants skipped by a generated Serialize impl")
            return res.finish(floor)
        ser = {adt.split("::")[-1] for (_, adt), d in ser_impls(F).items() if "ser" in d}
        stored = {}
        for c in F.crates.values():
            for a in c.adts:
                nm = a["path"].split("::")[-1]
                if nm not in ser:
                    continue
                for v in a.get("variants") or []:
                    for f_ in v["fields"]:
                        if re.search(r"\bResult<", f_.get("ty") or ""):
                            stored.setdefault(nm, set()).add(f_["name"])
        src_re = re.compile(r"Result<.*\b(%s)\b" % "|".join(sorted(re.escape(s) for s in sources)))
        seen = set()
        for fn in F.all_fns():
            if fn.get("exp"):
                continue
            c = fn["crate"]
            inits = {}
            lits = []
            for y in walk(fn["body"]):
                if y.get("k") == "LetStmt" and y.get("init") is not None and y["pat"].get("k") == "Bind":
                    inits[y["pat"]["local"]] = y["init"]
                if y.get("k") == "Struct":
                    t = (c.ty(y.get("t")) or "").split("<")[0].split("::")[-1]
                    if t in stored:
                        lits.append((t, y))
            for t, lit in lits:
                for f_ in lit.get("fields") or []:
                    if f_["name"] not in stored[t]:
                        continue
                    v = peel_refs(f_["e"])
                    if v.get("k") == "Path" and v.get("local") in inits:
                        v = inits[v["local"]]
                    producers = []
                    for y in walk(v):
                        d = None
                        if y.get("k") == "Call" and strip(y["f"]).get("k") == "Path":
                            d = strip(y["f"]).get("def")
                        elif y.get("k") == "MethodCall":
                            d = y.get("def")
                        g = _fn_of_def(F, c, d) if d is not None else None
                        if g is not None and not g.get("exp"):
                            producers.append(g)
                    for g in producers:
                        inst = "%s.%s <- %s" % (t, f_["name"], fn_key(g))
                        if inst in seen:
                            continue
                        seen.add(inst)
                        res.instance(inst)
                        gc = g["crate"]
                        r = Render(gc)
                        bad = None
                        for y in walk(g["body"]):
                            if y.get("k") == "Match" and y.get("src") == "TryDesugar":
                                sc = strip(y["scrut"])
                                inner = sc["args"][0] if sc.get("k") == "Call" and sc.get("args") else None
                                while inner is not None:
                                    inner = peel_refs(inner)
                                    m = src_re.search(gc.ty(inner.get("t")) or "")
                                    if m:
                                        bad = (y, m.group(1))
                                        break
                                    inner = inner.get("recv") if inner.get("k") == "MethodCall" and inner["name"] in ("map_err", "or_else", "map", "and_then") else None
                                if bad:
                                    break
                        if bad:
                            res.violate("%s : stored-result-may-hold-skipped-variant:%s" % (inst, bad[1]), "`%s`: an error of type %s is converted by `?` into the error this function returns - it ends up in `%s`, the variant serde skips - and the result is stored in the serialised field `%s.%s`: a model that carries it cannot be serialised at all" % (r.e(bad[0])[:60], bad[1], sources[bad[1]], t, f_["name"]), fn_loc(g, bad[0].get("ln")))
                        else:
                            res.ok()
        return res.finish(floor)
    rule.__name__ = "rule_" + rid.replace("-", "_")
    return rule
